//! Deterministic simulated transport: scripted read half, capturing write half, scripted listener.
//!
//! Nothing here reads a clock or spawns a thread. A read consumes script entries only in the poll
//! that returns `Ready` (or the single `Pending` entry it was told to return), so the mock itself is
//! cancel safe: dropping a pending read future loses nothing.

use std::{cell::RefCell, collections::VecDeque, future::poll_fn, rc::Rc, task::Poll};

use serde::{Deserialize, Serialize};
use zlink_core::connection::socket::{ReadHalf, Socket, WriteHalf};

/// One scripted event of the read half.
#[derive(Debug, Clone, PartialEq, Eq, Serialize, Deserialize)]
pub enum ReadEv {
    /// Bytes that become available (delivered in one read if the caller's buffer is large enough).
    Data(Vec<u8>),
    /// The next poll of a read returns `Pending` once.
    Pending,
    /// Peer closed: every further read returns `Ok(0)`.
    Eof,
    /// Transport failure: every further read returns `Err(SocketRead)`.
    Err,
}

#[derive(Debug, Default)]
pub struct ReadState {
    pub script: VecDeque<ReadEv>,
    /// Polls of read futures.
    pub polls: u64,
    /// Reads that completed (`Ready`), including EOF / error results.
    pub reads: u64,
    /// Payload bytes handed over.
    pub bytes: u64,
    /// Largest `buf.len()` a read was offered (lower bound of the connection's buffer size).
    pub max_buf_len: usize,
    /// Largest `bytes delivered so far + buf.len()`: while the connection has not reset its cursors
    /// (single-frame cases) this is the length of its receive buffer.
    pub max_extent: u64,
    /// Progress counter shared with the write half, for "poll until quiescent" drivers.
    pub progress: u64,
    /// The most recent poll of a read on this socket found nothing to deliver and returned
    /// `Pending` - the moment at which a real transport registers the task's waker. False after
    /// any read that completed. (The simulation drives with a no-op waker; this flag is how a
    /// connection nobody is waiting on becomes visible.)
    pub armed: bool,
}

#[derive(Debug, Default)]
pub struct WriteState {
    /// One entry per completed `write` call.
    pub writes: Vec<Vec<u8>>,
    /// `write` calls with 0-based index >= this fail with `SocketWrite` (nothing recorded).
    pub fail_from: Option<usize>,
    /// Number of write calls seen (completed or failed).
    pub calls: usize,
    /// `Pending` polls to return before the next write completes (front = next write).
    pub pending_script: VecDeque<u32>,
    pub polls: u64,
    pub progress: u64,
}

impl WriteState {
    pub fn concat(&self) -> Vec<u8> {
        self.writes.concat()
    }
}

#[derive(Debug, Clone)]
pub struct SimRead(pub Rc<RefCell<ReadState>>);
#[derive(Debug, Clone)]
pub struct SimWrite(pub Rc<RefCell<WriteState>>);

#[derive(Debug)]
pub struct SimSocket {
    pub read: SimRead,
    pub write: SimWrite,
}

/// The harness's handle on a simulated socket (shares state with the halves given to zlink).
#[derive(Debug, Clone)]
pub struct SimHandle {
    pub read: Rc<RefCell<ReadState>>,
    pub write: Rc<RefCell<WriteState>>,
}

impl SimSocket {
    pub fn new() -> (SimSocket, SimHandle) {
        let r = Rc::new(RefCell::new(ReadState::default()));
        let w = Rc::new(RefCell::new(WriteState::default()));
        (
            SimSocket {
                read: SimRead(r.clone()),
                write: SimWrite(w.clone()),
            },
            SimHandle { read: r, write: w },
        )
    }

    pub fn with_script(script: impl IntoIterator<Item = ReadEv>) -> (SimSocket, SimHandle) {
        let (s, h) = Self::new();
        h.read.borrow_mut().script.extend(script);
        (s, h)
    }
}

impl SimHandle {
    pub fn push(&self, ev: ReadEv) {
        self.read.borrow_mut().script.push_back(ev);
    }
    pub fn push_data(&self, d: &[u8]) {
        if !d.is_empty() {
            self.push(ReadEv::Data(d.to_vec()));
        }
    }
    pub fn written(&self) -> Vec<u8> {
        self.write.borrow().concat()
    }
    pub fn writes(&self) -> Vec<Vec<u8>> {
        self.write.borrow().writes.clone()
    }
    pub fn script_empty(&self) -> bool {
        self.read.borrow().script.is_empty()
    }
    pub fn progress(&self) -> u64 {
        self.read.borrow().progress + self.write.borrow().progress
    }
}

impl Socket for SimSocket {
    type ReadHalf = SimRead;
    type WriteHalf = SimWrite;
    fn split(self) -> (SimRead, SimWrite) {
        (self.read, self.write)
    }
}

impl ReadHalf for SimRead {
    fn read(
        &mut self,
        buf: &mut [u8],
    ) -> impl std::future::Future<Output = zlink_core::Result<usize>> {
        let st = self.0.clone();
        poll_fn(move |_cx| {
            let mut st = st.borrow_mut();
            st.polls += 1;
            if buf.len() > st.max_buf_len {
                st.max_buf_len = buf.len();
            }
            let extent = st.bytes + buf.len() as u64;
            if extent > st.max_extent {
                st.max_extent = extent;
            }
            let next = st.script.pop_front();
            st.armed = next.is_none();
            match next {
                None => Poll::Pending,
                Some(ReadEv::Pending) => {
                    st.progress += 1;
                    Poll::Pending
                }
                Some(ReadEv::Eof) => {
                    st.script.push_front(ReadEv::Eof);
                    st.reads += 1;
                    st.progress += 1;
                    Poll::Ready(Ok(0))
                }
                Some(ReadEv::Err) => {
                    st.script.push_front(ReadEv::Err);
                    st.reads += 1;
                    st.progress += 1;
                    Poll::Ready(Err(zlink_core::Error::SocketRead))
                }
                Some(ReadEv::Data(mut d)) => {
                    if d.is_empty() {
                        // An empty chunk would read as EOF; treat as a spurious wake-up instead.
                        st.progress += 1;
                        return Poll::Pending;
                    }
                    if buf.is_empty() {
                        // A conforming caller never offers an empty buffer; be explicit if it does.
                        st.script.push_front(ReadEv::Data(d));
                        st.reads += 1;
                        return Poll::Ready(Ok(0));
                    }
                    let n = d.len().min(buf.len());
                    buf[..n].copy_from_slice(&d[..n]);
                    if n < d.len() {
                        d.drain(..n);
                        st.script.push_front(ReadEv::Data(d));
                    }
                    st.reads += 1;
                    st.bytes += n as u64;
                    st.progress += 1;
                    Poll::Ready(Ok(n))
                }
            }
        })
    }
}

impl WriteHalf for SimWrite {
    fn write(&mut self, buf: &[u8]) -> impl std::future::Future<Output = zlink_core::Result<()>> {
        let st = self.0.clone();
        poll_fn(move |_cx| {
            let mut st = st.borrow_mut();
            st.polls += 1;
            if let Some(p) = st.pending_script.front_mut() {
                if *p > 0 {
                    *p -= 1;
                    st.progress += 1;
                    return Poll::Pending;
                }
            }
            st.pending_script.pop_front();
            let idx = st.calls;
            st.calls += 1;
            st.progress += 1;
            if st.fail_from.is_some_and(|k| idx >= k) {
                return Poll::Ready(Err(zlink_core::Error::SocketWrite));
            }
            st.writes.push(buf.to_vec());
            Poll::Ready(Ok(()))
        })
    }
}

// ---------------------------------------------------------------------------------------------
// Listener

#[derive(Debug, Default)]
pub struct ListenerState {
    pub incoming: VecDeque<SimSocket>,
    pub accepted: u64,
    pub polls: u64,
    pub progress: u64,
    /// The most recent poll of `accept` found no connection and returned `Pending`.
    pub armed: bool,
}

#[derive(Debug, Clone)]
pub struct SimListener(pub Rc<RefCell<ListenerState>>);

impl SimListener {
    pub fn new() -> Self {
        SimListener(Rc::new(RefCell::new(ListenerState::default())))
    }
    /// Queue a connection; returns the harness's handle to it.
    pub fn connect(&self) -> SimHandle {
        let (s, h) = SimSocket::new();
        self.0.borrow_mut().incoming.push_back(s);
        h
    }
    pub fn progress(&self) -> u64 {
        self.0.borrow().progress
    }
}

impl zlink_core::Listener for SimListener {
    type Socket = SimSocket;
    fn accept(
        &mut self,
    ) -> impl std::future::Future<Output = zlink_core::Result<zlink_core::Connection<SimSocket>>>
    {
        let st = self.0.clone();
        poll_fn(move |_cx| {
            let mut st = st.borrow_mut();
            st.polls += 1;
            st.armed = st.incoming.is_empty();
            match st.incoming.pop_front() {
                Some(s) => {
                    st.accepted += 1;
                    st.progress += 1;
                    Poll::Ready(Ok(zlink_core::Connection::new(s)))
                }
                None => Poll::Pending,
            }
        })
    }
}
