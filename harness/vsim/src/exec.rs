//! A hand-rolled executor: every poll is owned by the harness, no runtime, no timers, no threads.

use std::{
    future::Future,
    pin::Pin,
    task::{Context, Poll, Waker},
};

/// Poll a pinned future once with a no-op waker.
pub fn poll_once<F: Future + ?Sized>(fut: Pin<&mut F>) -> Poll<F::Output> {
    let waker = Waker::noop();
    let mut cx = Context::from_waker(waker);
    fut.poll(&mut cx)
}

/// Poll a future until it is ready, at most `max_polls` times. `None` means "still pending".
///
/// The simulated transports return `Pending` only when their script says so (or is exhausted), so a
/// future that stays pending for `max_polls` polls is waiting for input nobody will send.
pub fn run_until_ready<F: Future>(fut: F, max_polls: usize) -> Option<F::Output> {
    let mut fut = std::pin::pin!(fut);
    for _ in 0..max_polls {
        if let Poll::Ready(v) = poll_once(fut.as_mut()) {
            return Some(v);
        }
    }
    None
}

/// Poll a stream's `poll_next` once.
pub fn poll_next_once<S: futures_util::Stream + ?Sized>(s: Pin<&mut S>) -> Poll<Option<S::Item>> {
    let waker = Waker::noop();
    let mut cx = Context::from_waker(waker);
    s.poll_next(&mut cx)
}
