//! Deterministic simulated transport and hand-rolled executor (no runtime, no threads, no clock).
//! Kept in its own small crate so that generated program corpora can use it without the rest of
//! the harness.

pub mod exec;
pub mod sim;
