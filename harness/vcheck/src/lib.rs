//! The checks, one module per property (also used by the fuzz targets in /verif/fuzz).

pub mod c01;
pub mod c02;
pub mod c03;
pub mod c04;
pub mod c05;
pub mod c05gen;
pub mod c06;
pub mod c07;
pub mod c08;
pub mod c09;
pub mod c10;
pub mod c11;
pub mod c12;
pub mod c13;
pub mod c14;
pub mod c15;
pub mod c16;
pub mod c17;
pub mod c18;
pub mod c19;
pub mod c20;
pub mod fuzzdec;
pub mod fuzzrun;
