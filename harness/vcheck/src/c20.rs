//! C20 — notified state: subscribers converge on the latest value, in order.

use std::{pin::Pin, task::Poll};

use proptest::prelude::*;
use serde::{Deserialize, Serialize};
use serde_json::json;
use vcommon::{
    drv::{par_enumerate, run_shards, CaseResult, Fail},
    ev::{hash_of, Ctx, Report, Stats},
    exec::{poll_next_once, run_until_ready},
};
use zlink_core::Reply;

pub const RULE: &str = "case = an operation list over {Set (values 1,2,3,... through the state or a \
clone of it), SetSame (set the value that is already current), Subscribe, Poll(i) (one poll_next of subscriber i with that subscriber's own counting waker), DropSub(i) (subscriber i drops its stream), Clone, \
DropOriginal} with up to 6 sets and up to 3 live subscribers created at arbitrary points, followed by \
draining every subscriber (every case is also run without this step, so that the states go away while values are still undelivered), then dropping every state and draining again; run against \
zlink_tokio::notified and zlink_smol::notified. Oracle (model): what subscriber i receives is a \
subsequence of the values set after it subscribed, each marked continues = \
true; whenever a poll returns Pending its last value is the last value set since it subscribed and, if anything was set since it last was up to date, it has received something since (it \
is up to date); a poll never returns end-of-stream while a state (or clone) exists; after all \
states are gone the stream ends, and the last value set has been seen by then; setting never fails \
or panics, with or without subscribers; a subscriber whose last poll returned Pending has had its waker woken by the time the next set completed / the last state was dropped (likewise the one-shot stream when the notifier notifies or is dropped). One-shot: notify before / after the first poll gives \
exactly one item marked continues = false and then the end; a dropped notifier gives just the end. \
Both runtimes must satisfy the same rules (trace equality between them is recorded, not demanded). \
All operation lists up to length 7 over {Set, SetSame, Subscribe, Poll0, Poll1} are enumerated. \
Non-trivial = a subscriber that is polled after at least 2 sets since its previous poll (lag) or \
that subscribed after the first set; distinct by hash of (runtime, operations).";

#[derive(Debug, Clone, Copy, PartialEq, Eq, Hash, Serialize, Deserialize)]
pub enum Op {
    Set,
    /// set through the newest clone
    SetClone,
    Sub,
    Poll(u8),
    Clone,
    DropOriginal,
    /// set the value that is already current (the previous set's value, or the initial one): still
    /// a set - a subscriber that has not seen the value yet must get it
    SetSame,
    /// subscriber i drops its stream (unsubscribes); the others, and later subscribers, must not
    /// notice
    DropSub(u8),
}

#[derive(Debug, Clone, Copy, PartialEq, Eq, Hash, Serialize, Deserialize)]
pub enum Runtime {
    Tokio,
    Smol,
}

/// What the harness needs from a runtime's notified module.
trait Notified {
    type State;
    type Stream: futures_util::Stream<Item = Reply<u64>> + Unpin;
    type Once;
    fn new(v: u64) -> Self::State;
    fn set(s: &mut Self::State, v: u64) -> bool;
    fn get(s: &Self::State) -> u64;
    fn stream(s: &Self::State) -> Self::Stream;
    fn clone_state(s: &Self::State) -> Self::State;
    fn once() -> (Self::Once, Self::Stream);
    fn notify(o: Self::Once, v: u64);
}

struct TokioRt;
impl Notified for TokioRt {
    type State = zlink_tokio::notified::State<u64, u64>;
    type Stream = zlink_tokio::notified::Stream<u64>;
    type Once = zlink_tokio::notified::Once<u64>;
    fn new(v: u64) -> Self::State {
        zlink_tokio::notified::State::new(v)
    }
    fn set(s: &mut Self::State, v: u64) -> bool {
        run_until_ready(s.set(v), 4).is_some()
    }
    fn get(s: &Self::State) -> u64 {
        s.get()
    }
    fn stream(s: &Self::State) -> Self::Stream {
        s.stream()
    }
    fn clone_state(s: &Self::State) -> Self::State {
        s.clone()
    }
    fn once() -> (Self::Once, Self::Stream) {
        zlink_tokio::notified::Once::new()
    }
    fn notify(o: Self::Once, v: u64) {
        o.notify(v)
    }
}

struct SmolRt;
impl Notified for SmolRt {
    type State = zlink_smol::notified::State<u64, u64>;
    type Stream = zlink_smol::notified::Stream<u64>;
    type Once = zlink_smol::notified::Once<u64>;
    fn new(v: u64) -> Self::State {
        zlink_smol::notified::State::new(v)
    }
    fn set(s: &mut Self::State, v: u64) -> bool {
        run_until_ready(s.set(v), 4).is_some()
    }
    fn get(s: &Self::State) -> u64 {
        s.get()
    }
    fn stream(s: &Self::State) -> Self::Stream {
        s.stream()
    }
    fn clone_state(s: &Self::State) -> Self::State {
        s.clone()
    }
    fn once() -> (Self::Once, Self::Stream) {
        zlink_smol::notified::Once::new()
    }
    fn notify(o: Self::Once, v: u64) {
        o.notify(v)
    }
}

#[derive(Debug, Clone, PartialEq, Eq)]
enum Got {
    Item(u64, Option<bool>),
    Pending,
    End,
}

/// A waker that counts how often it was woken: one per subscriber, so that "a parked subscriber is
/// woken by the next set / by the end of the state" can be observed without a runtime.
#[derive(Debug, Default)]
struct WakeCount(std::sync::atomic::AtomicUsize);
impl std::task::Wake for WakeCount {
    fn wake(self: std::sync::Arc<Self>) {
        self.0.fetch_add(1, std::sync::atomic::Ordering::SeqCst);
    }
    fn wake_by_ref(self: &std::sync::Arc<Self>) {
        self.0.fetch_add(1, std::sync::atomic::Ordering::SeqCst);
    }
}
impl WakeCount {
    fn count(&self) -> usize {
        self.0.load(std::sync::atomic::Ordering::SeqCst)
    }
}

fn poll_with<S: futures_util::Stream<Item = Reply<u64>> + Unpin>(s: &mut S, w: &std::sync::Arc<WakeCount>) -> Got {
    let waker = std::task::Waker::from(w.clone());
    let mut cx = std::task::Context::from_waker(&waker);
    match futures_util::Stream::poll_next(Pin::new(s), &mut cx) {
        Poll::Pending => Got::Pending,
        Poll::Ready(None) => Got::End,
        Poll::Ready(Some(r)) => Got::Item(r.parameters().copied().unwrap_or(u64::MAX), r.continues()),
    }
}

#[allow(dead_code)]
fn poll<S: futures_util::Stream<Item = Reply<u64>> + Unpin>(s: &mut S) -> Got {
    match poll_next_once(Pin::new(s)) {
        Poll::Pending => Got::Pending,
        Poll::Ready(None) => Got::End,
        Poll::Ready(Some(r)) => Got::Item(r.parameters().copied().unwrap_or(u64::MAX), r.continues()),
    }
}

struct SubModel {
    /// values set since subscription
    set_since: Vec<u64>,
    seen: Vec<u64>,
    /// sets since this subscriber's previous poll
    sets_since_poll: usize,
    /// next position in `set_since` a received value may be matched to (values can repeat)
    match_pos: usize,
    /// sets / items since this subscriber last reported Pending (or subscribed)
    sets_since_pending: usize,
    items_since_pending: usize,
    lagged: bool,
    late: bool,
    /// this subscriber's waker, and its wake count at the moment its last poll returned Pending
    /// (None = not parked: the last poll returned something)
    waker: std::sync::Arc<WakeCount>,
    parked_at: Option<usize>,
}

impl SubModel {
    /// A subscriber whose last poll returned Pending must have been woken since (after a set, or
    /// when the last state went away); otherwise no runtime would ever poll it again.
    fn woken_if_parked(&self, i: usize, what: &str, name: &str) -> Result<(), Fail> {
        match self.parked_at {
            Some(at) if self.waker.count() == at => Err(Fail::new(
                "parked-subscriber-not-woken",
                format!("[{name}] subscriber {i}: its last poll returned Pending, then {what}, but its waker was not woken (under a runtime it would sleep on although a value / the end is waiting)"),
            )),
            _ => Ok(()),
        }
    }
}

/// Executes the operations; returns the trace (for cross-runtime statistics) or the violation.
fn run_ops<N: Notified>(ops: &[Op], rt: Runtime, drain_first: bool, stats: &mut Stats) -> Result<Vec<(u8, Vec<u64>)>, Fail> {
    let name = format!("{rt:?}").to_lowercase();
    let fail = |sig: &str, m: String| Err(Fail::new(&format!("{sig}"), format!("[{name}] {m}")));
    let mut states: Vec<Option<N::State>> = vec![Some(N::new(0))];
    // a subscriber that has dropped its stream keeps its slot (None), so indices stay stable
    let mut subs: Vec<(Option<N::Stream>, SubModel)> = Vec::new();
    let mut next = 0u64;
    let mut n_sets = 0usize;
    let mut any_set = false;

    // judge one poll result of subscriber i
    fn judge(i: usize, got: &Got, m: &mut SubModel, states_alive: bool, name: &str) -> Result<(), Fail> {
        match got {
            Got::Item(v, cont) => {
                if *cont != Some(true) {
                    return Err(Fail::new("state-item-not-marked-continuing", format!("[{name}] subscriber {i} got value {v} with continues = {cont:?}")));
                }
                if !m.set_since.contains(v) {
                    return Err(Fail::new("value-not-set-after-subscription", format!("[{name}] subscriber {i} got {v}; values set since it subscribed: {:?}", m.set_since)));
                }
                // the received values must be a subsequence of the values set (earliest match)
                match m.set_since[m.match_pos.min(m.set_since.len())..].iter().position(|x| x == v) {
                    Some(k) => m.match_pos += k + 1,
                    None => return Err(Fail::new("values-out-of-order-or-repeated", format!("[{name}] subscriber {i} got {v} after {:?}; values set since it subscribed: {:?}", m.seen, m.set_since))),
                }
                m.seen.push(*v);
                m.items_since_pending += 1;
            }
            Got::Pending => {
                if m.seen.last() != m.set_since.last() || (m.sets_since_pending > 0 && m.items_since_pending == 0) {
                    return Err(Fail::new(
                        "pending-while-behind-the-latest-value",
                        format!(
                            "[{name}] subscriber {i}: poll returned Pending although the latest value is {:?} ({} set(s) since it last was up to date) and it has seen {:?}",
                            m.set_since.last(),
                            m.sets_since_pending,
                            m.seen
                        ),
                    ));
                }
                m.sets_since_pending = 0;
                m.items_since_pending = 0;
            }
            Got::End => {
                if states_alive {
                    return Err(Fail::new("subscription-ended-while-state-exists", format!("[{name}] subscriber {i}: end of stream although the state still exists")));
                }
                if m.seen.last() != m.set_since.last() || (m.sets_since_pending > 0 && m.items_since_pending == 0) {
                    return Err(Fail::new("stream-ended-without-the-latest-value", format!("[{name}] subscriber {i}: ended having seen {:?}, latest set {:?}", m.seen, m.set_since.last())));
                }
            }
        }
        m.sets_since_poll = 0;
        Ok(())
    }

    for op in ops {
        match *op {
            Op::Set | Op::SetClone | Op::SetSame => {
                let idx = if *op != Op::SetClone { states.iter().position(|s| s.is_some()) } else { states.iter().rposition(|s| s.is_some()) };
                let Some(idx) = idx else { continue };
                if n_sets >= 6 {
                    continue;
                }
                n_sets += 1;
                if *op != Op::SetSame {
                    next += 1;
                }
                let st = states[idx].as_mut().unwrap();
                if !N::set(st, next) {
                    return fail("set-stayed-pending", format!("set({next}) did not complete"));
                }
                if N::get(st) != next {
                    return fail("get-after-set", format!("get() after set({next}) gives {}", N::get(st)));
                }
                any_set = true;
                for (i, (_, m)) in subs.iter().enumerate() {
                    m.woken_if_parked(i, &format!("set({next}) completed"), &name)?;
                }
                for (_, m) in &mut subs {
                    m.set_since.push(next);
                    m.sets_since_poll += 1;
                    m.sets_since_pending += 1;
                    if m.sets_since_poll >= 2 {
                        m.lagged = true;
                    }
                }
            }
            Op::Sub => {
                if subs.len() >= 4 || subs.iter().filter(|s| s.0.is_some()).count() >= 3 {
                    continue;
                }
                let Some(st) = states.iter().flatten().next() else { continue };
                subs.push((Some(N::stream(st)), SubModel { set_since: vec![], seen: vec![], sets_since_poll: 0, match_pos: 0, sets_since_pending: 0, items_since_pending: 0, lagged: false, late: any_set, waker: Default::default(), parked_at: None }));
            }
            Op::Poll(i) => {
                let i = i as usize;
                if i >= subs.len() || subs[i].0.is_none() {
                    continue;
                }
                let alive = states.iter().any(|s| s.is_some());
                let w = subs[i].1.waker.clone();
                let got = poll_with(subs[i].0.as_mut().unwrap(), &w);
                subs[i].1.parked_at = if got == Got::Pending { Some(w.count()) } else { None };
                judge(i, &got, &mut subs[i].1, alive, &name)?;
            }
            Op::DropSub(i) => {
                let i = i as usize;
                if i < subs.len() && subs[i].0.is_some() {
                    subs[i].0 = None;
                    subs[i].1.parked_at = None;
                    stats.class("a-subscriber-dropped-its-stream");
                }
            }
            Op::Clone => {
                if states.len() >= 3 {
                    continue;
                }
                if let Some(st) = states.iter().flatten().next() {
                    let c = N::clone_state(st);
                    states.push(Some(c));
                }
            }
            Op::DropOriginal => {
                // only if a clone keeps the state alive
                if states.iter().filter(|s| s.is_some()).count() >= 2 {
                    if let Some(p) = states.iter().position(|s| s.is_some()) {
                        states[p] = None;
                    }
                }
            }
        }
    }
    // drain every subscriber (state still alive): must converge on the latest value. In the
    // second variant of every case this step is left out: the states go away while subscribers
    // still have a value waiting, which they must get before they see the end.
    for (i, (s, m)) in subs.iter_mut().enumerate() {
        let Some(s) = s.as_mut() else { continue };
        if !drain_first {
            if m.seen.last() != m.set_since.last() {
                stats.class("state-dropped-with-a-value-undelivered");
            }
            continue;
        }
        for _ in 0..10 {
            let w = m.waker.clone();
            let got = poll_with(s, &w);
            m.parked_at = if got == Got::Pending { Some(w.count()) } else { None };
            judge(i, &got, m, true, &name)?;
            if got == Got::Pending {
                break;
            }
        }
    }
    // drop all states: streams must end
    states.clear();
    for (i, (_, m)) in subs.iter().enumerate() {
        m.woken_if_parked(i, "every state was dropped", &name)?;
    }
    for (i, (s, m)) in subs.iter_mut().enumerate() {
        let Some(s) = s.as_mut() else { continue };
        let mut ended = false;
        for _ in 0..10 {
            let w = m.waker.clone();
            let got = poll_with(s, &w);
            judge(i, &got, m, false, &name)?;
            match got {
                Got::End => {
                    ended = true;
                    break;
                }
                Got::Pending => break,
                _ => {}
            }
        }
        if !ended {
            return fail("stream-does-not-end-after-state-dropped", format!("subscriber {i} is still pending after every state was dropped"));
        }
    }
    for (_, m) in &subs {
        if m.lagged {
            stats.class("subscriber-lagged(>=2 sets between polls)");
        }
        if m.late {
            stats.class("subscribed-after-a-set");
        }
    }
    Ok(subs.iter().enumerate().map(|(i, (_, m))| (i as u8, m.seen.clone())).collect())
}

#[derive(Debug, Clone, Serialize, Deserialize)]
pub struct Case {
    pub ops: Vec<Op>,
}

fn nontrivial(ops: &[Op]) -> bool {
    // lag: two sets without a poll of an existing subscriber in between; or a Sub after a Set
    let mut seen_set = false;
    let mut subs = 0;
    let mut sets_run = 0;
    for op in ops {
        match op {
            Op::Set | Op::SetClone | Op::SetSame => {
                seen_set = true;
                sets_run += 1;
                if subs > 0 && sets_run >= 2 {
                    return true;
                }
            }
            Op::Sub => {
                subs += 1;
                if seen_set {
                    return true;
                }
            }
            Op::Poll(_) => sets_run = 0,
            _ => {}
        }
    }
    false
}

pub fn check_case(c: &Case, stats: &mut Stats) -> CaseResult {
    if nontrivial(&c.ops) {
        stats.nontrivial_hash(hash_of(&c.ops));
    }
    stats.sample(|| json!({"ops": c.ops.iter().map(|o| format!("{o:?}")).collect::<Vec<_>>().join(" ")}));
    let a = run_ops::<TokioRt>(&c.ops, Runtime::Tokio, true, stats)?;
    stats.eval();
    let b = run_ops::<SmolRt>(&c.ops, Runtime::Smol, true, stats)?;
    run_ops::<TokioRt>(&c.ops, Runtime::Tokio, false, stats)?;
    run_ops::<SmolRt>(&c.ops, Runtime::Smol, false, stats)?;
    if a == b {
        stats.class("tokio-and-smol-traces-identical");
    } else {
        stats.class("tokio-and-smol-traces-differ(allowed: skipping differs)");
    }
    Ok(())
}

// ---------------------------------------------------------------------------------------------
// one-shot

#[derive(Debug, Clone, Copy, Serialize, Deserialize)]
pub enum OnceCase {
    NotifyThenPoll,
    PollThenNotify,
    PollTwiceThenNotify,
    DropThenPoll,
    PollThenDrop,
}

const ONCE_CASES: [OnceCase; 5] = [OnceCase::NotifyThenPoll, OnceCase::PollThenNotify, OnceCase::PollTwiceThenNotify, OnceCase::DropThenPoll, OnceCase::PollThenDrop];

fn run_once<N: Notified>(c: OnceCase, rt: Runtime) -> CaseResult {
    let name = format!("{rt:?}").to_lowercase();
    let (once, mut s) = N::once();
    let mut once = Some(once);
    let mut got = Vec::new();
    let mut notified = false;
    let w: std::sync::Arc<WakeCount> = Default::default();
    let mut parked_at: Option<usize> = None;
    let prefix: &[u8] = match c {
        OnceCase::NotifyThenPoll => b"n",
        OnceCase::PollThenNotify => b"pn",
        OnceCase::PollTwiceThenNotify => b"ppn",
        OnceCase::DropThenPoll => b"d",
        OnceCase::PollThenDrop => b"pd",
    };
    for step in prefix {
        match step {
            b'n' | b'd' => {
                if *step == b'n' {
                    N::notify(once.take().unwrap(), 42);
                    notified = true;
                } else {
                    drop(once.take());
                }
                if parked_at == Some(w.count()) {
                    return Err(Fail::new("parked-subscriber-not-woken", format!("[{name}] {c:?}: the one-shot stream was polled (Pending), then the notifier {} but the stream's waker was not woken", if notified { "notified" } else { "was dropped" })));
                }
            }
            _ => {
                let g = poll_with(&mut s, &w);
                parked_at = Some(w.count());
                if g != Got::Pending {
                    return Err(Fail::new("once-early-result", format!("[{name}] {c:?}: poll before notify / drop gave {g:?}")));
                }
            }
        }
    }
    for _ in 0..3 {
        got.push(poll(&mut s));
    }
    let want = if notified { vec![Got::Item(42, Some(false)), Got::End, Got::End] } else { vec![Got::End, Got::End, Got::End] };
    if got != want {
        return Err(Fail::new("once-wrong-sequence", format!("[{name}] {c:?}: expected {want:?}, got {got:?}")));
    }
    Ok(())
}

// ---------------------------------------------------------------------------------------------

pub fn op_strategy() -> impl Strategy<Value = Op> {
    prop_oneof![
        4 => Just(Op::Set),
        1 => Just(Op::SetClone),
        2 => Just(Op::Sub),
        5 => (0u8..4).prop_map(Op::Poll),
        1 => (0u8..3).prop_map(Op::DropSub),
        1 => Just(Op::Clone),
        1 => Just(Op::DropOriginal),
        2 => Just(Op::SetSame),
    ]
}

fn enumerated() -> Vec<Vec<Op>> {
    let alphabet = [Op::Set, Op::SetSame, Op::Sub, Op::Poll(0), Op::Poll(1), Op::DropSub(0)];
    let mut out = vec![vec![]];
    let mut frontier = vec![vec![]];
    for _ in 0..7 {
        let mut next = Vec::new();
        for s in &frontier {
            for a in alphabet {
                let sets = s.iter().filter(|o| matches!(**o, Op::Set | Op::SetSame)).count();
                let subs = s.iter().filter(|o| **o == Op::Sub).count();
                match a {
                    Op::Set | Op::SetSame if sets >= 4 => continue,
                    Op::Sub if subs >= 2 => continue,
                    Op::Poll(i) if (i as usize) >= subs => continue,
                    // at most one unsubscription, of an existing subscriber, and something after it
                    Op::DropSub(_) if subs == 0 || s.contains(&Op::DropSub(0)) || s.len() >= 6 => continue,
                    _ => {}
                }
                let mut t: Vec<Op> = s.clone();
                t.push(a);
                next.push(t);
            }
        }
        out.extend(next.iter().cloned());
        frontier = next;
    }
    out
}

pub fn run(ctx: &Ctx) -> i32 {
    let (shards, cases) = ctx.tier.pick((16, 10000), (64, 30_000));
    let (mut stats, mut viol) = run_shards(
        ctx,
        "random",
        shards,
        cases,
        || prop::collection::vec(op_strategy(), 0..24).prop_map(|ops| Case { ops }),
        check_case,
    );
    let en = enumerated();
    let (s2, v2) = par_enumerate(ctx, "all-interleavings", en.len() as u64, |i, stats| {
        let c = Case { ops: en[i as usize].clone() };
        stats.eval();
        match check_case(&c, stats) {
            Ok(()) => vec![],
            Err(f) => vec![(f, serde_json::to_value(&c).unwrap())],
        }
    });
    stats.merge(s2);
    viol.extend(v2);
    for c in ONCE_CASES {
        for rt in [Runtime::Tokio, Runtime::Smol] {
            stats.evaluations += 1;
            stats.class("one-shot");
            let r = match rt {
                Runtime::Tokio => vcommon::drv::guarded(&c, &mut stats, &|c, _| run_once::<TokioRt>(*c, rt)),
                Runtime::Smol => vcommon::drv::guarded(&c, &mut stats, &|c, _| run_once::<SmolRt>(*c, rt)),
            };
            if let Err(f) = r {
                viol.push(vcommon::ev::Violation { sig: f.sig, lane: "one-shot".into(), case: json!({"case": c, "runtime": rt}), message: f.message });
            }
        }
    }
    crate::fuzzrun::golden("notified", &mut stats, &mut viol);
    if ctx.tier == vcommon::ev::Tier::Thorough {
        let seeds: Vec<Vec<u8>> = (0..32u8).map(|i| (0..(8 + i as usize * 7)).map(|k| (k as u8).wrapping_mul(29).wrapping_add(i.wrapping_mul(13))).collect()).collect();
        crate::fuzzrun::campaign(ctx, "notified", crate::fuzzrun::fuzz_secs(180), &seeds, &mut stats, &mut viol);
    }
    Report::new(RULE)
        .assume("streams are polled by hand with a no-op waker; a single Pending is taken as 'nothing available now' (both channel implementations return Pending only when their queue is empty)")
        .extra("enumerated_operation_lists", json!(en.len()))
        .finish(ctx, &stats, &viol, &[])
}

pub fn replay(lane: &str, case: serde_json::Value) -> CaseResult {
    if lane == "fuzz" {
        return crate::fuzzrun::replay(&case);
    }
    let mut stats = Stats::default();
    if lane == "one-shot" {
        let c: OnceCase = serde_json::from_value(case["case"].clone()).map_err(|e| Fail::new("bad-replay", e.to_string()))?;
        let rt: Runtime = serde_json::from_value(case["runtime"].clone()).map_err(|e| Fail::new("bad-replay", e.to_string()))?;
        return match rt {
            Runtime::Tokio => run_once::<TokioRt>(c, rt),
            Runtime::Smol => run_once::<SmolRt>(c, rt),
        };
    }
    let c: Case = serde_json::from_value(case).map_err(|e| Fail::new("bad-replay", e.to_string()))?;
    println!("ops: {:?}", c.ops);
    check_case(&c, &mut stats)
}
