//! C05, corpus lane: generated `ReplyError` enums (unit and struct variants, renamed fields, raw
//! identifiers, options, borrowed fields, lists, maps, nested structs; interface names with dashes
//! and digits) are compiled against /repo and exercised by the runner crate `corp05`; the
//! expectations (wire name, parameter names, JSON values) are computed here from the declaration.

use std::collections::{BTreeMap, BTreeSet};
use std::process::Command;

use serde_json::{json, Map, Value};
use vcommon::ev::{hash_of, truncate, Ctx, Stats, Violation};

use crate::c12::{build_corpus, restore_stub, target_dir, write_corpus, Rng};

struct FKind {
    ty: &'static str,
    /// needs the enum to carry the lifetime 'a
    lifetime: bool,
    optional: bool,
    /// (Rust expression, setup statements, JSON text; None = the option is None)
    vals: [(&'static str, Option<&'static str>); 2],
}

fn kinds() -> Vec<FKind> {
    let k = |ty, lifetime, optional, vals| FKind { ty, lifetime, optional, vals };
    vec![
        k("i64", false, false, [("-5i64", Some("-5")), ("9007199254740993i64", Some("9007199254740993"))]),
        k("u32", false, false, [("0u32", Some("0")), ("4294967295u32", Some("4294967295"))]),
        k("u64", false, false, [("7u64", Some("7")), ("18446744073709551615u64", Some("18446744073709551615"))]),
        k("bool", false, false, [("true", Some("true")), ("false", Some("false"))]),
        k("f64", false, false, [("1.5f64", Some("1.5")), ("-0.25f64", Some("-0.25"))]),
        k("String", false, false, [("String::from(\"plain\")", Some("\"plain\"")), ("String::from(\"q\\\"uote \\\\ \\u{e9}\\n\")", Some("\"q\\\"uote \\\\ \u{e9}\\n\""))]),
        k("&'a str", true, false, [("\"b1\"", Some("\"b1\"")), ("\"\\u{e9}\\u{4e16} x\"", Some("\"\u{e9}\u{4e16} x\""))]),
        k("Option<i64>", false, true, [("Some(3i64)", Some("3")), ("None", None)]),
        k("Option<String>", false, true, [("None", None), ("Some(String::from(\"x\"))", Some("\"x\""))]),
        k("Option<&'a str>", true, true, [("Some(\"y\")", Some("\"y\"")), ("None", None)]),
        k("Vec<String>", false, false, [("Vec::<String>::new()", Some("[]")), ("vec![String::from(\"a\"), String::from(\"b\")]", Some("[\"a\",\"b\"]"))]),
        k("Vec<i64>", false, false, [("vec![1i64, -2]", Some("[1,-2]")), ("Vec::<i64>::new()", Some("[]"))]),
        k("Inner", false, false, [("Inner { a: 1, b: String::from(\"i\") }", Some("{\"a\":1,\"b\":\"i\"}")), ("Inner { a: -1, b: String::new() }", Some("{\"a\":-1,\"b\":\"\"}"))]),
        k("Option<Inner>", false, true, [("None", None), ("Some(Inner { a: 2, b: String::from(\"j\") })", Some("{\"a\":2,\"b\":\"j\"}"))]),
        k("BTreeMap<String, i64>", false, false, [("BTreeMap::<String, i64>::new()", Some("{}")), ("BTreeMap::from([(String::from(\"k\"), 1i64)])", Some("{\"k\":1}"))]),
    ]
}

const VARIANTS: &[&str] = &["NotFound", "Bad", "Worse", "V2", "NotOK", "IOError", "A", "Quota", "PermissionDenied", "X9", "Unknown", "Failed"];
const FIELDS: &[&str] = &["code", "msg", "max_bytes", "user", "hint", "items", "r#type", "flag", "ratio", "inner", "the_key", "x", "r#in", "method", "error", "parameters", "_code", "kind_", "__x", "a__b", "r#_in", "x1"];
const RENAMES: &[&str] = &["maxBytes", "user-name", "Type", "k2", "UPPER", "with.dot", "parameters", "error"];

struct Field {
    ident: &'static str,
    rename: Option<&'static str>,
    kind: usize,
}

impl Field {
    fn wire(&self) -> &str {
        self.rename.unwrap_or(self.ident.strip_prefix("r#").unwrap_or(self.ident))
    }
}

struct Variant {
    name: &'static str,
    fields: Vec<Field>,
}

pub struct Module {
    idx: usize,
    src: String,
    enum_src: String,
    /// record key -> (what is checked, expectation)
    expect: BTreeMap<String, Expect>,
    interesting: bool,
}

enum Expect {
    /// the JSON document must equal one of these (None written as null / omitted)
    Json(Vec<Value>),
    /// decoding must succeed and give the value the text was written from
    Equal(String),
}

fn gen_module(idx: usize, rng: &mut Rng, ks: &[FKind]) -> Module {
    let iface = match rng.below(4) {
        0 => format!("org.gen.e{idx}"),
        1 => format!("com.example-corp.svc2.e{idx}"),
        2 => format!("a.b{idx}"),
        _ => format!("io.x-1.Deep.e{idx}"),
    };
    let mut used = BTreeSet::new();
    let mut variants = Vec::new();
    for _ in 0..rng.below(6) {
        let name = *rng.pick(VARIANTS);
        if !used.insert(name) {
            continue;
        }
        let mut fields = Vec::new();
        if rng.chance(65) {
            let mut fused = BTreeSet::new();
            let mut wires = BTreeSet::new();
            for _ in 0..1 + rng.below(4) {
                let ident = *rng.pick(FIELDS);
                let rename = if rng.chance(30) { Some(*rng.pick(RENAMES)) } else { None };
                let f = Field { ident, rename, kind: rng.below(ks.len()) };
                if !fused.insert(ident) || !wires.insert(f.wire().to_string()) {
                    continue;
                }
                fields.push(f);
            }
        }
        variants.push(Variant { name, fields });
    }
    let lifetime = variants.iter().any(|v| v.fields.iter().any(|f| ks[f.kind].lifetime));
    let ty = if lifetime { format!("E{idx}<'a>") } else { format!("E{idx}") };
    let ty_use = if lifetime { format!("E{idx}<'_>") } else { format!("E{idx}") };
    let mut enum_src = format!("#[derive(Debug, Clone, PartialEq, ReplyError)]\n#[zlink(interface = \"{iface}\", crate = \"zlink_core\")]\npub enum {ty} {{\n");
    for v in &variants {
        if v.fields.is_empty() {
            enum_src.push_str(&format!("    {},\n", v.name));
        } else {
            enum_src.push_str(&format!("    {} {{\n", v.name));
            for f in &v.fields {
                if let Some(r) = f.rename {
                    enum_src.push_str(&format!("        #[zlink(rename = \"{r}\")]\n"));
                }
                enum_src.push_str(&format!("        {}: {},\n", f.ident, ks[f.kind].ty));
            }
            enum_src.push_str("    },\n");
        }
    }
    enum_src.push_str("}\n");
    let mut src = format!("use crate::prelude::*;\n\n{enum_src}\npub fn run(out: &mut Vec<Record>) {{\n");
    let mut expect = BTreeMap::new();
    let mut interesting = false;
    for (vi, v) in variants.iter().enumerate() {
        let name = format!("{iface}.{}", v.name);
        for a in 0..2usize {
            let key = format!("t{idx}.v{vi}.a{a}");
            // the value
            let value = if v.fields.is_empty() {
                format!("E{idx}::{}", v.name)
            } else {
                let fs: Vec<String> = v.fields.iter().enumerate().map(|(fi, f)| format!("{}: {}", f.ident, ks[f.kind].vals[(a + fi) % 2].0)).collect();
                format!("E{idx}::{} {{ {} }}", v.name, fs.join(", "))
            };
            // expected documents: None omitted / None as null
            let mut with_null = Map::new();
            let mut without = Map::new();
            for (fi, f) in v.fields.iter().enumerate() {
                match ks[f.kind].vals[(a + fi) % 2].1 {
                    Some(j) => {
                        let j: Value = serde_json::from_str(j).expect("literal table");
                        with_null.insert(f.wire().to_string(), j.clone());
                        without.insert(f.wire().to_string(), j);
                    }
                    None => {
                        with_null.insert(f.wire().to_string(), Value::Null);
                    }
                }
            }
            let docs: Vec<Value> = if v.fields.is_empty() {
                vec![json!({ "error": name })]
            } else {
                vec![json!({"error": name, "parameters": with_null}), json!({"error": name, "parameters": without})]
            };
            if v.fields.iter().any(|f| f.rename.is_some() || f.ident.starts_with("r#") || ks[f.kind].optional || ks[f.kind].lifetime) {
                interesting = true;
            }
            // texts to decode from
            let mut texts: Vec<String> = Vec::new();
            let obj = |members: &[(String, String)]| format!("{{{}}}", members.iter().map(|(k, v)| format!("{}:{v}", serde_json::to_string(k).unwrap())).collect::<Vec<_>>().join(","));
            let params_text = |m: &Map<String, Value>, rev: bool, extra: bool| {
                let mut ms: Vec<(String, String)> = m.iter().map(|(k, v)| (k.clone(), v.to_string())).collect();
                if rev {
                    ms.reverse();
                }
                if extra {
                    ms.insert(ms.len() / 2, ("zz-not-declared".to_string(), "[1,{\"a\":null}]".to_string()));
                }
                obj(&ms)
            };
            let e = ("error".to_string(), serde_json::to_string(&name).unwrap());
            if v.fields.is_empty() {
                texts.push(obj(&[e.clone()]));
                texts.push(obj(&[e.clone(), ("parameters".into(), "null".into())]));
                texts.push(obj(&[("parameters".into(), "{}".into()), e.clone()]));
                texts.push(obj(&[e.clone(), ("x-extra".into(), "1".into())]));
            } else {
                for m in [&with_null, &without] {
                    texts.push(obj(&[e.clone(), ("parameters".into(), params_text(m, false, false))]));
                    texts.push(obj(&[("parameters".into(), params_text(m, true, false)), e.clone()]));
                }
                texts.push(obj(&[e.clone(), ("parameters".into(), params_text(&without, true, true))]));
                texts.push(obj(&[("x-extra".into(), "{\"error\":1}".into()), ("parameters".into(), params_text(&with_null, false, false)), e.clone()]));
            }
            src.push_str(&format!("    {{\n        let v: {ty_use} = {value};\n"));
            src.push_str(&format!("        out.push(enc(\"{key}.enc\", &v));\n        out.push(wire(\"{key}.wire\", &v));\n"));
            expect.insert(format!("{key}.enc"), Expect::Json(docs.clone()));
            expect.insert(format!("{key}.wire"), Expect::Json(docs.clone()));
            for (ti, t) in texts.iter().enumerate() {
                let lit = format!("r####\"{t}\"####");
                src.push_str(&format!("        out.push(dec!({ty_use}, \"{key}.d{ti}\", {lit}, &v));\n"));
                expect.insert(format!("{key}.d{ti}"), Expect::Equal(t.clone()));
                if ti % 2 == 0 {
                    src.push_str(&format!("        out.push(recv!({ty_use}, \"{key}.r{ti}\", {lit}, &v));\n"));
                    expect.insert(format!("{key}.r{ti}"), Expect::Equal(t.clone()));
                }
            }
            src.push_str("    }\n");
        }
    }
    src.push_str("}\n");
    Module { idx, src, enum_src, expect, interesting }
}

/// Generate, compile and run the corpus; judge the records. Returns `Err(2)` when the corpus cannot
/// be built for a reason that is not in a generated module (inconclusive).
pub fn run_corpus(ctx: &Ctx, stats: &mut Stats, viol: &mut Vec<Violation>) -> Result<(), i32> {
    let n = ctx.tier.pick(100usize, 400);
    let ks = kinds();
    let mut rng = Rng::new(ctx.subseed("c05-derive-corpus", 0));
    let modules: Vec<Module> = (0..n).map(|i| gen_module(i, &mut rng, &ks)).collect();
    let sources: BTreeMap<usize, String> = modules.iter().map(|m| (m.idx, m.src.clone())).collect();
    let mut skip = BTreeSet::new();
    let mut built = false;
    for _round in 0..6 {
        write_corpus("corp05", &sources, &skip);
        let b = build_corpus("corp05");
        if b.ok {
            built = true;
            break;
        }
        if b.errors.is_empty() {
            eprintln!("C05: the derive corpus failed to build for a reason that is not in a generated module:");
            for m in b.unmapped.iter().take(5) {
                eprintln!("  {m}");
            }
            restore_stub("corp05");
            return Err(2);
        }
        for (i, msg) in b.errors {
            skip.insert(i);
            stats.class("derive-corpus:enum-does-not-compile");
            let code = msg.split_whitespace().next().unwrap_or("").to_string();
            let words: Vec<String> = msg.chars().filter(|c| c.is_ascii_alphanumeric() || *c == ' ').collect::<String>().split_whitespace().skip(1).take(6).map(String::from).collect();
            viol.push(Violation {
                sig: format!("derive-does-not-compile:{code}:{}", words.join("-")),
                lane: "derive-corpus".into(),
                case: json!({"idx": i, "enum": modules[i].enum_src, "error": msg}),
                message: format!("the ReplyError derive accepted this enum but the expansion does not compile: {msg}\n{}", modules[i].enum_src),
            });
        }
    }
    if !built {
        restore_stub("corp05");
        return Err(2);
    }
    let out = Command::new(target_dir().join("release").join("corp05")).output();
    restore_stub("corp05");
    let Ok(out) = out else { return Err(2) };
    if !out.status.success() {
        viol.push(Violation {
            sig: "derive-corpus-run-crashed".into(),
            lane: "derive-corpus".into(),
            case: json!({"stderr": truncate(&String::from_utf8_lossy(&out.stderr), 2000)}),
            message: format!("the corpus binary exited with {:?}: {}", out.status.code(), truncate(&String::from_utf8_lossy(&out.stderr), 400)),
        });
    }
    let mut records: BTreeMap<String, Value> = BTreeMap::new();
    for line in String::from_utf8_lossy(&out.stdout).lines() {
        if let Ok(v) = serde_json::from_str::<Value>(line) {
            if let Some(k) = v["key"].as_str() {
                records.insert(k.to_string(), v["desc"].clone());
            }
        }
    }
    let mut by_sig: BTreeMap<String, usize> = BTreeMap::new();
    for m in &modules {
        if skip.contains(&m.idx) {
            continue;
        }
        stats.class("derive-corpus:enums-compiled");
        if m.interesting {
            stats.nontrivial_hash(hash_of(&m.enum_src));
        }
        if m.idx % 16 == 3 {
            stats.sample(|| json!({"lane": "derive-corpus", "enum": m.enum_src}));
        }
        for (key, want) in &m.expect {
            stats.eval();
            let got = records.get(key);
            let fail: Option<(String, String)> = match (want, got) {
                (_, None) => Some(("derive-corpus-record-missing".into(), format!("no record {key}"))),
                (Expect::Json(docs), Some(g)) => {
                    stats.class(if key.ends_with(".wire") { "derive-corpus:encoded-by-zlink" } else { "derive-corpus:encoded-by-serde_json" });
                    if g["ok"] == true && docs.iter().any(|d| *d == g["json"]) {
                        None
                    } else {
                        Some((
                            if key.ends_with(".wire") { "derived-error-encoding-on-the-wire".into() } else { "derived-error-encoding".into() },
                            format!("{key}: encoded as {}, the declaration denotes {}", g, docs[0]),
                        ))
                    }
                }
                (Expect::Equal(text), Some(g)) => {
                    let through = key.rsplit('.').next().is_some_and(|s| s.starts_with('r'));
                    stats.class(if through { "derive-corpus:received-through-a-connection" } else { "derive-corpus:decoded" });
                    if g["ok"] == true && g["eq"] == true {
                        None
                    } else {
                        Some((
                            if through { "derived-error-not-received-as-the-method-error".into() } else { "derived-error-decoding".into() },
                            format!("{key}: {text} gave {g} instead of the value it was written from"),
                        ))
                    }
                }
            };
            if let Some((sig, message)) = fail {
                let c = by_sig.entry(sig.clone()).or_insert(0);
                *c += 1;
                if *c <= 3 {
                    viol.push(Violation { sig, lane: "derive-corpus".into(), case: json!({"idx": m.idx, "enum": m.enum_src, "key": key}), message: format!("{message}\n{}", m.enum_src) });
                }
            }
        }
    }
    Ok(())
}
