//! C07 — receiving is cancel-safe: abandoning a receive loses or duplicates nothing.

use proptest::prelude::*;
use serde_json::json;
use vcommon::{
    drv::{par_enumerate, run_shards, CaseResult, Fail},
    ev::{hash_of, show_bytes, truncate, Ctx, Report, Stats},
    frames::{chunk_plan_strategy, frames_strategy, resolve_cuts, split_at_cuts, stream_of, B},
    rx::{RxCase, Target, ALL_TARGETS},
};

use crate::c01::domain_of;

pub const RULE: &str = "cases = C01's frame sequences and chunkings x a Pending schedule (0..3 \
Pending polls before each chunk) x a set of suspension points at which the pending receive future \
is dropped and a new one created; exhaustive lanes: every subset of the suspension points of small \
streams (<= 12 points) and 'cancel every k-th Pending poll' for every k. Oracle: the sequence of \
results equals the reference decode of each frame, then end-of-stream (the no-cancellation model). \
In the mixed-forms lane reply frames are received through a generated alternation of receive_reply \
and chain reply streams (1..3 calls, polled item by item), each abandoned after 0..2 Pending polls - \
the receive that follows an abandoned one need not be of the same kind. \
A further lane drives the abandonment the way zlink itself does it: C08-style server scenarios \
(several connections, calls split across chunks, a poll of Server::run() after every delivery), in \
which the server drops every pending receive_call future whenever another select branch wins; the \
service must see every call once, in order, intact (C08's sequential model). \
Non-trivial = at least one cancellation happened while the connection held a strict prefix of a \
frame (server lane: a call split across chunks with another connection's delivery in between); \
distinct by hash of (target, frames, cuts, pend, cancel) or of the scenario.";

fn case_strategy() -> impl Strategy<Value = RxCase> {
    case_strategy_sized(5, 4)
}

/// `max_steps`: how many 256-byte growth steps a frame may span (350 = frames up to ~90 KiB).
fn case_strategy_sized(max_frames: usize, max_steps: usize) -> impl Strategy<Value = RxCase> {
    (0usize..ALL_TARGETS.len())
        .prop_flat_map(move |ti| {
            let target = ALL_TARGETS[ti];
            (
                Just(target),
                frames_strategy(domain_of(target), max_frames, max_steps),
                chunk_plan_strategy(),
                prop::collection::vec(0u8..4, 1..5),
                prop::collection::vec(any::<u16>(), 0..10),
                prop::option::of(1usize..5),
            )
        })
        .prop_map(|(target, frames, plan, pend, cancel_raw, every_k)| {
            let stream = stream_of(&frames);
            let mut cuts = resolve_cuts(&plan, &stream);
            if stream.len() > 8 * 1024 && cuts.len() > 2048 {
                // byte-at-a-time over a long stream adds nothing the short lanes do not cover
                cuts = resolve_cuts(&vcommon::frames::ChunkPlan::Fixed(1 + cuts.len() % 2053), &stream);
            }
            let chunks = split_at_cuts(&stream, &cuts).len();
            let total_pending: usize = (0..chunks).map(|i| pend[i % pend.len()] as usize).sum();
            let mut cancel: Vec<usize> = match every_k {
                Some(k) => (1..=total_pending).filter(|n| n % k == 0).collect(),
                None => cancel_raw
                    .iter()
                    .map(|&r| 1 + ((r as usize * total_pending.max(1)) >> 16))
                    .collect(),
            };
            cancel.retain(|&n| n >= 1 && n <= total_pending);
            cancel.sort_unstable();
            cancel.dedup();
            RxCase {
                target,
                frames,
                cuts,
                // one case in four puts the halves together and takes them apart after every
                // abandoned receive (and before some receives)
                rejoin: if pend[0] == 3 { 1 + pend.len() as u8 % 3 } else { 0 },
                pend,
                cancel,
            }
        })
}

// ---------------------------------------------------------------------------------------------
// Mixed receive forms: the receive that follows an abandoned one need not be of the same kind.

/// Reply frames received through a generated alternation of `receive_reply` and chain reply
/// streams (`chain_call(..).append(..).send()` of 1..3 calls, polled item by item); every form is
/// abandoned (the future / the stream dropped) after `patience` Pending polls and the next step
/// carries on with whatever form comes next.
#[derive(Debug, Clone, serde::Serialize, serde::Deserialize)]
pub struct MixCase {
    pub frames: Vec<vcommon::frames::B>,
    pub cuts: Vec<usize>,
    pub pend: Vec<u8>,
    /// (form selector: 0 = receive_reply, 1..=3 = a chain of that many calls; patience)
    pub steps: Vec<(u8, u8)>,
}

fn mix_strategy() -> impl Strategy<Value = MixCase> {
    (
        vcommon::frames::frames_strategy(vcommon::frames::Domain::Replies, 6, 3),
        chunk_plan_strategy(),
        prop::collection::vec(0u8..4, 1..5),
        prop::collection::vec((0u8..4, 0u8..3), 1..8),
    )
        .prop_map(|(frames, plan, pend, steps)| {
            let cuts = resolve_cuts(&plan, &stream_of(&frames));
            MixCase { frames, cuts, pend, steps }
        })
}

pub fn check_mix(case: &MixCase, stats: &mut Stats) -> CaseResult {
    use vcommon::{
        exec::{poll_next_once, poll_once, run_until_ready},
        rx::{classify_reply, ref_reply, Outcome},
        sim::{ReadEv, SimSocket},
        types::{ErrA, MethodA, OptParams},
    };
    use zlink_core::{Call, Connection};
    let stream = stream_of(&case.frames);
    let chunks = split_at_cuts(&stream, &case.cuts);
    let mut script = Vec::new();
    for (i, c) in chunks.iter().enumerate() {
        for _ in 0..case.pend[i % case.pend.len()] {
            script.push(ReadEv::Pending);
        }
        script.push(ReadEv::Data(c.clone()));
    }
    script.push(ReadEv::Eof);
    let script_len = script.len();
    let (sock, handle) = SimSocket::with_script(script);
    let mut conn = Connection::new(sock);
    let call = Call::new(MethodA::Ping);
    let mut got: Vec<Outcome> = Vec::new();
    let mut frame_ends = Vec::new();
    let mut off = 0u64;
    for f in &case.frames {
        off += f.0.len() as u64 + 1;
        frame_ends.push(off);
    }
    let at_boundary = |h: &vcommon::sim::SimHandle| {
        let b = h.read.borrow().bytes;
        b == 0 || frame_ends.contains(&b)
    };
    let mut abandoned_mid_frame_then_other_form = false;
    let mut last_abandon: Option<(bool, bool)> = None; // (was a stream, mid frame)
    let mut done = false;
    let max_steps = 40 + 3 * script_len;
    let mut step = 0;
    while !done && step < max_steps {
        let (form, patience) = case.steps[step % case.steps.len()];
        step += 1;
        let is_stream = form % 4 != 0;
        if let Some((was_stream, mid)) = last_abandon.take() {
            if mid && was_stream != is_stream {
                abandoned_mid_frame_then_other_form = true;
            }
        }
        if !is_stream {
            let fut = conn.receive_reply::<OptParams, ErrA>();
            let mut fut = std::pin::pin!(fut);
            let mut ready = None;
            for _ in 0..=patience {
                if let std::task::Poll::Ready(r) = poll_once(fut.as_mut()) {
                    ready = Some(classify_reply(r));
                    break;
                }
            }
            match ready {
                Some(o) => {
                    done = o == Outcome::Eof;
                    got.push(o);
                }
                None => last_abandon = Some((false, !at_boundary(&handle))),
            }
        } else {
            let n = (form % 4) as usize;
            let mut chain = match conn.chain_call::<MethodA<'_>, OptParams, ErrA>(&call) {
                Ok(c) => c,
                Err(e) => return Err(Fail::new("harness", format!("chain_call: {e:?}"))),
            };
            for _ in 1..n {
                chain = match chain.append(&call) {
                    Ok(c) => c,
                    Err(e) => return Err(Fail::new("harness", format!("append: {e:?}"))),
                };
            }
            let s = match run_until_ready(chain.send(), 8) {
                Some(Ok(s)) => s,
                other => return Err(Fail::new("harness", format!("send: {:?}", other.map(|r| r.map(|_| ()))))),
            };
            let mut s = std::pin::pin!(s);
            let mut pendings = 0u8;
            loop {
                match poll_next_once(s.as_mut()) {
                    std::task::Poll::Ready(Some(item)) => {
                        let o = classify_reply(item);
                        let stop = matches!(o, Outcome::Eof);
                        got.push(o);
                        if stop {
                            done = true;
                            break;
                        }
                    }
                    std::task::Poll::Ready(None) => break,
                    std::task::Poll::Pending => {
                        pendings += 1;
                        if pendings > patience {
                            last_abandon = Some((true, !at_boundary(&handle)));
                            break;
                        }
                    }
                }
            }
        }
    }
    stats.class("lane:mixed-receive-forms");
    if abandoned_mid_frame_then_other_form {
        stats.class("mixed-forms:abandoned-mid-frame-then-resumed-in-the-other-form");
        stats.nontrivial_hash(hash_of(&("mix", &case.frames, &case.cuts, &case.pend, &case.steps)));
    }
    let mut want: Vec<Outcome> = Vec::new();
    for f in &case.frames {
        match ref_reply::<OptParams, ErrA>(&f.0) {
            vcommon::rx::Expect::Exactly(o) => want.push(o),
            e @ (vcommon::rx::Expect::DecodeErrOr(_) | vcommon::rx::Expect::NonObjectReply(_)) => {
                // several outcomes are admitted for non-object documents: take what was observed
                // if it is one of them
                let seen = got.get(want.len()).cloned();
                want.push(match seen {
                    Some(s) if e.admits(&s) => s,
                    _ => Outcome::DecodeErr,
                });
            }
        }
    }
    want.push(Outcome::Eof);
    if got != want {
        let d = got.iter().zip(&want).position(|(a, b)| a != b).unwrap_or(got.len().min(want.len()));
        return Err(Fail::new(
            "rx-mixed-forms",
            format!(
                "{} frames received through {} steps of receive_reply / chain reply streams with abandonment: {} results (expected {}); first difference at result {d}: got {:?}, expected {:?}",
                case.frames.len(),
                step,
                got.len(),
                want.len(),
                got.get(d),
                want.get(d)
            ),
        ));
    }
    Ok(())
}

fn check_case(case: &RxCase, stats: &mut Stats) -> CaseResult {
    let run = case.run();
    if run.cancellations > 0 {
        stats.class("with-cancellation");
    }
    if run.cancelled_mid_frame {
        stats.class("cancelled-mid-frame");
        stats.nontrivial_hash(hash_of(&(
            case.target,
            &case.frames,
            &case.cuts,
            &case.pend,
            &case.cancel,
        )));
    }
    if run.rejoins > 0 {
        stats.class("halves-joined-and-split-between-receives");
        if run.cancelled_mid_frame {
            stats.class("joined-and-split-while-holding-a-partial-frame");
        }
    }
    if run.cancellations >= 3 {
        stats.class("cancellations>=3");
    }
    if case.stream().len() > 256 {
        stats.class("stream>256B");
    }
    stats.sample(|| sample_of(case, run.cancellations));
    case.judge(&run)
}

fn sample_of(case: &RxCase, cancellations: usize) -> serde_json::Value {
    json!({
        "target": format!("{:?}", case.target),
        "stream": truncate(&show_bytes(&case.stream()), 200),
        "cuts": if case.cuts.len() > 12 { json!(format!("{} cuts", case.cuts.len())) } else { json!(case.cuts) },
        "pend": case.pend,
        "cancel_after_pending_poll": case.cancel,
        "cancellations_performed": cancellations,
    })
}

/// Small streams for the exhaustive lanes: (target, frames, cuts).
fn small_streams() -> Vec<(Target, Vec<B>, Vec<usize>)> {
    let b = |s: &str| B(s.as_bytes().to_vec());
    let ping = "{\"method\":\"org.example.Ping\"}";
    let mut v = Vec::new();
    let sets: Vec<(Target, Vec<B>)> = vec![
        (Target::ReplyOpt, vec![b("{}"), b("{\"continues\":true}"), b("{}")]),
        (Target::ReplyOpt, vec![b("{"), b("{}"), b("{} ")]),
        (Target::ReplyValue, vec![b("{\"parameters\":[1,2]}"), b("x"), b("{}")]),
        (Target::ReplyBorrowed, vec![b("{\"parameters\":{\"name\":\"abc\",\"n\":1}}"), b("{\"error\":\"org.example.Worse\",\"parameters\":{\"code\":1,\"msg\":\"m\"}}")]),
        (Target::CallEnum, vec![b(ping), b("{\"method\":\"org.example.Echo\",\"parameters\":{\"s\":\"xyz\",\"n\":2}}"), b(ping)]),
        (Target::CallStrict, vec![b(ping), b("[]"), b(ping)]),
    ];
    for (t, frames) in sets {
        let len = stream_of(&frames).len();
        // chunkings with <= 6 chunks: cuts in thirds, at NULs, mid-frame, and a five-cut spread
        let nul_cuts: Vec<usize> = {
            let s = stream_of(&frames);
            s.iter().enumerate().filter(|(_, &c)| c == 0).map(|(i, _)| i + 1).filter(|&c| c < len).collect()
        };
        let mid_cuts: Vec<usize> = nul_cuts.iter().map(|c| c - 2).chain(std::iter::once(len - 1)).collect();
        let spread: Vec<usize> = (1..=5).map(|k| k * len / 6).filter(|&c| c >= 1 && c < len).collect();
        for cuts in [vec![len / 3, 2 * len / 3], nul_cuts, mid_cuts, spread, vec![1, 2, 3]] {
            let mut cuts = cuts;
            cuts.sort_unstable();
            cuts.dedup();
            v.push((t, frames.clone(), cuts));
        }
    }
    v
}

pub fn run(ctx: &Ctx) -> i32 {
    let (shards, cases) = ctx.tier.pick((16, 10000), (64, 40_000));
    let (mut stats, mut viol) = run_shards(ctx, "random", shards, cases, case_strategy, check_case);

    // Exhaustive: every subset of suspension points (2 Pending polls before each chunk).
    let smalls = small_streams();
    let mut work: Vec<(usize, u32)> = Vec::new();
    for (i, (_, frames, cuts)) in smalls.iter().enumerate() {
        let chunks = split_at_cuts(&stream_of(frames), cuts).len();
        let points = (chunks * 2).min(12);
        for mask in 0u32..(1 << points) {
            work.push((i, mask));
        }
    }
    let (s2, v2) = par_enumerate(ctx, "exhaustive-subsets", work.len() as u64, |i, stats| {
        let (si, mask) = work[i as usize];
        let (target, frames, cuts) = &smalls[si];
        let cancel: Vec<usize> = (0..12).filter(|b| mask & (1 << b) != 0).map(|b| b + 1).collect();
        let case = RxCase {
            target: *target,
            frames: frames.clone(),
            cuts: cuts.clone(),
            pend: vec![2],
            cancel,
            rejoin: (i % 3 == 2) as u8,
        };
        stats.eval();
        stats.class("exhaustive-subset-case");
        match check_case(&case, stats) {
            Ok(()) => vec![],
            Err(f) => vec![(f, serde_json::to_value(&case).unwrap())],
        }
    });
    stats.merge(s2);
    viol.extend(v2);

    // Exhaustive: cancel every k-th Pending poll for every k, byte-at-a-time, 3 Pending per byte.
    let mut work: Vec<(usize, usize)> = Vec::new();
    for (i, (_, frames, _)) in smalls.iter().enumerate().step_by(5) {
        let total = stream_of(frames).len() * 3;
        for k in 1..=total {
            work.push((i, k));
        }
    }
    let (s3, v3) = par_enumerate(ctx, "every-kth", work.len() as u64, |i, stats| {
        let (si, k) = work[i as usize];
        let (target, frames, _) = &smalls[si];
        let len = stream_of(frames).len();
        let total = len * 3;
        let case = RxCase {
            target: *target,
            frames: frames.clone(),
            cuts: (1..len).collect(),
            pend: vec![3],
            cancel: (1..=total).filter(|n| n % k == 0).collect(),
            rejoin: (i % 2) as u8,
        };
        stats.eval();
        stats.class("every-kth-case");
        match check_case(&case, stats) {
            Ok(()) => vec![],
            Err(f) => vec![(f, serde_json::to_value(&case).unwrap())],
        }
    });
    stats.merge(s3);
    viol.extend(v3);

    // Long frames (4..90 KiB, hundreds of growth steps) abandoned while thousands of their bytes are
    // already buffered: whatever the connection does with a large or idle-looking buffer between two
    // receives, a partly received frame must survive it.
    let (s7, v7) = run_shards(ctx, "large-frames", shards, cases / 20, || case_strategy_sized(4, 350), |c, stats| {
        stats.class("lane:large-frames");
        if stream_of(&c.frames).len() > 16 * 1024 {
            stats.class("large-frames:stream>16KiB");
        }
        check_case(c, stats)
    });
    stats.merge(s7);
    viol.extend(v7);

    let (s6, v6) = run_shards(ctx, "mixed-forms", shards, cases / 2, mix_strategy, |c, stats| {
        stats.sample(|| json!({"lane": "mixed-forms", "stream": truncate(&show_bytes(&stream_of(&c.frames)), 160), "cuts": c.cuts, "pend": c.pend, "steps": c.steps}));
        check_mix(c, stats)
    });
    stats.merge(s6);
    viol.extend(v6);

    // The server's main loop is the one place in zlink that abandons receives systematically: all
    // pending receive_call futures are dropped whenever another select branch wins. Run C08-style
    // scenarios (calls split across chunks, deliveries of several connections interleaved, a poll
    // after most events) and demand that the service sees every call once, in order, intact.
    let (s4, v4) = run_shards(
        ctx,
        "through-server",
        shards,
        cases / 2,
        || {
            use proptest::prelude::*;
            vcommon::srvgen::scenario_strategy(crate::c08::FEATURES).prop_map(|mut sc| {
                // poll after every delivery so that receives are abandoned with partial frames buffered
                let mut steps = Vec::with_capacity(sc.steps.len() * 2);
                for st in sc.steps.drain(..) {
                    let is_poll = matches!(st, vcommon::srv::Step::Poll);
                    steps.push(st);
                    if !is_poll {
                        steps.push(vcommon::srv::Step::Poll);
                    }
                }
                sc.steps = steps;
                sc
            })
        },
        |sc, stats| {
            stats.class("lane:through-server");
            let mut scratch = Stats::default();
            let nontrivial = crate::c08::classify(sc, &mut scratch);
            let split = scratch.classes.get("call-split-across-chunks").copied().unwrap_or(0) > 0;
            let inter = scratch.classes.get("interleaved-deliveries").copied().unwrap_or(0) > 0;
            let _ = nontrivial;
            if split && inter {
                stats.class("through-server:receive-abandoned-mid-frame");
                stats.nontrivial_hash(hash_of(&("srv", sc)));
            }
            let trace = vcommon::srv::run_scenario(sc);
            vcommon::srv::judge_trace(sc, &trace)
        },
    );
    stats.merge(s4);
    viol.extend(v4);

    Report::new(RULE)
        .assume("the transport's read future is itself cancel safe (the trait requires it; the simulated one consumes a script entry only in the poll that reports it)")
        .assume("reference = C01's per-frame reference decode")
        .extra("exhaustive_small_streams", json!(smalls.len()))
        .finish(ctx, &stats, &viol, &[])
}

pub fn replay(lane: &str, case: serde_json::Value) -> CaseResult {
    if lane == "through-server" {
        return crate::c08::replay(lane, case);
    }
    if lane == "mixed-forms" {
        let c: MixCase = serde_json::from_value(case).map_err(|e| Fail::new("bad-replay", e.to_string()))?;
        println!("stream: {}\ncuts {:?} pend {:?} steps {:?}", truncate(&show_bytes(&stream_of(&c.frames)), 600), c.cuts, c.pend, c.steps);
        return check_mix(&c, &mut Stats::default());
    }
    let case: RxCase = serde_json::from_value(case).map_err(|e| Fail::new("bad-replay", e.to_string()))?;
    let run = case.run();
    println!("stream: {}", truncate(&show_bytes(&case.stream()), 600));
    println!("cuts: {:?} pend: {:?} cancel: {:?}", case.cuts, case.pend, case.cancel);
    for (i, o) in run.outcomes.iter().enumerate() {
        println!("  result {i}: {o:?}");
    }
    for (i, e) in case.expected().iter().enumerate() {
        println!("  expect {i}: {e:?}");
    }
    case.judge(&run)
}
