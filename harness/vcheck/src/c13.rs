//! C13 — the IDL parser accepts exactly the Varlink grammar and builds the denoted tree.

use proptest::prelude::*;
use serde::{Deserialize, Serialize};
use serde_json::json;
use vcommon::{
    drv::{par_enumerate, run_shards, CaseResult, Fail},
    ev::{hash_of, truncate, Ctx, Report, Stats},
    idl::*,
};
use zlink_core::idl::Interface;

pub const RULE: &str = "lanes: (valid) interfaces from a grammar-driven generator (0..6 members, type \
depth 0..4 over every constructor incl. the empty inline struct, names from every legal character \
class incl. keywords as field names, comments on their own lines before the interface, members, \
direct fields / parameters / variants) rendered with a random legal layout (spaces, tabs, LF or \
CRLF line breaks around every token where the grammar has optional white space): the parser must \
accept and the description read back through the public accessors must deep-equal the generating \
tree (names, types, per-kind order, comments); (mutants) 1..2 token- or byte-level mutations of \
such texts; (truncations) every prefix of generated texts; (soup) strings over an IDL-flavoured \
alphabet and arbitrary characters. For every text an independent recogniser gives a three-valued \
verdict: valid (then the tree must match), definitely invalid (then the parser must reject), or \
unsure (only the lenient reading accepts it: wider name classes, comments in unlisted positions, \
members sharing a line - nothing demanded). For every accepted text the token sequence of the text \
(comments removed, members regrouped per kind) must equal the token sequence of the parsed \
description (nothing ignored); a panic is a violation. Non-trivial: valid with depth >= 2 or a \
comment; or a mutant / prefix that differs from a valid text by one token or byte; distinct by hash \
of the text.";

pub const CFG: GenCfg = GenCfg { max_members: 6, max_depth: 4, comments: true, inline_comments: false, empty_inline_struct: true };

fn sig_of(msg: &str) -> String {
    let m = msg.split(" at byte").next().unwrap_or(msg);
    m.chars().map(|c| if c.is_ascii_alphanumeric() { c } else { '-' }).collect::<String>().trim_matches('-').to_string()
}

pub fn check_text(text: &str, expect_tree: Option<&Iface>, stats: &mut Stats) -> CaseResult {
    let verdict = recognise(text);
    if let Some(t) = expect_tree {
        // self-check of the harness: generator, renderer and recogniser must agree
        match &verdict {
            Verdict::Valid(v) if v == t => {}
            other => {
                return Err(Fail::new(
                    "harness-recogniser-disagrees-with-generator",
                    format!("text {:?}: recogniser says {:?}", truncate(text, 300), other),
                ))
            }
        }
    }
    let parsed = Interface::try_from(text);
    match (&verdict, &parsed) {
        (Verdict::Valid(tree), Ok(p)) => {
            stats.class("verdict:valid");
            let got = iface_of(p);
            let want = tree.grouped();
            if let Some(d) = first_diff(&got, &want) {
                let sig = if d.contains("comments") || (strip_all_comments(&got) == strip_all_comments(&want)) { "parsed-comments-differ" } else { "parsed-tree-differs" };
                return Err(Fail::new(sig, format!("text {:?}: parsed vs denoted: {d}", truncate(text, 300))));
            }
        }
        (Verdict::Valid(_), Err(e)) => {
            stats.class("verdict:valid");
            return Err(Fail::new("valid-text-rejected", format!("text {:?} rejected: {e}", truncate(text, 300))));
        }
        (Verdict::Invalid(why), Ok(_)) => {
            stats.class("verdict:invalid");
            return Err(Fail::new(
                &format!("invalid-text-accepted:{}", sig_of(why)),
                format!("text {:?} was accepted although: {why}", truncate(text, 300)),
            ));
        }
        (Verdict::Invalid(_), Err(_)) => stats.class("verdict:invalid"),
        (Verdict::Unsure, Ok(_)) => stats.class("verdict:unsure(accepted)"),
        (Verdict::Unsure, Err(_)) => stats.class("verdict:unsure(rejected)"),
    }
    if let Ok(p) = &parsed {
        // (white space at the ends of the text, of any Unicode kind, is not a token: carve-out)
        let from_text = grouped_tokens(text.trim());
        let from_tree = tokens_of(&iface_of(p));
        // carve-out: a carriage return without a line feed may end a comment line (zlink's reading)
        // or belong to the comment; the tokens are compared under whichever reading fits
        let some_reading_fits = || vcommon::idl::lone_cr_readings(text).iter().skip(1).any(|alt| grouped_tokens(alt.trim()) == from_tree);
        if from_text != from_tree && !vcommon::idl::too_many_lone_crs(text) && !some_reading_fits() {
            let k = from_text.iter().zip(&from_tree).position(|(a, b)| a != b).unwrap_or(from_text.len().min(from_tree.len()));
            return Err(Fail::new(
                "accepted-while-ignoring-part-of-the-text",
                format!(
                    "text {:?}: token {k} of the text is {:?}, of the parsed description {:?} ({} vs {} tokens)",
                    truncate(text, 300),
                    from_text.get(k),
                    from_tree.get(k),
                    from_text.len(),
                    from_tree.len()
                ),
            ));
        }
    }
    Ok(())
}

fn strip_all_comments(i: &Iface) -> Vec<Tok> {
    tokens_of(i)
}

#[derive(Debug, Clone, Serialize, Deserialize)]
pub struct ValidCase {
    pub iface: Iface,
    pub layout: Layout,
}

#[derive(Debug, Clone, Serialize, Deserialize)]
pub struct MutantCase {
    pub iface: Iface,
    pub layout: Layout,
    pub mutations: Vec<Mutation>,
}

impl MutantCase {
    pub fn text(&self) -> Option<String> {
        let mut t = render(&self.iface, &self.layout);
        for m in &self.mutations {
            t = mutate(&t, m)?;
        }
        Some(t)
    }
}

fn check_valid(c: &ValidCase, stats: &mut Stats) -> CaseResult {
    let text = render(&c.iface, &c.layout);
    let d = c.iface.depth();
    if d >= 2 {
        stats.class("valid:depth>=2");
    }
    if d >= 3 {
        stats.class("valid:depth>=3");
    }
    if c.iface.has_comment_below_interface() {
        stats.class("valid:comment-below-interface-level");
    }
    if text.contains("\r\n") {
        stats.class("valid:crlf-layout");
    }
    if d >= 2 || c.iface.has_comment_below_interface() || !c.iface.comments.is_empty() {
        stats.nontrivial_hash(hash_of(&text));
    }
    stats.sample(|| json!({"lane": "valid", "text": truncate(&text, 400)}));
    check_text(&text, Some(&c.iface), stats)
}

fn check_mutant(c: &MutantCase, stats: &mut Stats) -> CaseResult {
    let Some(text) = c.text() else { return Ok(()) };
    stats.nontrivial_hash(hash_of(&text));
    stats.sample(|| json!({"lane": "mutants", "text": truncate(&text, 300), "mutations": format!("{:?}", c.mutations)}));
    check_text(&text, None, stats)
}

fn soup_strategy() -> impl Strategy<Value = String> {
    let piece = prop_oneof![
        6 => prop::sample::select(vec![
            "interface ", "type ", "method ", "error ", "(", ")", ":", ",", " -> ", "?", "[]", "[string]", "int", "string", "bool", "float", "object",
            "\n", " ", "# c\n", "org.example.a", "Foo", "Bar", "a", "b_c", ".", "-", "_", "()", "->", "#",
        ]).prop_map(String::from),
        1 => "[ -~]{1,3}",
        1 => any::<char>().prop_map(|c| c.to_string()),
    ];
    prop::collection::vec(piece, 0..24).prop_map(|v| v.concat())
}

pub fn run(ctx: &Ctx) -> i32 {
    let (shards, cases) = ctx.tier.pick((16, 2800), (64, 12_000));
    let (mut stats, mut viol) = run_shards(
        ctx,
        "valid",
        shards,
        cases,
        || (iface_strategy(CFG), layout_strategy()).prop_map(|(iface, layout)| ValidCase { iface, layout }),
        check_valid,
    );
    let (s2, v2) = run_shards(
        ctx,
        "mutants",
        shards,
        cases * 3,
        || {
            (iface_strategy(GenCfg { max_members: 3, max_depth: 2, ..CFG }), layout_strategy(), prop::collection::vec(mutation_strategy(), 1..=2))
                .prop_map(|(iface, layout, mutations)| MutantCase { iface, layout, mutations })
        },
        check_mutant,
    );
    stats.merge(s2);
    viol.extend(v2);
    let (s3, v3) = run_shards(ctx, "soup", shards, cases * 2, soup_strategy, |text, stats| {
        stats.sample(|| json!({"lane": "soup", "text": truncate(text, 200)}));
        check_text(text, None, stats)
    });
    stats.merge(s3);
    viol.extend(v3);
    // truncations: every prefix of texts generated from a fixed sub-seed
    let n_texts = ctx.tier.pick(150usize, 3000);
    let texts: Vec<String> = {
        use proptest::strategy::ValueTree;
        use proptest::test_runner::{Config, RngSeed, TestRunner};
        let mut runner = TestRunner::new(Config { rng_seed: RngSeed::Fixed(ctx.subseed("truncation-texts", 0)), failure_persistence: None, ..Config::default() });
        let strat = (iface_strategy(GenCfg { max_members: 4, max_depth: 3, ..CFG }), layout_strategy());
        (0..n_texts).map(|_| { let (i, l) = strat.new_tree(&mut runner).unwrap().current(); render(&i, &l) }).collect()
    };
    let mut work: Vec<(usize, usize)> = Vec::new();
    for (ti, t) in texts.iter().enumerate() {
        for p in 0..t.len() {
            if t.is_char_boundary(p) {
                work.push((ti, p));
            }
        }
    }
    let (s4, v4) = par_enumerate(ctx, "truncations", work.len() as u64, |i, stats| {
        let (ti, p) = work[i as usize];
        let text = &texts[ti][..p];
        stats.eval();
        stats.class("prefix");
        stats.nontrivial_hash(hash_of(text));
        match check_text(text, None, stats) {
            Ok(()) => vec![],
            Err(f) => vec![(f, json!({"text": text}))],
        }
    });
    stats.merge(s4);
    viol.extend(v4);
    crate::fuzzrun::golden("idl_parse", &mut stats, &mut viol);
    if ctx.tier == vcommon::ev::Tier::Thorough {
        let seeds: Vec<Vec<u8>> = texts.iter().take(200).map(|t| t.as_bytes().to_vec()).collect();
        crate::fuzzrun::campaign(ctx, "idl_parse", crate::fuzzrun::fuzz_secs(300), &seeds, &mut stats, &mut viol);
    }
    Report::new(RULE)
        .assume("the independent recogniser encodes the Varlink grammar as read by the harness author (interface name, upper-case member names, field names, types, one optional level, own-line comments in the listed positions, members on separate lines); texts only its lenient reading accepts are not judged")
        .assume("termination: a parser that loops would hang the check, which is reported by the caller's time limit as inconclusive")
        .extra("truncation_texts", json!(n_texts))
        .finish(ctx, &stats, &viol, &[])
}

pub fn replay(lane: &str, case: serde_json::Value) -> CaseResult {
    if lane == "fuzz" {
        return crate::fuzzrun::replay(&case);
    }
    let mut stats = Stats::default();
    let bad = |e: serde_json::Error| Fail::new("bad-replay", e.to_string());
    let (text, tree): (String, Option<Iface>) = match lane {
        "valid" => {
            let c: ValidCase = serde_json::from_value(case).map_err(bad)?;
            (render(&c.iface, &c.layout), Some(c.iface))
        }
        "mutants" => {
            let c: MutantCase = serde_json::from_value(case).map_err(bad)?;
            (c.text().unwrap_or_default(), None)
        }
        "soup" => (case.as_str().unwrap_or("").to_string(), None),
        _ => (case["text"].as_str().unwrap_or("").to_string(), None),
    };
    println!("text: {text:?}");
    println!("recogniser: {:?}", recognise(&text));
    println!("zlink: {:?}", Interface::try_from(text.as_str()).map(|i| i.to_string()));
    check_text(&text, tree.as_ref(), &mut stats)
}
