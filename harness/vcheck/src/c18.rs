//! C18 — round-robin service: a flooding client cannot starve the others.

use proptest::prelude::*;
use serde_json::json;
use vcommon::{
    drv::{par_enumerate, run_shards, CaseResult, Fail},
    ev::{hash_of, Ctx, Report, Stats},
    srv::*,
};

use crate::c08::sample_of;

pub const RULE: &str = "case = 2..5 connections with roles flooder (bursts of 3..8 complete calls \
per delivery; none, all or every other of them flagged oneway), single (one call per delivery, or each call delivered in two pieces with other events in between), idle (open, silent) and - in the transition lane - \
closer (calls, then EOF) and streamer (Echo, Sub, Echo with stream events), in any list position, \
plus a global step list (arrivals, deliveries, polls; polls are rarer than deliveries so that \
several connections have calls waiting when the server runs). Every delivery ends at a frame \
boundary or inside a connection's only outstanding call, so 'a complete call is waiting' is unambiguous. Oracle = monitor over the global service \
order recorded by the scripted service: (strict lane: no closures, no streams) within one run of \
the server to quiescence, between two consecutive services of connection a every other connection \
that had a call waiting since before the first of them and still has one after the second is \
served at least once; (transition lane) the number of foreign calls served between the moment a \
call became eligible (delivered and its connection back in call-reading mode) and its service is at \
most connections x (transitions + 1). The replies are also compared with the C08 model. An \
exhaustive lane puts one flooder and one single caller at every pair of positions among 2..5 \
connections, the rest idle. Non-trivial = a flooder with >= 3 buffered calls while another \
connection's single call waits; distinct by hash of the scenario.";

#[derive(Debug, Clone, Copy, PartialEq, Eq)]
enum Role {
    Flooder,
    Single,
    Idle,
    Closer,
    Streamer,
}

fn call(kind: CallKind, id: u32) -> FrameSpec {
    call_ow(kind, id, false)
}

fn call_ow(kind: CallKind, id: u32, oneway: bool) -> FrameSpec {
    FrameSpec::Call { kind, id, oneway: oneway && kind != CallKind::Sub, more: kind == CallKind::Sub, pad: (id % 3) as u16, flags_first: oneway && id % 2 == 0 }
}

/// Which calls of a script are flagged oneway (they are served like any other call, they just get
/// no reply): bits 6..7 of the first size byte select none / all / every other / none.
fn oneway_of(sizes: &[u8], id: u32) -> bool {
    match sizes.first().copied().unwrap_or(0) / 64 {
        1 => true,
        2 => id % 2 == 0,
        _ => false,
    }
}

/// Build a connection script for a role. `sizes`: burst sizes (flooder) / number of calls.
fn script(c: usize, role: Role, sizes: &[u8]) -> ConnScript {
    let mut frames = Vec::new();
    let mut burst_ends = Vec::new(); // frame counts after which a delivery ends
    let kinds = [CallKind::Echo, CallKind::Noop, CallKind::Fail];
    match role {
        Role::Idle => {}
        Role::Flooder => {
            for &s in sizes.iter().take(3) {
                for _ in 0..(3 + s % 6) {
                    let id = frames.len() as u32;
                    frames.push(call_ow(kinds[id as usize % 3], id, oneway_of(sizes, id)));
                }
                burst_ends.push(frames.len());
            }
        }
        Role::Single | Role::Closer => {
            for _ in 0..(1 + sizes.first().copied().unwrap_or(0) % 3) {
                let id = frames.len() as u32;
                frames.push(call_ow(kinds[(id as usize + c) % 3], id, oneway_of(sizes, id)));
                burst_ends.push(frames.len());
            }
        }
        Role::Streamer => {
            frames.push(call(CallKind::Echo, 0));
            frames.push(call(CallKind::Sub, 1));
            frames.push(call(CallKind::Echo, 2));
            if sizes.first().copied().unwrap_or(0) % 2 == 0 {
                burst_ends.push(3);
            } else {
                burst_ends.extend([1, 2, 3]);
            }
        }
    }
    let mut s = ConnScript {
        frames,
        cuts: vec![],
        end: if role == Role::Closer { ConnEnd::Eof } else { ConnEnd::Open },
        truncate_last: false,
        write_fail_from: None,
    };
    let ends = s.frame_ends(c);
    let total = s.stream(c).len();
    s.cuts = burst_ends.iter().map(|&k| ends[k - 1]).filter(|&e| e < total).collect();
    // a single caller may deliver each call in two pieces (second size byte odd): the call is complete,
    // hence waiting, once its second piece has been delivered
    if matches!(role, Role::Single | Role::Closer) && sizes.get(1).copied().unwrap_or(0) % 2 == 1 {
        let mut start = 0;
        let mut cuts = Vec::new();
        for &e in &ends {
            cuts.push(start + (e - start) / 2);
            if e < total {
                cuts.push(e);
            }
            start = e;
        }
        s.cuts = cuts;
    }
    s
}

fn roles_strategy(transitions: bool) -> impl Strategy<Value = Vec<(u8, Vec<u8>)>> {
    prop::collection::vec((0u8..if transitions { 10 } else { 6 }, prop::collection::vec(any::<u8>(), 1..4)), 2..=5)
}

fn role_of(sel: u8) -> Role {
    match sel {
        0 | 1 => Role::Flooder,
        2 | 3 => Role::Single,
        4 | 5 => Role::Idle,
        6 | 7 => Role::Closer,
        _ => Role::Streamer,
    }
}

pub fn scenario_strategy(transitions: bool) -> impl Strategy<Value = Scenario> {
    (roles_strategy(transitions), prop::collection::vec((any::<u8>(), any::<u8>()), 0..40)).prop_map(move |(roles, raw)| build(transitions, &roles, &raw))
}

/// Build the scenario from raw generated values (shared with the `srv_sim` fuzz decoder).
pub fn build(transitions: bool, roles: &[(u8, Vec<u8>)], raw: &[(u8, u8)]) -> Scenario {
    {
        let conns: Vec<ConnScript> = roles.iter().enumerate().map(|(c, (sel, sizes))| script(c, role_of(*sel), sizes)).collect();
        let n = conns.len();
        let mut steps = Vec::new();
        // all connections arrive first in most cases, so that list positions = indexes
        if raw.first().map(|r| r.0 % 4 != 0).unwrap_or(true) {
            for c in 0..n {
                steps.push(Step::Arrive(c));
            }
            steps.push(Step::Poll);
        }
        for &(sel, cs) in raw {
            let c = cs as usize % n;
            match sel % 12 {
                0 => steps.push(Step::Arrive(c)),
                1..=7 => steps.push(Step::Chunk(c)),
                8 if transitions => steps.push(Step::Push { c, id: 1, continues: Some(true) }),
                9 if transitions => steps.push(Step::End { c, id: 1 }),
                10 | 11 => steps.push(Step::Poll),
                _ => steps.push(Step::Chunk(c)),
            }
        }
        if transitions {
            for (c, (sel, _)) in roles.iter().enumerate() {
                if role_of(*sel) == Role::Streamer {
                    steps.push(Step::Chunk(c));
                    steps.push(Step::Push { c, id: 1, continues: None });
                    steps.push(Step::End { c, id: 1 });
                }
            }
        }
        Scenario { conns, steps }
    }
}

/// Strict monitor. Returns a description of the violation, if any.
fn strict_monitor(sc: &Scenario, trace: &Trace, stats: &mut Stats) -> Result<(), Fail> {
    let n_obs = trace.observations.len();
    for p in 0..n_obs {
        let seg: Vec<usize> = (0..trace.log.len()).filter(|&i| trace.log_obs[i] == p).collect();
        if seg.is_empty() {
            continue;
        }
        let conn_of = |i: usize| trace.log[i].0 as usize;
        // statistics: a flooder with >= 3 waiting calls while another connection waits
        let mut per: Vec<usize> = vec![0; sc.conns.len()];
        for &i in &seg {
            per[conn_of(i)] += 1;
        }
        let waiting_conns = per.iter().filter(|&&k| k > 0).count();
        if waiting_conns >= 2 && per.iter().any(|&k| k >= 3) {
            stats.class("segment:flooder>=3-calls-and-another-waiting");
        }
        if waiting_conns >= 3 {
            stats.class("segment:>=3-connections-waiting");
        }
        for (x, &i) in seg.iter().enumerate() {
            let a = conn_of(i);
            // next service of a
            let Some(y) = (x + 1..seg.len()).find(|&y| conn_of(seg[y]) == a) else { continue };
            for b in 0..sc.conns.len() {
                if b == a {
                    continue;
                }
                let after = (y + 1..seg.len()).any(|z| conn_of(seg[z]) == b);
                let between = (x + 1..y).any(|z| conn_of(seg[z]) == b);
                if after && !between {
                    let order: Vec<usize> = seg.iter().map(|&i| conn_of(i)).collect();
                    return Err(Fail::new(
                        "starved-while-waiting",
                        format!(
                            "during poll {p} the server served connection {a} twice (positions {x} and {y} of this run) while connection {b} had a complete call waiting the whole time; service order by connection: {order:?}"
                        ),
                    ));
                }
            }
        }
    }
    Ok(())
}

fn transition_monitor(sc: &Scenario, trace: &Trace) -> Result<(), Fail> {
    let n = sc.conns.len();
    // transitions: arrivals + closures + stream starts + stream ends (over-approximation: all of them)
    let mut t = n; // arrivals
    for c in &sc.conns {
        if c.end != ConnEnd::Open {
            t += 1;
        }
        t += 2 * c.frames.iter().filter(|f| matches!(f, FrameSpec::Call { kind: CallKind::Sub, .. })).count();
    }
    let bound = n * (t + 1);
    // segment start positions
    let mut seg_start = vec![0usize; trace.observations.len() + 1];
    for p in 0..trace.observations.len() {
        seg_start[p + 1] = trace.observations[p].log_len;
    }
    let mut last_of: Vec<Option<usize>> = vec![None; n];
    for (j, e) in trace.log.iter().enumerate() {
        let b = e.0 as usize;
        let p = trace.log_obs[j];
        let mut eligible = seg_start[p];
        if let Some(prev) = last_of[b] {
            eligible = eligible.max(prev + 1);
            // behind a Sub: eligible when the server saw the stream end
            let prev_e = &trace.log[prev];
            if prev_e.2 == CallKind::Sub {
                if let Some(&seen) = trace.stream_end_seen.get(&(prev_e.0, prev_e.1)) {
                    eligible = eligible.max(seen as usize);
                }
            }
        }
        let foreign = (eligible.min(j)..j).filter(|&i| trace.log[i].0 as usize != b).count();
        if foreign > bound {
            return Err(Fail::new(
                "wait-exceeds-transition-bound",
                format!("call {} of connection {b} was served after {foreign} foreign calls although it was eligible; bound {n} x ({t} + 1) = {bound}", e.1),
            ));
        }
        last_of[b] = Some(j);
    }
    Ok(())
}

pub fn check(sc: &Scenario, stats: &mut Stats, transitions: bool) -> CaseResult {
    stats.sample(|| sample_of(sc));
    let trace = run_scenario(sc);
    judge_trace(sc, &trace)?;
    let before = stats.classes.get("segment:flooder>=3-calls-and-another-waiting").copied().unwrap_or(0);
    if transitions {
        stats.class("transition-lane");
        transition_monitor(sc, &trace)?;
        // the strict rule still applies to runs in which no transition can happen: skip here
    } else {
        strict_monitor(sc, &trace, stats)?;
    }
    let after = stats.classes.get("segment:flooder>=3-calls-and-another-waiting").copied().unwrap_or(0);
    if after > before {
        stats.nontrivial_hash(hash_of(sc));
    }
    Ok(())
}

/// Exhaustive: n connections, flooder at position i, single caller at position j, rest idle;
/// everything delivered before one poll, or the flooder served once first.
fn enumerated() -> Vec<Scenario> {
    let mut out = Vec::new();
    for n in 2..=5usize {
        for i in 0..n {
            for j in 0..n {
                if i == j {
                    continue;
                }
                for (second_single, flavour) in [(None, 0u8), (Some((j + 1) % n), 0), (None, 1), (Some((j + 1) % n), 2), (None, 3)] {
                    let conns: Vec<ConnScript> = (0..n)
                        .map(|c| {
                            if c == i {
                                script(c, Role::Flooder, &[3 + 64 * flavour, 2])
                            } else if c == j || (Some(c) == second_single && c != i) {
                                script(c, Role::Single, &[0, (flavour % 2) as u8])
                            } else {
                                script(c, Role::Idle, &[])
                            }
                        })
                        .collect();
                    for variant in 0..4 {
                        let mut steps: Vec<Step> = (0..n).map(Step::Arrive).collect();
                        steps.push(Step::Poll);
                        // split single callers need two deliveries per call
                        let split = flavour % 2 == 1;
                        match variant {
                            0 => {
                                // everything at once
                                steps.push(Step::Chunk(i));
                                for c in 0..n {
                                    if c != i {
                                        steps.push(Step::Chunk(c));
                                        if split {
                                            // the flooder is served between the two pieces
                                            steps.push(Step::Poll);
                                            steps.push(Step::Chunk(i));
                                            steps.push(Step::Chunk(c));
                                        }
                                    }
                                }
                                steps.push(Step::Poll);
                            }
                            1 => {
                                // singles first in the script
                                for c in 0..n {
                                    if c != i {
                                        steps.push(Step::Chunk(c));
                                    }
                                }
                                steps.push(Step::Chunk(i));
                                steps.push(Step::Poll);
                            }
                            2 => {
                                // the flooder has been served before (it is the last winner), then floods again
                                steps.push(Step::Chunk(i));
                                steps.push(Step::Poll);
                                steps.push(Step::Chunk(i));
                                for c in 0..n {
                                    if c != i {
                                        steps.push(Step::Chunk(c));
                                    }
                                }
                                steps.push(Step::Poll);
                            }
                            _ => {
                                // a single caller was the last winner
                                steps.push(Step::Chunk(j));
                                steps.push(Step::Poll);
                                steps.push(Step::Chunk(i));
                                steps.push(Step::Chunk(j));
                                if let Some(k) = second_single {
                                    steps.push(Step::Chunk(k));
                                }
                                steps.push(Step::Poll);
                            }
                        }
                        out.push(Scenario { conns: conns.clone(), steps });
                    }
                }
            }
        }
    }
    out
}

pub fn run(ctx: &Ctx) -> i32 {
    let (shards, cases) = ctx.tier.pick((16, 10000), (64, 25_000));
    let (mut stats, mut viol) = run_shards(ctx, "strict", shards, cases, || scenario_strategy(false), |sc, st| check(sc, st, false));
    let (s2, v2) = run_shards(ctx, "transitions", shards, cases / 2, || scenario_strategy(true), |sc, st| check(sc, st, true));
    stats.merge(s2);
    viol.extend(v2);
    let en = enumerated();
    let (s3, v3) = par_enumerate(ctx, "positions", en.len() as u64, |i, stats| {
        let sc = &en[i as usize];
        stats.eval();
        match check(sc, stats, false) {
            Ok(()) => vec![],
            Err(f) => vec![(f, serde_json::to_value(sc).unwrap())],
        }
    });
    stats.merge(s3);
    viol.extend(v3);
    crate::fuzzrun::golden("srv_sim", &mut stats, &mut viol);
    if ctx.tier == vcommon::ev::Tier::Thorough {
        std::env::set_var("VERIF_SRV_LANES", "5,6");
        let seeds: Vec<Vec<u8>> = { let mut v = Vec::new(); for l in [5u8, 6] { for i in 0..24u8 { let mut s = vec![l as u8]; s.extend((0..(16 + i as usize * 9)).map(|k| (k as u8).wrapping_mul(37).wrapping_add(i.wrapping_mul(11)))); v.push(s); } } v };
        crate::fuzzrun::campaign(ctx, "srv_sim", crate::fuzzrun::fuzz_secs(180), &seeds, &mut stats, &mut viol);
    }
    Report::new(RULE)
        .assume("a call is 'waiting' from the moment its last byte was delivered to the simulated transport; deliveries end at frame boundaries; all queued arrivals are accepted at the start of a server run (accept has priority), so the connection set is unchanged within a run in the strict lane")
        .assume("transition lane: a call queued behind its own connection's open stream becomes eligible when the server has seen the stream end; the transition count is over-approximated by all arrivals, closures and stream starts/ends of the scenario, which only loosens the bound")
        .extra("enumerated_position_cases", json!(en.len()))
        .finish(ctx, &stats, &viol, &[])
}

pub fn replay(lane: &str, case: serde_json::Value) -> CaseResult {
    if lane == "fuzz" {
        return crate::fuzzrun::replay(&case);
    }
    let sc: Scenario = serde_json::from_value(case).map_err(|e| Fail::new("bad-replay", e.to_string()))?;
    println!("{}", serde_json::to_string_pretty(&sample_of(&sc)).unwrap());
    let trace = run_scenario(&sc);
    println!("service order (connection, call, poll): {:?}", trace.log.iter().zip(&trace.log_obs).map(|(e, p)| (e.0, e.1, *p)).collect::<Vec<_>>());
    let mut stats = Stats::default();
    check(&sc, &mut stats, lane == "transitions")
}
