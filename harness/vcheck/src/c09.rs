//! C09 — a faulty client ends only its own connection; the server and the others carry on.

use proptest::prelude::*;
use serde_json::json;
use vcommon::{
    drv::{par_enumerate, run_shards, CaseResult, Fail},
    ev::{hash_of, Ctx, Report, Stats},
    frames::{resolve_cuts, ChunkPlan},
    srv::*,
    srvgen::{interleavings, scenario_strategy, Features},
};

use crate::c08::sample_of;

pub const RULE: &str = "case = a C08 scenario (1..4 connections, generated global event order) in \
which connections may be faulty: a frame that is garbage / invalid UTF-8 / JSON of the wrong shape \
/ an unknown method / parameters of the wrong types / a missing parameter / an ill-typed flag / \
blank (a lone terminator or white space only) at any position of the script, a last frame without terminator followed by EOF, EOF or a transport \
read error after the last byte (anywhere relative to the other events), transport write failure \
from the k-th write on (in a second lane also on connections with streaming calls, i.e. at any stream item); plus one healthy connection that arrives after everything else. Oracle: \
(1) relational - the scenario is run again with the faulty connections absent and every healthy \
connection must have received byte-identical frames at every observation point; (2) the healthy \
connections equal the sequential model, faulty ones received at least the replies owed before \
their fault and nothing that belongs to someone else; (3) Server::run() is still pending and the \
late connection is served. The exhaustive lane places every fault kind at every position 0..=4 of \
a 5-call script (and EOF / read error / write failure at every k) next to two healthy connections \
under several interleavings. Non-trivial = at least one faulty and one healthy connection with \
calls whose deliveries interleave; distinct by hash of the scenario.";

pub const FEATURES: Features = Features { max_conns: 4, max_calls: 5, oneway: true, subs: false, faults: true };

fn late_conn(c: usize) -> ConnScript {
    let mut s = ConnScript {
        frames: vec![
            FrameSpec::Call { kind: CallKind::Echo, id: 0, oneway: false, more: false, pad: 4, flags_first: false },
            FrameSpec::Call { kind: CallKind::Fail, id: 1, oneway: false, more: false, pad: 0, flags_first: false },
        ],
        cuts: vec![],
        end: ConnEnd::Open,
        truncate_last: false,
        write_fail_from: None,
    };
    s.cuts = resolve_cuts(&ChunkPlan::Fixed(50), &s.stream(c));
    s
}

pub fn with_late_conn(mut sc: Scenario) -> Scenario {
    let c = sc.conns.len();
    sc.conns.push(late_conn(c));
    sc
}

pub fn check_scenario(sc: &Scenario, stats: &mut Stats) -> CaseResult {
    let faulty: Vec<bool> = sc.conns.iter().map(|c| c.has_fault()).collect();
    let n_faulty = faulty.iter().filter(|&&f| f).count();
    let healthy_with_calls = sc.conns.iter().zip(&faulty).filter(|(c, &f)| !f && !c.frames.is_empty()).count();
    let order: Vec<usize> = sc.steps.iter().filter_map(|s| if let Step::Chunk(c) = s { Some(*c) } else { None }).collect();
    let interleaved = order.windows(2).any(|w| w[0] != w[1] && faulty.get(w[0]) != faulty.get(w[1]));
    if n_faulty > 0 {
        stats.class("has-faulty-connection");
    }
    if n_faulty >= 2 {
        stats.class("faulty-connections>=2");
    }
    for c in &sc.conns {
        if c.frames.iter().any(|f| matches!(f, FrameSpec::Fault(_))) {
            stats.class("fault:bad-frame");
        }
        if c.end == ConnEnd::Eof {
            stats.class(if c.truncate_last { "fault:truncated-frame-then-eof" } else { "fault:eof" });
        }
        if c.end == ConnEnd::ReadErr {
            stats.class("fault:read-error");
        }
        if c.write_fail_from.is_some() {
            stats.class("fault:write-error");
        }
    }
    if n_faulty > 0 && healthy_with_calls >= 2 && interleaved {
        stats.class("nontrivial");
        stats.nontrivial_hash(hash_of(sc));
    }
    stats.sample(|| sample_of(sc));
    let trace = run_scenario(sc);
    judge_trace(sc, &trace)?;
    // the late connection (last index) must have been served completely
    let last = sc.conns.len() - 1;
    let final_obs = trace.observations.last().unwrap();
    if !sc.conns[last].has_fault() {
        let m = model_conn(sc, last, final_obs);
        let got = parse_out(&final_obs.out[last]).unwrap_or_default();
        if got != m.out || m.out.is_empty() {
            return Err(Fail::new("late-connection-not-served", format!("the connection that arrived after the faults received [{}]", show_frames(&final_obs.out[last]))));
        }
    }
    if n_faulty == 0 {
        return Ok(());
    }
    // relational: the same scenario without the faulty connections
    let reference = run_scenario_without(sc, &faulty);
    if let Some(e) = &reference.server_ended {
        return Err(Fail::new("server-stopped", format!("Server::run() returned {e} in the run without faulty connections")));
    }
    if reference.observations.len() != trace.observations.len() {
        return Err(Fail::new("harness", "observation counts differ between the two runs"));
    }
    for (a, b) in trace.observations.iter().zip(&reference.observations) {
        for c in 0..sc.conns.len() {
            if faulty[c] {
                continue;
            }
            if a.out[c] != b.out[c] {
                return Err(Fail::new(
                    "healthy-connection-disturbed",
                    format!(
                        "connection {c} at step {}: with the faulty connection(s) present it received [{}], without [{}]",
                        a.step as i64,
                        show_frames(&a.out[c]),
                        show_frames(&b.out[c])
                    ),
                ));
            }
        }
    }
    Ok(())
}

/// Exhaustive lane: one faulty script with the fault at every position, two healthy neighbours.
fn enumerated() -> Vec<Scenario> {
    let call = |kind, id, oneway, pad| FrameSpec::Call { kind, id, oneway, more: false, pad, flags_first: false };
    let healthy_a = vec![call(CallKind::Echo, 0, false, 3), call(CallKind::Noop, 1, true, 0), call(CallKind::Fail, 2, false, 0), call(CallKind::Echo, 3, false, 270)];
    let healthy_b = vec![call(CallKind::Fail, 0, false, 0), call(CallKind::Echo, 1, false, 5)];
    let base: Vec<FrameSpec> = (0..5).map(|i| call(if i % 2 == 0 { CallKind::Echo } else { CallKind::Noop }, i, i == 3, 2)).collect();
    let mk = |c: usize, frames: Vec<FrameSpec>, plan: ChunkPlan, end, trunc, wf| {
        let mut s = ConnScript { frames, cuts: vec![], end, truncate_last: trunc, write_fail_from: wf };
        s.cuts = resolve_cuts(&plan, &s.stream(c));
        s
    };
    let mut faulty_scripts: Vec<ConnScript> = Vec::new();
    let mut kinds: Vec<FaultKind> = FAULT_KINDS.to_vec();
    // generated undecodable frames: the three forms, lengths around 64 / 128 / 256 bytes with
    // multi-byte characters straddling those offsets
    for seed in 0..24u16 {
        kinds.push(FaultKind::Soup { seed: seed * 7 + 1, len: [3, 30, 61, 62, 63, 64, 65, 66, 126, 127, 128, 129, 200, 255, 256, 257, 300, 511, 513, 700, 20, 90, 10, 1][seed as usize] });
    }
    for kind in kinds {
        for pos in 0..5 {
            let mut f = base.clone();
            f[pos] = FrameSpec::Fault(kind);
            faulty_scripts.push(mk(1, f, ChunkPlan::AtNuls(0), ConnEnd::Open, false, None));
        }
    }
    for pos in 0..=5usize {
        let f: Vec<FrameSpec> = base[..pos].to_vec();
        for end in [ConnEnd::Eof, ConnEnd::ReadErr] {
            faulty_scripts.push(mk(1, f.clone(), ChunkPlan::AtNuls(0), end, false, None));
            if pos > 0 {
                faulty_scripts.push(mk(1, f.clone(), ChunkPlan::AtNuls(-3), end, true, None));
            }
        }
        faulty_scripts.push(mk(1, base.clone(), ChunkPlan::AtNuls(0), ConnEnd::Open, false, Some(pos)));
        faulty_scripts.push(mk(1, base.clone(), ChunkPlan::One, ConnEnd::Open, false, Some(pos)));
    }
    let mut out = Vec::new();
    for fs in faulty_scripts {
        let conns = vec![
            mk(0, healthy_a.clone(), ChunkPlan::AtNuls(0), ConnEnd::Open, false, None),
            fs,
            mk(2, healthy_b.clone(), ChunkPlan::Fixed(40), ConnEnd::Open, false, None),
        ];
        let counts: Vec<usize> = conns.iter().map(|c| c.cuts.len() + 1).collect();
        // a handful of structured interleavings: round robin, faulty first, faulty last, faulty in the middle
        let total: usize = counts.iter().sum();
        let mut orders: Vec<Vec<usize>> = Vec::new();
        let mut rr = Vec::new();
        let mut left = counts.clone();
        while rr.len() < total {
            for c in 0..3 {
                if left[c] > 0 {
                    left[c] -= 1;
                    rr.push(c);
                }
            }
        }
        orders.push(rr);
        for first in [[1usize, 0, 2], [0, 2, 1], [0, 1, 2], [2, 1, 0]] {
            let mut o = Vec::new();
            for c in first {
                o.extend(std::iter::repeat(c).take(counts[c]));
            }
            orders.push(o);
        }
        for order in orders {
            for poll_every in [1usize, 3] {
                let mut steps = Vec::new();
                for (i, &c) in order.iter().enumerate() {
                    steps.push(Step::Chunk(c));
                    if i % poll_every == 0 {
                        steps.push(Step::Poll);
                    }
                }
                out.push(with_late_conn(Scenario { conns: conns.clone(), steps }));
            }
        }
    }
    // all interleavings for a small instance: faulty conn (garbage at position 1, 3 chunks) and one healthy (3 chunks)
    let small_faulty = mk(1, vec![base[0].clone(), FrameSpec::Fault(FaultKind::Garbage), base[2].clone()], ChunkPlan::AtNuls(0), ConnEnd::Eof, false, None);
    let small_healthy = mk(0, healthy_a[..3].to_vec(), ChunkPlan::AtNuls(0), ConnEnd::Open, false, None);
    for order in interleavings(&[small_healthy.cuts.len() + 1, small_faulty.cuts.len() + 1]) {
        let mut steps = Vec::new();
        for &c in &order {
            steps.push(Step::Chunk(c));
            steps.push(Step::Poll);
        }
        out.push(with_late_conn(Scenario { conns: vec![small_healthy.clone(), small_faulty.clone()], steps }));
    }
    out
}

/// Lane of the small-limit build: one connection of a generated scenario sends, at a generated
/// position of its script, a well-formed call that is longer than the size limit of the receive
/// buffer (0..2000 bytes over; delivered whole, in 255- / 256- / 4096-byte pieces or cut as the
/// scenario says), possibly followed by more calls, by a close or by nothing.
fn oversized_strategy() -> impl Strategy<Value = Scenario> {
    (
        scenario_strategy(Features { faults: false, ..FEATURES }),
        any::<u8>(),
        any::<u8>(),
        prop_oneof![3 => 0u16..4, 2 => 250u16..262, 2 => 0u16..2000],
        0u8..5,
        0u8..4,
    )
        .prop_map(|(mut sc, who, pos, over, plan, end)| {
            let c = who as usize % sc.conns.len();
            let script = &mut sc.conns[c];
            let at = pos as usize % (script.frames.len() + 1);
            script.frames.insert(at, FrameSpec::Fault(FaultKind::Oversized { over }));
            script.end = match end {
                0 => ConnEnd::Eof,
                1 => ConnEnd::ReadErr,
                _ => ConnEnd::Open,
            };
            script.truncate_last = end == 0 && at == script.frames.len() - 1 && over % 2 == 0;
            let plan = match plan {
                0 => ChunkPlan::One,
                1 => ChunkPlan::Fixed(255),
                2 => ChunkPlan::Fixed(256),
                3 => ChunkPlan::Fixed(4096),
                _ => ChunkPlan::AtNuls(1),
            };
            script.cuts = resolve_cuts(&plan, &script.stream(c));
            // every piece of the long script has to be delivered some time: append the deliveries
            for _ in 0..script.cuts.len() + 1 {
                sc.steps.push(Step::Chunk(c));
                if over % 3 == 0 {
                    sc.steps.push(Step::Poll);
                }
            }
            with_late_conn(sc)
        })
}

#[derive(serde::Serialize, serde::Deserialize)]
struct ChildOut {
    limit: usize,
    stats: Stats,
    violations: Vec<vcommon::ev::Violation>,
}

const PROD_LIMIT: usize = 100 * 1024 * 1024;

pub fn run(ctx: &Ctx) -> i32 {
    if let Ok(path) = std::env::var("VERIF_C09_CHILD") {
        // Child: the small-limit build runs the oversized-message lane only.
        let (shards, cases) = ctx.tier.pick((16, 300), (32, 4000));
        let (stats, violations) = run_shards(ctx, "oversized(small-limit build)", shards, cases, oversized_strategy, |sc, stats| {
            stats.class("fault:oversized-message");
            check_scenario(sc, stats)
        });
        let out = ChildOut { limit: zlink_core::__verif::MAX_BUFFER_SIZE, stats, violations };
        std::fs::write(&path, serde_json::to_vec(&out).unwrap()).expect("write child result");
        return 0;
    }
    let child = match std::env::var("VERIF_VCHECK_SMALLBUF") {
        Ok(bin) if zlink_core::__verif::MAX_BUFFER_SIZE == PROD_LIMIT => {
            let dir = vcommon::ev::verif_root().join("work").join("C09");
            let _ = std::fs::create_dir_all(&dir);
            let out = dir.join(format!("small-{}.json", std::process::id()));
            match std::process::Command::new(&bin).arg("C09").arg(ctx.tier.name()).arg("--seed").arg(ctx.seed.to_string()).env("VERIF_C09_CHILD", &out).spawn() {
                Ok(c) => Some((c, out)),
                Err(e) => {
                    eprintln!("C09: cannot start {bin}: {e}");
                    return 2;
                }
            }
        }
        _ => {
            eprintln!("C09: VERIF_VCHECK_SMALLBUF is not set (run through ./check)");
            return 2;
        }
    };
    let (shards, cases) = ctx.tier.pick((16, 8000), (64, 20_000));
    let (mut stats, mut viol) = run_shards(
        ctx,
        "random",
        shards,
        cases,
        || scenario_strategy(FEATURES).prop_map(with_late_conn),
        check_scenario,
    );
    // the same with streaming calls: a faulty subscriber must not disturb the others either
    let with_streams = Features { subs: true, ..FEATURES };
    let (s4, v4) = run_shards(
        ctx,
        "random-with-streams",
        shards,
        cases / 2,
        || scenario_strategy(with_streams).prop_map(with_late_conn),
        |sc, stats| {
            stats.class("lane:with-streams");
            check_scenario(sc, stats)
        },
    );
    stats.merge(s4);
    viol.extend(v4);
    let en = enumerated();
    let (s2, v2) = par_enumerate(ctx, "fault-placement", en.len() as u64, |i, stats| {
        let sc = &en[i as usize];
        stats.eval();
        match check_scenario(sc, stats) {
            Ok(()) => vec![],
            Err(f) => vec![(f, serde_json::to_value(sc).unwrap())],
        }
    });
    stats.merge(s2);
    viol.extend(v2);
    let mut small_limit = 0usize;
    if let Some((mut c, out)) = child {
        let status = c.wait();
        if !matches!(status, Ok(s) if s.success()) {
            eprintln!("C09: the small-limit run did not finish ({status:?}); inconclusive");
            return 2;
        }
        let small: ChildOut = match std::fs::read(&out).ok().and_then(|b| serde_json::from_slice(&b).ok()) {
            Some(c) => c,
            None => {
                eprintln!("C09: cannot read the small-limit result; inconclusive");
                return 2;
            }
        };
        let _ = std::fs::remove_file(&out);
        if small.limit >= PROD_LIMIT {
            eprintln!("C09: the small-limit build reports limit {}; hook not active", small.limit);
            return 2;
        }
        small_limit = small.limit;
        stats.merge(small.stats);
        viol.extend(small.violations);
    }
    crate::fuzzrun::golden("srv_sim", &mut stats, &mut viol);
    if ctx.tier == vcommon::ev::Tier::Thorough {
        std::env::set_var("VERIF_SRV_LANES", "1,2");
        let seeds: Vec<Vec<u8>> = { let mut v = Vec::new(); for l in [1u8, 2] { for i in 0..24u8 { let mut s = vec![l as u8]; s.extend((0..(16 + i as usize * 9)).map(|k| (k as u8).wrapping_mul(37).wrapping_add(i.wrapping_mul(11)))); v.push(s); } } v };
        crate::fuzzrun::campaign(ctx, "srv_sim", crate::fuzzrun::fuzz_secs(180), &seeds, &mut stats, &mut viol);
    }
    Report::new(RULE)
        .assume("faults are injected by the scripted transports: EOF = 0-byte read, read / write errors = Error::SocketRead / SocketWrite from the k-th operation on")
        .assume("oversized messages are injected in a second build whose size limit is lowered by the cfg(zlink_verif_small_buf) hook (the production limit of 100 MiB would cost 100 MiB per case); that build differs from production only in the value of the limit constant")
        .extra("small_limit_of_the_oversized_lane", json!(small_limit))
        .extra("enumerated_fault_placements", json!(en.len()))
        .finish(ctx, &stats, &viol, &[])
}

pub fn replay(_lane: &str, case: serde_json::Value) -> CaseResult {
    if _lane == "fuzz" {
        return crate::fuzzrun::replay(&case);
    }
    let sc: Scenario = serde_json::from_value(case.clone()).map_err(|e| Fail::new("bad-replay", e.to_string()))?;
    let oversized = sc.conns.iter().any(|c| c.frames.iter().any(|f| matches!(f, FrameSpec::Fault(FaultKind::Oversized { .. }))));
    if oversized && zlink_core::__verif::MAX_BUFFER_SIZE == PROD_LIMIT {
        // a case of the small-limit build: hand over to that binary
        let Ok(bin) = std::env::var("VERIF_VCHECK_SMALLBUF") else {
            return Err(Fail::new("infra", "replaying an oversized-message case needs VERIF_VCHECK_SMALLBUF (run through ./check --replay)"));
        };
        let tmp = vcommon::ev::verif_root().join("work").join("C09");
        let _ = std::fs::create_dir_all(&tmp);
        let path = tmp.join(format!("replay-{}.json", std::process::id()));
        std::fs::write(&path, serde_json::to_vec(&json!({"property": "C09", "lane": _lane, "case": case})).unwrap()).unwrap();
        let out = std::process::Command::new(bin).arg("--replay").arg(&path).output();
        let _ = std::fs::remove_file(&path);
        return match out {
            Ok(o) => {
                let text = String::from_utf8_lossy(&o.stdout).to_string();
                print!("{text}");
                if o.status.success() {
                    Ok(())
                } else {
                    Err(Fail::new("replayed-in-small-build", text.lines().last().unwrap_or("violation").to_string()))
                }
            }
            Err(e) => Err(Fail::new("infra", e.to_string())),
        };
    }
    println!("{}", serde_json::to_string_pretty(&sample_of(&sc)).unwrap());
    let trace = run_scenario(&sc);
    for o in &trace.observations {
        println!("observation at step {}: out = {:?}", o.step as i64, o.out.iter().map(|f| show_frames(f)).collect::<Vec<_>>());
    }
    println!("service log: {:?}; server ended: {:?}", trace.log, trace.server_ended);
    let mut stats = Stats::default();
    check_scenario(&sc, &mut stats)
}
