//! C01 — inbound framing is independent of how the transport fragments the stream.

use proptest::prelude::*;
use serde_json::json;
use vcommon::{
    drv::{par_enumerate, run_shards, CaseResult, Fail},
    ev::{hash_of, show_bytes, truncate, Ctx, Report, Stats},
    frames::{
        chunk_plan_strategy, frames_strategy, has_mid_frame_cut, resolve_cuts, stream_of, ChunkPlan,
        Domain, B,
    },
    rx::{Expect, RxCase, Target, ALL_TARGETS},
};

pub const RULE: &str = "cases = (target type, sequence of 1..8 NUL-terminated frames drawn from \
valid / wrong-shape / malformed / whitespace-padded categories with sizes dialled around the \
256-byte growth steps, chunking of the byte stream, Pending schedule); each case is also run \
one-read and byte-at-a-time; a lane of large bursts mixes frames of 4..90 KiB (up to 350 growth steps) with small ones; short streams are cut exhaustively (every single cut and pair of \
cuts, every composition for <= 12 bytes). Non-trivial = at least 2 frames and (a cut strictly \
inside a frame, or a non-decodable or padded frame followed by another frame); distinct by hash \
of (target, frames, cuts).";

pub fn domain_of(t: Target) -> Domain {
    if t.is_call() {
        Domain::Calls
    } else {
        Domain::Replies
    }
}

pub fn case_strategy(max_frames: usize, max_steps: usize) -> impl Strategy<Value = RxCase> {
    (0usize..ALL_TARGETS.len())
        .prop_flat_map(move |ti| {
            let target = ALL_TARGETS[ti];
            (
                Just(target),
                frames_strategy(domain_of(target), max_frames, max_steps),
                chunk_plan_strategy(),
                prop::collection::vec(0u8..3, 0..4),
            )
        })
        .prop_map(|(target, frames, plan, pend)| {
            let cuts = resolve_cuts(&plan, &stream_of(&frames));
            RxCase {
                target,
                frames,
                cuts,
                // one case in four puts the halves together and takes them apart between receives
                rejoin: if pend.first().copied().unwrap_or(0) == 2 || pend.len() == 3 && pend[2] == 1 { 1 + pend.len() as u8 % 3 } else { 0 },
                pend,
                cancel: vec![],
            }
        })
}

pub fn is_nontrivial(case: &RxCase, expected: &[Expect]) -> bool {
    if case.frames.len() < 2 {
        return false;
    }
    let mid = has_mid_frame_cut(&case.frames, &case.cuts);
    let n = case.frames.len();
    let odd_followed = (0..n - 1).any(|i| {
        let b = &case.frames[i].0;
        !expected[i].is_decodable()
            || vcommon::frames::WS.contains(&b[0])
            || vcommon::frames::WS.contains(&b[b.len() - 1])
    });
    mid || odd_followed
}

fn classify(case: &RxCase, expected: &[Expect], stats: &mut Stats) {
    let n = case.frames.len();
    if n >= 2 {
        stats.class("frames>=2");
    }
    if has_mid_frame_cut(&case.frames, &case.cuts) {
        stats.class("mid-frame-cut");
    }
    if expected[..n].iter().any(|e| !e.is_decodable()) {
        stats.class("has-undecodable-frame");
    }
    if case.frames.iter().any(|f| {
        vcommon::frames::WS.contains(&f.0[0]) || vcommon::frames::WS.contains(&f.0[f.0.len() - 1])
    }) {
        stats.class("has-padded-frame");
    }
    let len = case.stream().len();
    if len > 256 {
        stats.class("stream>256B");
    }
    if len > 1024 {
        stats.class("stream>1KiB");
    }
    // a frame end within 2 bytes of a growth step
    let mut off = 0;
    for f in &case.frames {
        off += f.0.len() + 1;
        let r = off % 256;
        if off >= 254 && (r <= 2 || r >= 254) {
            stats.class("frame-end-near-256-step");
            break;
        }
    }
    stats.class(if case.target.is_call() { "target-call" } else { "target-reply" });
}

pub fn check_case(case: &RxCase, stats: &mut Stats) -> CaseResult {
    let expected = case.expected();
    classify(case, &expected, stats);
    if is_nontrivial(case, &expected) {
        stats.nontrivial_hash(hash_of(&(case.target, &case.frames, &case.cuts)));
    }
    stats.sample(|| sample_of(case));
    let run = case.run();
    case.judge(&run)?;
    // the same frames under the two extreme chunkings
    let big = case.stream().len() > 16 * 1024;
    for plan in [ChunkPlan::One, if big { ChunkPlan::Fixed(777) } else { ChunkPlan::ByteAtATime }] {
        let mut c = case.clone();
        c.cuts = resolve_cuts(&plan, &case.stream());
        if c.cuts == case.cuts {
            continue;
        }
        stats.eval();
        if is_nontrivial(&c, &expected) {
            stats.nontrivial_hash(hash_of(&(c.target, &c.frames, &c.cuts)));
        }
        let run = c.run();
        c.judge(&run).map_err(|f| Fail {
            sig: f.sig,
            message: format!("[{plan:?}] {}", f.message),
        })?;
    }
    Ok(())
}

pub fn sample_of(case: &RxCase) -> serde_json::Value {
    json!({
        "target": format!("{:?}", case.target),
        "stream": truncate(&show_bytes(&case.stream()), 300),
        "cuts": if case.cuts.len() > 12 { json!(format!("{} cuts", case.cuts.len())) } else { json!(case.cuts) },
        "pend": case.pend,
    })
}

/// Short streams for the exhaustive-cut lane: (target, frames).
fn short_streams() -> Vec<(Target, Vec<B>)> {
    let b = |s: &str| B(s.as_bytes().to_vec());
    let mut v = Vec::new();
    let reply_sets: Vec<Vec<B>> = vec![
        vec![b("{}"), b("{}"), b("{}")],
        vec![b("{}"), b("1"), b("{}")],
        vec![b(" {}"), b("{}")],
        vec![b("{} "), b("{}")],
        vec![b("{}\n\n"), b("{}"), b("x")],
        vec![b("{\"continues\":true}"), b("{\"continues\":false}"), b("{}")],
        vec![b("{"), b("{}")],
        vec![b("}"), b("{}"), b("{}")],
        vec![b("{}{}"), b("{}")],
        vec![b("{} {}"), b("{\"continues\":true}")],
        vec![b("\t"), b("{}")],
        vec![b("{\"error\":\"org.example.Bad\"}"), b("{}")],
        vec![b("nul"), b("null"), b("{}")],
        vec![b("{\"parameters\":{\"name\":\"a\",\"n\":1}}"), b("{}")],
        vec![B(vec![b'"', 0xff, b'"']), b("{}")],
        vec![b("[]"), b("[null,null]"), b("{}")],
    ];
    for t in [Target::ReplyUnit, Target::ReplyOpt, Target::ReplyValue, Target::ReplyStrict, Target::ReplyBorrowed] {
        for s in &reply_sets {
            v.push((t, s.clone()));
        }
    }
    let call_sets: Vec<Vec<B>> = vec![
        vec![b("{\"method\":\"org.example.Ping\"}"), b("{\"method\":\"org.example.Ping\"}")],
        vec![b("{}"), b("{\"method\":\"org.example.Ping\"}")],
        vec![b(" {\"method\":\"org.example.Ping\"}\n"), b("{\"method\":\"org.example.Ping\",\"oneway\":true}")],
        vec![b("{\"method\":\"org.example.Ping\"}x"), b("{\"method\":\"org.example.Ping\"}")],
        vec![b("{\"method\":"), b("{\"method\":\"org.example.Ping\"}")],
        vec![b("1"), b("2"), b("{\"method\":\"org.example.Ping\"}")],
    ];
    for t in [Target::CallEnum, Target::CallStrict] {
        for s in &call_sets {
            v.push((t, s.clone()));
        }
    }
    v
}

/// All cut sets for the exhaustive lane of one stream of length `len`.
fn exhaustive_cut_sets(len: usize) -> Vec<Vec<usize>> {
    let mut sets = vec![vec![]];
    for a in 1..len {
        sets.push(vec![a]);
    }
    if len <= 64 {
        for a in 1..len {
            for b in a + 1..len {
                sets.push(vec![a, b]);
            }
        }
    }
    if len <= 12 {
        for mask in 0u32..(1 << (len - 1)) {
            let cuts: Vec<usize> = (1..len).filter(|i| mask & (1 << (i - 1)) != 0).collect();
            if cuts.len() > 2 {
                sets.push(cuts);
            }
        }
    }
    sets
}

pub fn run(ctx: &Ctx) -> i32 {
    let (shards, cases) = ctx.tier.pick((16, 2000), (64, 6000));
    let (mut stats, mut viol) = run_shards(
        ctx,
        "random",
        shards,
        cases,
        || case_strategy(8, 6),
        |case, stats| check_case(case, stats),
    );

    // large bursts: 2..5 frames of which some are 4..90 KiB (hundreds of growth steps), so that a
    // burst keeps several undelivered frames buffered behind / in front of a very long one
    let (s5, v5) = run_shards(
        ctx,
        "large-bursts",
        shards,
        cases / 25,
        || {
            case_strategy(5, 350).prop_map(|mut c| {
                if c.stream().len() > 16 * 1024 && c.cuts.len() > 4096 {
                    // byte-at-a-time over a long stream adds nothing the short lanes do not cover
                    c.cuts = resolve_cuts(&ChunkPlan::Fixed(1 + c.cuts.len() % 4099), &c.stream());
                }
                c
            })
        },
        |case, stats| {
            stats.class("lane:large-bursts");
            let len = case.stream().len();
            if len > 16 * 1024 {
                stats.class("stream>16KiB");
            }
            if len > 64 * 1024 {
                stats.class("stream>64KiB");
            }
            check_case(case, stats)
        },
    );
    stats.merge(s5);
    viol.extend(v5);

    // exhaustive cuts of short streams
    let shorts = short_streams();
    let mut work: Vec<(usize, Vec<usize>)> = Vec::new();
    for (i, (_, frames)) in shorts.iter().enumerate() {
        let len = stream_of(frames).len();
        for cuts in exhaustive_cut_sets(len) {
            work.push((i, cuts));
        }
    }
    let (s2, v2) = par_enumerate(ctx, "exhaustive-cuts", work.len() as u64, |i, stats| {
        let (si, cuts) = &work[i as usize];
        let (target, frames) = &shorts[*si];
        let case = RxCase {
            target: *target,
            frames: frames.clone(),
            cuts: cuts.clone(),
            pend: vec![],
            cancel: vec![],
            rejoin: (i % 3 == 2) as u8,
        };
        stats.eval();
        let expected = case.expected();
        if is_nontrivial(&case, &expected) {
            stats.nontrivial_hash(hash_of(&(case.target, &case.frames, &case.cuts)));
        }
        stats.class("exhaustive-cut-case");
        if i % 50_000 == 7 {
            stats.sample(|| sample_of(&case));
        }
        let run = case.run();
        match case.judge(&run) {
            Ok(()) => vec![],
            Err(f) => vec![(f, serde_json::to_value(&case).unwrap())],
        }
    });
    stats.merge(s2);
    viol.extend(v2);

    crate::fuzzrun::golden("frames_rx", &mut stats, &mut viol);
    if ctx.tier == vcommon::ev::Tier::Thorough {
        let seeds: Vec<Vec<u8>> = shorts.iter().map(|(_, f)| { let mut v = vec![1u8, 64, 128, 192, 255, 1, 4, 2]; v.extend(stream_of(f)); v }).collect();
        crate::fuzzrun::campaign(ctx, "frames_rx", crate::fuzzrun::fuzz_secs(240), &seeds, &mut stats, &mut viol);
    }
    Report::new(RULE)
        .assume("the reference decode of a frame is serde_json::from_slice applied to exactly that frame's bytes (for replies: combined by the rules of C04)")
        .assume("the transport never returns more bytes than the buffer it was offered and signals peer close by a 0-byte read")
        .extra("exhaustive_short_streams", json!(shorts.len()))
        .finish(ctx, &stats, &viol, &[])
}

pub fn replay(_lane: &str, case: serde_json::Value) -> CaseResult {
    if _lane == "fuzz" {
        return crate::fuzzrun::replay(&case);
    }
    let case: RxCase = serde_json::from_value(case).map_err(|e| Fail::new("bad-replay", e.to_string()))?;
    let run = case.run();
    println!("stream: {}", truncate(&show_bytes(&case.stream()), 600));
    println!("cuts: {:?}", case.cuts);
    for (i, o) in run.outcomes.iter().enumerate() {
        println!("  result {i}: {o:?}");
    }
    for (i, e) in case.expected().iter().enumerate() {
        println!("  expect {i}: {e:?}");
    }
    case.judge(&run)
}
