//! C02 — outbound framing: one JSON document plus one NUL per message, in order.

use proptest::prelude::*;
use serde::{Deserialize, Serialize};
use serde_json::json;
use vcommon::{
    drv::{par_enumerate, run_shards, CaseResult, Fail},
    ev::{hash_of, show_bytes, truncate, Ctx, Report, Stats},
    exec::run_until_ready,
    sim::SimSocket,
    tx::{BufModel, Msg, MsgKind, SendOp, MSG_KINDS, REFUSED_KINDS, STEP},
};
use vcommon::tx::ChainState;
use zlink_core::Connection;

pub const RULE: &str = "cases = histories of 1..40 operations over {enqueue_call, send_call, \
send_reply, send_error, flush, flush started while the transport does not accept the write and abandoned after 1..3 polls, chain (chain_call + 0..3 append, ended early by a refused call, then sent or dropped unsent)} on one connection; message sizes are aimed with a model of the \
write buffer (256-byte steps, never shrinks) at: a chosen free space 0..=600 left for the next \
message, the exact-fit branch, spans of 1..5 growth steps, small and arbitrary sizes; refused \
messages (bool/float/tuple/option map keys, a Serialize impl that fails, a key that fails after a \
long valid prefix) are injected anywhere; a directed sweep meets every free-space value 0..=600 \
with every paddable message kind. Oracle = model of the wire: each flush point with a non-empty \
queue is exactly one transport write equal to the concatenation of serde_json::to_vec(msg)++NUL of \
the accepted messages since the last completed flush (an abandoned flush writes nothing and loses nothing). Non-trivial = at least 2 accepted messages in one write \
together with buffer growth, an exact fit or a refusal in between; distinct by hash of the history.";

#[derive(Debug, Clone, PartialEq, Eq, Hash, Serialize, Deserialize)]
pub enum TxOp {
    Msg { msg: Msg, op: SendOp },
    Flush,
    /// A flush that is started while the transport does not accept the write, polled `polls`
    /// times and then abandoned (the future is dropped). The simulated transport takes a write
    /// whole or not at all, so nothing has been written; what was enqueued must stay enqueued.
    FlushAbandoned { polls: u8 },
    /// `Connection::chain_call(items[0])` followed by `.append(items[i])`; the chain ends at the
    /// first refused item (which consumes it) or after the last item, and is then sent (`send`:
    /// one flush; the reply stream is dropped unpolled) or dropped unsent (its accepted calls stay
    /// enqueued, exactly as if they had been submitted with `enqueue_call`).
    Chain { items: Vec<Msg>, send: bool },
}

#[derive(Debug, Clone, Serialize, Deserialize)]
pub struct TxCase {
    pub ops: Vec<TxOp>,
    /// Pending polls before each transport write completes (cycled).
    pub wpend: Vec<u8>,
}

#[derive(Debug, Clone)]
enum SizeSpec {
    Small(usize),
    LeaveFree(usize),
    ExactFit,
    Span(usize, i32),
    Any(usize),
}

#[derive(Debug, Clone)]
struct OpSpec {
    /// 0 = a message, 1 = flush, 2.. = a flush abandoned after that many polls minus one
    flush: u8,
    kind: usize,
    opsel: u8,
    flags: u8,
    size: SizeSpec,
    refused: Option<usize>,
}

fn op_spec_strategy() -> impl Strategy<Value = OpSpec> {
    let size = prop_oneof![
        3 => (0usize..40).prop_map(SizeSpec::Small),
        4 => (0usize..=600).prop_map(SizeSpec::LeaveFree),
        2 => Just(SizeSpec::ExactFit),
        2 => (1usize..=5, -2i32..=2).prop_map(|(k, d)| SizeSpec::Span(k, d)),
        1 => (0usize..1500).prop_map(SizeSpec::Any),
        // large messages: a queue of tens of kilobytes must still go out in one write
        1 => (3000usize..40000).prop_map(SizeSpec::Any),
    ];
    (
        prop_oneof![80 => Just(0u8), 13 => Just(1u8), 7 => 2u8..5],
        0usize..MSG_KINDS.len(),
        any::<u8>(),
        any::<u8>(),
        size,
        prop::option::weighted(0.12, 0usize..REFUSED_KINDS.len()),
    )
        .prop_map(|(flush, kind, opsel, flags, size, refused)| OpSpec {
            flush,
            kind,
            opsel,
            flags,
            size,
            refused,
        })
}

/// Choose the encoded length for a paddable message given the model state.
fn aim(model: &BufModel, base: usize, size: &SizeSpec) -> usize {
    match *size {
        SizeSpec::Small(p) => base + p,
        SizeSpec::Any(p) => base + p,
        SizeSpec::ExactFit => {
            let mut n = model.free();
            while n < base {
                n += STEP;
            }
            n
        }
        SizeSpec::Span(k, d) => {
            let n = model.free() as i64 + (STEP * (k - 1)) as i64 + d as i64 + 1;
            (n.max(base as i64)) as usize
        }
        SizeSpec::LeaveFree(f) => {
            for extra in 0..6 {
                let l = model.len + extra * STEP;
                let n = l as i64 - f as i64 - model.pos as i64 - 1;
                if n < base as i64 {
                    continue;
                }
                let mut m = model.clone();
                m.enqueue(n as usize);
                if m.free() == f {
                    return n as usize;
                }
            }
            base + f % 40
        }
    }
}

/// Does this spec start a chain, and of which length / sent or not? Derived from bits of `opsel`
/// and `flags` that the other decisions do not use up, so the shape of the drawn value is
/// unchanged: about one call spec in six starts a chain of 1..=4 calls.
fn chain_start(s: &OpSpec) -> Option<(usize, bool)> {
    let c = s.opsel / 12; // 0..=21
    (c >= 18).then(|| ((c - 17) as usize, s.flags & 32 != 0))
}

fn resolve(specs: &[OpSpec]) -> Vec<TxOp> {
    let mut model = BufModel::default();
    let mut ops = Vec::with_capacity(specs.len());
    // chain under construction: items, calls still to come, sent at the end?
    let mut chain: Option<(Vec<Msg>, usize, bool)> = None;
    fn close(chain: &mut Option<(Vec<Msg>, usize, bool)>, consumed: bool, ops: &mut Vec<TxOp>, model: &mut BufModel) {
        if let Some((items, _, send)) = chain.take() {
            let send = send && !consumed;
            ops.push(TxOp::Chain { items, send });
            if send {
                model.flush();
            }
        }
    }
    for s in specs {
        if s.flush >= 1 {
            close(&mut chain, false, &mut ops, &mut model);
        }
        if s.flush == 1 {
            ops.push(TxOp::Flush);
            model.flush();
            continue;
        }
        if s.flush >= 2 {
            ops.push(TxOp::FlushAbandoned { polls: s.flush - 1 });
            continue;
        }
        if let Some(r) = s.refused {
            let pad = match s.size {
                SizeSpec::Small(p) => p,
                SizeSpec::Any(p) => p,
                SizeSpec::LeaveFree(f) => f,
                SizeSpec::ExactFit => model.free(),
                SizeSpec::Span(k, _) => model.free() + STEP * k,
            };
            let op = [SendOp::Enqueue, SendOp::SendCall, SendOp::SendReply, SendOp::SendError][(s.opsel % 4) as usize];
            let msg = Msg::Refused { kind: REFUSED_KINDS[r], pad };
            if chain.is_some() || chain_start(s).is_some() {
                // a refused call inside (or at the start of) a chain consumes the chain
                let c = chain.get_or_insert((Vec::new(), 0, false));
                c.0.push(msg);
                close(&mut chain, true, &mut ops, &mut model);
                continue;
            }
            ops.push(TxOp::Msg { msg, op });
            // the model may grow, but only its aim suffers if it is off
            continue;
        }
        let kind = MSG_KINDS[s.kind];
        let flags = s.flags;
        let base = Msg::Ok { kind, flags, pad: 0 }.encoded_len().unwrap();
        let n = if Msg::paddable(kind) { aim(&model, base, &s.size) } else { base };
        let msg = Msg::Ok { kind, flags, pad: n - base };
        let choices = kind.ops();
        if choices.len() == 2 && (chain.is_some() || chain_start(s).is_some()) {
            if chain.is_none() {
                let (len, send) = chain_start(s).unwrap();
                chain = Some((Vec::new(), len, send));
            }
            model.enqueue(n);
            let c = chain.as_mut().unwrap();
            c.0.push(msg);
            c.1 = c.1.saturating_sub(1);
            if c.1 == 0 {
                close(&mut chain, false, &mut ops, &mut model);
            }
            continue;
        }
        close(&mut chain, false, &mut ops, &mut model);
        // enqueue twice as likely as send for calls, so that several messages share a write
        let op = if choices.len() == 2 {
            if s.opsel % 3 == 0 { SendOp::SendCall } else { SendOp::Enqueue }
        } else {
            choices[0]
        };
        model.enqueue(n);
        if op != SendOp::Enqueue {
            model.flush();
        }
        ops.push(TxOp::Msg { msg, op });
    }
    close(&mut chain, false, &mut ops, &mut model);
    ops
}

/// Decoder of the `tx_hist` fuzz target: the same raw operation specs as the strategy draws, read
/// from the fuzzer's bytes, resolved against the same model of the write buffer.
pub fn case_from_bytes(u: &mut arbitrary::Unstructured<'_>) -> arbitrary::Result<TxCase> {
    let n = u.int_in_range(1usize..=40)?;
    let mut specs = Vec::with_capacity(n);
    for _ in 0..n {
        let flush = match u.int_in_range(0u8..=19)? {
            0..=15 => 0,
            16..=17 => 1,
            k => k - 16, // 2, 3
        };
        let size = match u.int_in_range(0u8..=12)? {
            12 => SizeSpec::Any(u.int_in_range(3000usize..=39999)?),
            0..=2 => SizeSpec::Small(u.int_in_range(0usize..=39)?),
            3..=6 => SizeSpec::LeaveFree(u.int_in_range(0usize..=600)?),
            7..=8 => SizeSpec::ExactFit,
            9..=10 => SizeSpec::Span(u.int_in_range(1usize..=5)?, u.int_in_range(-2i32..=2)?),
            _ => SizeSpec::Any(u.int_in_range(0usize..=1499)?),
        };
        specs.push(OpSpec {
            flush,
            kind: u.int_in_range(0usize..=MSG_KINDS.len() - 1)?,
            opsel: u.arbitrary()?,
            flags: u.arbitrary()?,
            size,
            refused: if u.ratio(1u8, 8u8)? { Some(u.int_in_range(0usize..=REFUSED_KINDS.len() - 1)?) } else { None },
        });
    }
    let k = u.int_in_range(0usize..=2)?;
    let wpend = (0..k).map(|_| u.int_in_range(0u8..=2)).collect::<arbitrary::Result<Vec<u8>>>()?;
    Ok(TxCase { ops: resolve(&specs), wpend })
}

pub fn case_strategy() -> impl Strategy<Value = TxCase> {
    (
        prop::collection::vec(op_spec_strategy(), 1..=40),
        prop::collection::vec(0u8..3, 0..3),
    )
        .prop_map(|(specs, wpend)| TxCase { ops: resolve(&specs), wpend })
}

#[derive(Debug, Default)]
pub struct TxFacts {
    pub nontrivial: bool,
    pub max_in_one_write: usize,
    pub growth: bool,
    pub exact_fit: bool,
    pub refused: usize,
    pub free_at_start: Vec<usize>,
    pub max_steps: usize,
    pub abandoned_flush_with_queue: usize,
    pub chains: usize,
    pub chain_refused_behind_queue: usize,
    pub chain_unsent: usize,
}

/// Expected transport writes for a history, and facts about it (from the aiming model).
pub fn expected_writes(case: &TxCase) -> (Vec<Vec<u8>>, Vec<bool>, TxFacts) {
    let mut writes = Vec::new();
    let mut queue: Vec<u8> = Vec::new();
    let mut accept = Vec::new();
    let mut model = BufModel::default();
    let mut facts = TxFacts::default();
    // per pending write: messages, growth/exact/refusal seen
    let (mut in_write, mut special) = (0usize, false);
    // a chain is, on the wire, its accepted calls enqueued in order plus (if sent) one flush
    let mut flat: Vec<(TxOp, bool)> = Vec::new(); // (primitive op, contributes an entry to `accept`)
    for op in &case.ops {
        match op {
            TxOp::Chain { items, send } => {
                facts.chains += 1;
                if !*send && items.iter().all(|m| !m.is_refused()) {
                    facts.chain_unsent += 1;
                }
                for m in items {
                    flat.push((TxOp::Msg { msg: m.clone(), op: SendOp::Enqueue }, false));
                }
                if *send {
                    flat.push((TxOp::Flush, false));
                }
                accept.push(items.iter().all(|m| !m.is_refused()));
            }
            other => flat.push((other.clone(), true)),
        }
    }
    let mut accept_out = Vec::new();
    let mut chain_accept = accept.into_iter();
    let mut accept: Vec<bool> = Vec::new();
    for (op, counted) in &flat {
        let before = accept.len();
        match op {
            TxOp::Chain { .. } => unreachable!(),
            TxOp::Flush => {
                accept.push(true);
                if !queue.is_empty() {
                    writes.push(std::mem::take(&mut queue));
                    facts.max_in_one_write = facts.max_in_one_write.max(in_write);
                    if in_write >= 2 && special {
                        facts.nontrivial = true;
                    }
                }
                in_write = 0;
                special = false;
                model.flush();
            }
            TxOp::FlushAbandoned { .. } => {
                accept.push(true);
                if in_write >= 1 {
                    facts.abandoned_flush_with_queue += 1;
                }
            }
            TxOp::Msg { msg, op } => match msg.expected() {
                None => {
                    accept.push(false);
                    facts.refused += 1;
                    if in_write >= 1 {
                        special = true;
                    }
                }
                Some(bytes) => {
                    accept.push(true);
                    facts.free_at_start.push(model.free());
                    let (steps, exact) = model.enqueue(bytes.len());
                    facts.max_steps = facts.max_steps.max(steps);
                    if steps > 0 {
                        facts.growth = true;
                        special = true;
                    }
                    if exact {
                        facts.exact_fit = true;
                        special = true;
                    }
                    queue.extend_from_slice(&bytes);
                    queue.push(0);
                    in_write += 1;
                    if *op != SendOp::Enqueue {
                        writes.push(std::mem::take(&mut queue));
                        facts.max_in_one_write = facts.max_in_one_write.max(in_write);
                        if in_write >= 2 && special {
                            facts.nontrivial = true;
                        }
                        in_write = 0;
                        special = false;
                        model.flush();
                    }
                }
            },
        }
        let _ = before;
        let verdict = accept.pop().unwrap();
        if *counted {
            accept_out.push(verdict);
        } else if !verdict && in_write >= 1 {
            facts.chain_refused_behind_queue += 1;
        }
    }
    // interleave: the per-op verdicts in the order of `case.ops`
    let mut merged = Vec::with_capacity(case.ops.len());
    let mut plain = accept_out.into_iter();
    for op in &case.ops {
        match op {
            TxOp::Chain { .. } => merged.push(chain_accept.next().unwrap()),
            _ => merged.push(plain.next().unwrap()),
        }
    }
    (writes, merged, facts)
}

pub fn run_case(case: &TxCase) -> (Vec<Vec<u8>>, Vec<Result<(), String>>) {
    let (sock, handle) = SimSocket::new();
    if !case.wpend.is_empty() {
        let mut w = handle.write.borrow_mut();
        for i in 0..case.ops.len() + 1 {
            w.pending_script.push_back(case.wpend[i % case.wpend.len()] as u32);
        }
    }
    let mut conn = Connection::new(sock);
    let mut results = Vec::new();
    for op in &case.ops {
        let r = match op {
            TxOp::Chain { items, send } => {
                let mut state = Some(ChainState::Start(&mut conn));
                let mut r = Ok(());
                for m in items {
                    match m.chain_step(state.take().unwrap()) {
                        Ok(ch) => state = Some(ChainState::Going(ch)),
                        Err(e) => {
                            r = Err(e);
                            break;
                        }
                    }
                }
                match (state, *send) {
                    (Some(ChainState::Going(ch)), true) => match run_until_ready(ch.send(), 16) {
                        Some(Ok(_stream)) => Some(r),
                        Some(Err(e)) => Some(Err(e)),
                        None => None,
                    },
                    _ => Some(r),
                }
            }
            TxOp::Flush => run_until_ready(conn.flush(), 16),
            TxOp::FlushAbandoned { polls } => {
                handle.write.borrow_mut().pending_script.push_front(1_000_000);
                let r = {
                    let wc = conn.write_mut();
                    let fut = wc.flush();
                    let mut fut = std::pin::pin!(fut);
                    let mut r = None;
                    for _ in 0..(*polls).max(1) {
                        if let std::task::Poll::Ready(x) = vcommon::exec::poll_once(fut.as_mut()) {
                            r = Some(x);
                            break;
                        }
                    }
                    // the future is dropped here, completed or not
                    r.or(Some(Ok(())))
                };
                handle.write.borrow_mut().pending_script.pop_front();
                r
            }
            TxOp::Msg { msg, op } => run_until_ready(msg.submit(conn.write_mut(), *op), 16),
        };
        results.push(match r {
            Some(Ok(())) => Ok(()),
            Some(Err(e)) => Err(format!("{e:?}")),
            None => Err("pending".into()),
        });
    }
    (handle.writes(), results)
}

fn first_diff(a: &[u8], b: &[u8]) -> usize {
    a.iter().zip(b).position(|(x, y)| x != y).unwrap_or(a.len().min(b.len()))
}

pub fn check_case(case: &TxCase, stats: &mut Stats) -> CaseResult {
    let (expected, accept, facts) = expected_writes(case);
    if facts.nontrivial {
        stats.nontrivial_hash(hash_of(&case.ops));
        stats.class("nontrivial");
    }
    if facts.growth {
        stats.class("growth");
    }
    if facts.exact_fit {
        stats.class("exact-fit");
    }
    if facts.refused > 0 {
        stats.class("has-refused");
    }
    if facts.max_in_one_write >= 2 {
        stats.class("batched-write");
    }
    if facts.max_steps >= 3 {
        stats.class("message-spans>=3-steps");
    }
    if facts.chains > 0 {
        stats.class("has-chain");
    }
    if facts.chain_refused_behind_queue > 0 {
        stats.class("chain-call-refused-behind-enqueued-messages");
    }
    if facts.chain_unsent > 0 {
        stats.class("chain-built-and-dropped-unsent");
    }
    if facts.abandoned_flush_with_queue > 0 {
        stats.class("flush-abandoned-with-messages-enqueued");
    }
    for f in &facts.free_at_start {
        if *f <= 600 {
            stats.cover("free_space_at_message_start_0..=600", *f as u64);
        }
    }
    stats.sample(|| sample_of(case));
    let (writes, results) = run_case(case);
    for (i, (r, ok)) in results.iter().zip(&accept).enumerate() {
        match (r, ok) {
            (Ok(()), true) | (Err(_), false) => {}
            (Ok(()), false) => {
                return Err(Fail::new(
                    "tx-refused-message-accepted",
                    format!("op {i} {:?}: a message that must be refused was accepted", case.ops[i]),
                ))
            }
            (Err(e), true) => {
                return Err(Fail::new(
                    "tx-valid-message-rejected",
                    format!("op {i} {:?}: failed with {e}", brief_op(&case.ops[i])),
                ))
            }
        }
    }
    if writes == expected {
        return Ok(());
    }
    let (wa, ea) = (writes.concat(), expected.concat());
    if wa == ea {
        return Err(Fail::new(
            "tx-write-boundaries",
            format!(
                "bytes are right but split differently across transport writes: {} writes of {:?} bytes, expected {} of {:?}",
                writes.len(),
                writes.iter().map(Vec::len).collect::<Vec<_>>(),
                expected.len(),
                expected.iter().map(Vec::len).collect::<Vec<_>>()
            ),
        ));
    }
    let d = first_diff(&wa, &ea);
    let lo = d.saturating_sub(24);
    Err(Fail::new(
        "tx-bytes",
        format!(
            "transport bytes differ at offset {d} (got {} bytes, expected {}): got …{}… expected …{}…",
            wa.len(),
            ea.len(),
            show_bytes(&wa[lo.min(wa.len())..(d + 24).min(wa.len())]),
            show_bytes(&ea[lo.min(ea.len())..(d + 24).min(ea.len())]),
        ),
    ))
}

fn brief_op(op: &TxOp) -> String {
    format!("{op:?}")
}

fn sample_of(case: &TxCase) -> serde_json::Value {
    let ops: Vec<String> = case
        .ops
        .iter()
        .map(|o| match o {
            TxOp::Flush => "flush".to_string(),
            TxOp::FlushAbandoned { polls } => format!("flush(abandoned after {polls} polls)"),
            TxOp::Chain { items, send } => format!(
                "chain[{}]{}",
                items
                    .iter()
                    .map(|m| match m {
                        Msg::Ok { kind, .. } => format!("{kind:?} len={}", m.encoded_len().unwrap_or(0)),
                        Msg::Refused { kind, pad } => format!("REFUSED {kind:?} pad={pad}"),
                    })
                    .collect::<Vec<_>>()
                    .join(", "),
                if *send { ".send()" } else { " dropped unsent" }
            ),
            TxOp::Msg { msg, op } => match msg {
                Msg::Ok { kind, pad, .. } => format!("{op:?}({kind:?}, len={})", msg.encoded_len().unwrap_or(0) + 0 * pad),
                Msg::Refused { kind, pad } => format!("{op:?}(REFUSED {kind:?}, pad={pad})"),
            },
        })
        .collect();
    json!({"ops": ops, "wpend": case.wpend})
}

/// Directed sweep: for every free-space value f and paddable kind, a history that leaves exactly
/// f bytes free and then submits a second message (small / exact fit / spanning two steps).
fn sweep_cases() -> Vec<TxCase> {
    let mut v = Vec::new();
    let paddable: Vec<MsgKind> = MSG_KINDS.iter().copied().filter(|k| Msg::paddable(*k)).collect();
    for f in 0usize..=600 {
        for (ki, kind) in paddable.iter().enumerate() {
            for second in 0..3 {
                let mut specs = vec![
                    // grow the buffer to 1280 bytes, then flush
                    OpSpec { flush: 0, kind: 0, opsel: 1, flags: 0, size: SizeSpec::Any(1100), refused: None },
                    OpSpec { flush: 1, kind: 0, opsel: 0, flags: 0, size: SizeSpec::Small(0), refused: None },
                    OpSpec {
                        flush: 0,
                        kind: MSG_KINDS.iter().position(|k| k == kind).unwrap(),
                        opsel: 1,
                        flags: (f + ki) as u8 & 0x1b,
                        size: SizeSpec::LeaveFree(f),
                        refused: None,
                    },
                ];
                let size = match second {
                    0 => SizeSpec::Small(f % 7),
                    1 => SizeSpec::ExactFit,
                    _ => SizeSpec::Span(2, (f % 5) as i32 - 2),
                };
                specs.push(OpSpec {
                    flush: 0,
                    kind: MSG_KINDS.iter().position(|k| *k == paddable[(ki + 1) % paddable.len()]).unwrap(),
                    opsel: 1,
                    flags: 0,
                    size,
                    refused: None,
                });
                if f % 3 == 0 {
                    specs.insert(3, OpSpec { flush: 0, kind: 0, opsel: (f % 4) as u8, flags: 0, size: SizeSpec::Small(f % 300), refused: Some(f % REFUSED_KINDS.len()) });
                }
                specs.push(OpSpec { flush: 1, kind: 0, opsel: 0, flags: 0, size: SizeSpec::Small(0), refused: None });
                // all enqueued: make the calls enqueue (opsel=1 -> Enqueue for call kinds)
                v.push(TxCase { ops: resolve(&specs), wpend: vec![] });
            }
        }
    }
    v
}

pub fn run(ctx: &Ctx) -> i32 {
    let (shards, cases) = ctx.tier.pick((16, 6000), (64, 20_000));
    let (mut stats, mut viol) = run_shards(ctx, "random", shards, cases, case_strategy, check_case);
    let sweep = sweep_cases();
    let (s2, v2) = par_enumerate(ctx, "free-space-sweep", sweep.len() as u64, |i, stats| {
        let case = &sweep[i as usize];
        stats.eval();
        stats.class("sweep-case");
        match check_case(case, stats) {
            Ok(()) => vec![],
            Err(f) => vec![(f, serde_json::to_value(case).unwrap())],
        }
    });
    stats.merge(s2);
    viol.extend(v2);
    crate::fuzzrun::golden("tx_hist", &mut stats, &mut viol);
    if ctx.tier == vcommon::ev::Tier::Thorough {
        let seeds: Vec<Vec<u8>> = (0..32u8).map(|i| (0..(8 + i as usize * 7)).map(|k| (k as u8).wrapping_mul(29).wrapping_add(i.wrapping_mul(13))).collect()).collect();
        crate::fuzzrun::campaign(ctx, "tx_hist", crate::fuzzrun::fuzz_secs(180), &seeds, &mut stats, &mut viol);
    }
    Report::new(RULE)
        .assume("reference encoding of a message = serde_json::to_vec of the same value (agreement of the built-in serializer with serde_json is C03's subject)")
        .assume("the buffer model (256-byte steps) is used only to aim sizes and classify cases, never to judge")
        .finish(ctx, &stats, &viol, &[])
}

pub fn replay(_lane: &str, case: serde_json::Value) -> CaseResult {
    if _lane == "fuzz" {
        return crate::fuzzrun::replay(&case);
    }
    let case: TxCase = serde_json::from_value(case).map_err(|e| Fail::new("bad-replay", e.to_string()))?;
    println!("{}", truncate(&sample_of(&case).to_string(), 2000));
    check_case(&case, &mut Stats::default())
}
