//! C14 — rendering an interface description and parsing it back is the identity.

use proptest::prelude::*;
use serde::{Deserialize, Serialize};
use serde_json::json;
use vcommon::{
    drv::{run_shards, CaseResult, Fail},
    ev::{hash_of, load_known, truncate, Ctx, Known, Report, Stats, Violation},
    exec::run_until_ready,
    idl::*,
    sim::{ReadEv, SimSocket},
};
use zlink_core::{
    idl as z,
    varlink_service::{self, InterfaceDescription},
    Connection, Reply,
};

pub const RULE: &str = "case = an interface tree (0..6 members, every type constructor to depth 4 \
incl. empty lists, comments on the interface, members, direct fields / parameters / variants; \
comment text without line break or leading blank) turned into a zlink description through the \
public constructors in the owned form (new_owned / List::from) or the borrowed form (const `new` \
with slices of references), or produced by the parser from a randomly laid out text. Oracle: \
parse(render(x)) read back through the public accessors deep-equals the tree (comments included) \
and equals x by the library's ==; render(parse(render(x))) == render(x); and the full \
GetInterfaceDescription exchange - InterfaceDescription::from(&x) sent with send_reply over a \
loop-back transport, received with receive_reply::<InterfaceDescription, Error> and .parse()d - \
yields the same tree; for the borrowed form additionally with every library piece in place: the \
proxy's get_interface_description writes the call, Server::run decodes it with varlink_service::Method \
and a service answers with varlink_service::Reply::InterfaceDescription, the reply reaches the proxy \
method in two pieces. The standard org.varlink.service description is included. Non-trivial = a \
comment below interface level or type depth >= 2; distinct by hash of (tree, form).";

const SIG_KNOWN: &str = "enum-variant-comment-render";

pub const CFG: GenCfg = GenCfg { max_members: 6, max_depth: 4, comments: true, inline_comments: false, empty_inline_struct: true };

#[derive(Debug, Clone, Copy, PartialEq, Eq, Hash, Serialize, Deserialize)]
pub enum Form {
    Owned,
    Borrowed,
    Parsed,
}

#[derive(Debug, Clone, Serialize, Deserialize)]
pub struct Case {
    pub iface: Iface,
    pub form: Form,
    pub layout: Layout,
}

// ---------------------------------------------------------------------------------------------
// building zlink descriptions from the tree

fn comments_owned<'a>(c: &'a [String]) -> Vec<z::Comment<'a>> {
    c.iter().map(|s| z::Comment::new(s)).collect()
}

fn ty_owned<'a>(t: &'a Ty) -> z::Type<'a> {
    match t {
        Ty::Bool => z::Type::Bool,
        Ty::Int => z::Type::Int,
        Ty::Float => z::Type::Float,
        Ty::Str => z::Type::String,
        Ty::Object => z::Type::ForeignObject,
        Ty::Custom(n) => z::Type::Custom(n),
        Ty::Opt(t) => z::Type::Optional(z::TypeRef::new_owned(ty_owned(t))),
        Ty::Arr(t) => z::Type::Array(z::TypeRef::new_owned(ty_owned(t))),
        Ty::Map(t) => z::Type::Map(z::TypeRef::new_owned(ty_owned(t))),
        Ty::Struct(f) => z::Type::Object(z::List::from(f.iter().map(fld_owned).collect::<Vec<_>>())),
        Ty::Enum(v) => z::Type::Enum(z::List::from(v.iter().map(var_owned).collect::<Vec<_>>())),
    }
}

fn fld_owned<'a>(f: &'a Fld) -> z::Field<'a> {
    z::Field::new_owned(&f.name, ty_owned(&f.ty), comments_owned(&f.comments))
}

fn var_owned<'a>(v: &'a Var) -> z::EnumVariant<'a> {
    z::EnumVariant::new_owned(&v.name, comments_owned(&v.comments))
}

pub fn build_owned(t: &Iface) -> z::Interface<'_> {
    let mut methods = Vec::new();
    let mut types = Vec::new();
    let mut errors = Vec::new();
    for m in &t.members {
        match m {
            Member::Type { name, body: Body::Struct(f), comments } => {
                types.push(z::CustomType::from(z::CustomObject::new_owned(name, f.iter().map(fld_owned).collect(), comments_owned(comments))))
            }
            Member::Type { name, body: Body::Enum(v), comments } => {
                types.push(z::CustomType::from(z::CustomEnum::new_owned(name, v.iter().map(var_owned).collect(), comments_owned(comments))))
            }
            Member::Method { name, inputs, outputs, comments } => methods.push(z::Method::new_owned(
                name,
                inputs.iter().map(fld_owned).collect(),
                outputs.iter().map(fld_owned).collect(),
                comments_owned(comments),
            )),
            Member::Error { name, fields, comments } => errors.push(z::Error::new_owned(name, fields.iter().map(fld_owned).collect(), comments_owned(comments))),
        }
    }
    z::Interface::new_owned(&t.name, methods, types, errors, comments_owned(&t.comments))
}

fn leak<T>(v: T) -> &'static T {
    Box::leak(Box::new(v))
}
fn leak_slice<T>(v: Vec<&'static T>) -> &'static [&'static T] {
    Box::leak(v.into_boxed_slice())
}
fn leak_str(s: &str) -> &'static str {
    Box::leak(s.to_string().into_boxed_str())
}

fn comments_b(c: &[String]) -> &'static [&'static z::Comment<'static>] {
    leak_slice(c.iter().map(|s| leak(z::Comment::new(leak_str(s)))).collect())
}

fn ty_b(t: &Ty) -> &'static z::Type<'static> {
    leak(match t {
        Ty::Bool => z::Type::Bool,
        Ty::Int => z::Type::Int,
        Ty::Float => z::Type::Float,
        Ty::Str => z::Type::String,
        Ty::Object => z::Type::ForeignObject,
        Ty::Custom(n) => z::Type::Custom(leak_str(n)),
        Ty::Opt(t) => z::Type::Optional(z::TypeRef::new(ty_b(t))),
        Ty::Arr(t) => z::Type::Array(z::TypeRef::new(ty_b(t))),
        Ty::Map(t) => z::Type::Map(z::TypeRef::new(ty_b(t))),
        Ty::Struct(f) => z::Type::Object(z::List::Borrowed(leak_slice(f.iter().map(fld_b).collect()))),
        Ty::Enum(v) => z::Type::Enum(z::List::Borrowed(leak_slice(v.iter().map(var_b).collect()))),
    })
}

fn fld_b(f: &Fld) -> &'static z::Field<'static> {
    leak(z::Field::new(leak_str(&f.name), ty_b(&f.ty), comments_b(&f.comments)))
}

fn var_b(v: &Var) -> &'static z::EnumVariant<'static> {
    leak(z::EnumVariant::new(leak_str(&v.name), comments_b(&v.comments)))
}

/// The borrowed (const-constructible) form. Leaks; used for a bounded number of cases.
pub fn build_borrowed(t: &Iface) -> z::Interface<'static> {
    let mut methods = Vec::new();
    let mut types = Vec::new();
    let mut errors = Vec::new();
    for m in &t.members {
        match m {
            Member::Type { name, body: Body::Struct(f), comments } => types.push(leak(z::CustomType::from(z::CustomObject::new(
                leak_str(name),
                leak_slice(f.iter().map(fld_b).collect()),
                comments_b(comments),
            )))),
            Member::Type { name, body: Body::Enum(v), comments } => types.push(leak(z::CustomType::from(z::CustomEnum::new(
                leak_str(name),
                leak_slice(v.iter().map(var_b).collect()),
                comments_b(comments),
            )))),
            Member::Method { name, inputs, outputs, comments } => methods.push(leak(z::Method::new(
                leak_str(name),
                leak_slice(inputs.iter().map(fld_b).collect()),
                leak_slice(outputs.iter().map(fld_b).collect()),
                comments_b(comments),
            ))),
            Member::Error { name, fields, comments } => {
                errors.push(leak(z::Error::new(leak_str(name), leak_slice(fields.iter().map(fld_b).collect()), comments_b(comments))))
            }
        }
    }
    z::Interface::new(leak_str(&t.name), leak_slice(methods), leak_slice(types), leak_slice(errors), comments_b(&t.comments))
}

// ---------------------------------------------------------------------------------------------

/// The round-trip checks on a description `x` whose tree (grouped per kind) is `want`.
pub fn round_trip(x: &z::Interface<'_>, want: &Iface) -> CaseResult {
    let text = x.to_string();
    let parsed = match z::Interface::try_from(text.as_str()) {
        Ok(p) => p,
        Err(e) => return Err(Fail::new("rendered-text-rejected", format!("render gives {:?}, which the parser rejects: {e}", truncate(&text, 400)))),
    };
    let got = iface_of(&parsed);
    if let Some(d) = first_diff(&got, want) {
        return Err(Fail::new("parse-of-render-differs", format!("rendered {:?}; parsed back differs: {d}", truncate(&text, 400))));
    }
    if &parsed != x {
        return Err(Fail::new("parse-of-render-not-equal-by-library-eq", format!("rendered {:?}: parse(render(x)) != x", truncate(&text, 300))));
    }
    let text2 = parsed.to_string();
    if text2 != text {
        return Err(Fail::new("render-not-a-fixpoint", format!("render(x) = {:?} but render(parse(render(x))) = {:?}", truncate(&text, 300), truncate(&text2, 300))));
    }
    // the GetInterfaceDescription exchange
    let desc = InterfaceDescription::from(x);
    let (sock, handle) = SimSocket::new();
    let mut server_side = Connection::new(sock);
    match run_until_ready(server_side.send_reply(&Reply::new(Some(&desc)).set_continues(Some(false))), 8) {
        Some(Ok(())) => {}
        other => return Err(Fail::new("exchange-send-failed", format!("send_reply(InterfaceDescription) gave {other:?}"))),
    }
    let wire = handle.written();
    let (sock2, _h2) = SimSocket::with_script([ReadEv::Data(wire.clone()), ReadEv::Eof]);
    let mut client = Connection::new(sock2);
    let reply = match run_until_ready(client.receive_reply::<InterfaceDescription<'static>, varlink_service::Error>(), 64) {
        Some(Ok(Ok(r))) => r,
        other => {
            return Err(Fail::new(
                "exchange-receive-failed",
                format!("receiving {:?} gave {:?}", truncate(&String::from_utf8_lossy(&wire), 300), other.map(|r| r.map(|r| r.map(|_| ())))),
            ))
        }
    };
    let Some(d) = reply.parameters() else {
        return Err(Fail::new("exchange-receive-failed", "reply without parameters".to_string()));
    };
    let client_iface = match d.parse() {
        Ok(i) => i,
        Err(e) => return Err(Fail::new("exchange-parse-failed", format!("client-side parse failed: {e}; raw {:?}", d.as_raw().map(|s| truncate(s, 300))))),
    };
    if let Some(diff) = first_diff(&iface_of(&client_iface), want) {
        return Err(Fail::new("exchange-differs", format!("client parsed a different description: {diff}")));
    }
    Ok(())
}

/// A service that answers `org.varlink.service.GetInterfaceDescription` for one interface with the
/// library's own reply type.
struct DescService {
    iface: &'static z::Interface<'static>,
}

impl zlink_core::Service for DescService {
    type MethodCall<'de> = varlink_service::Method<'de>;
    type ReplyParams<'ser> = varlink_service::Reply<'ser>;
    type ReplyStreamParams = ();
    type ReplyStream = futures_util::stream::Empty<Reply<()>>;
    type ReplyError<'ser> = varlink_service::Error;

    async fn handle<'ser>(
        &'ser mut self,
        call: zlink_core::Call<Self::MethodCall<'_>>,
    ) -> zlink_core::service::MethodReply<Self::ReplyParams<'ser>, Self::ReplyStream, Self::ReplyError<'ser>> {
        use zlink_core::service::MethodReply;
        match call.method() {
            varlink_service::Method::GetInterfaceDescription { interface } if *interface == self.iface.name() => {
                MethodReply::Single(Some(varlink_service::Reply::InterfaceDescription(InterfaceDescription::from(self.iface))))
            }
            varlink_service::Method::GetInterfaceDescription { interface } => {
                MethodReply::Error(varlink_service::Error::InterfaceNotFound { interface: interface.to_string() })
            }
            varlink_service::Method::GetInfo => MethodReply::Error(varlink_service::Error::MethodNotImplemented { method: "org.varlink.service.GetInfo".into() }),
        }
    }
}

/// The standard exchange with every library piece in place: the client's proxy method writes the
/// call, `Server::run` decodes it with the library's method type and lets a service answer with
/// the library's reply type, the reply bytes reach the client's proxy method in two pieces, and what
/// the client parses must be the tree the service described.
pub fn exchange_via_server(x: &'static z::Interface<'static>, want: &Iface) -> CaseResult {
    use varlink_service::Proxy;
    use vcommon::{exec::poll_once, sim::SimListener};
    let name = x.name().to_string();
    // 1. the call as the proxy writes it
    let (sock, h) = SimSocket::new();
    let mut probe = Connection::new(sock);
    {
        let fut = probe.get_interface_description(&name);
        let mut fut = std::pin::pin!(fut);
        let _ = poll_once(fut.as_mut());
    }
    let call_bytes = h.written();
    if call_bytes.is_empty() {
        return Err(Fail::new("exchange-call-not-sent", "the proxy method wrote nothing".to_string()));
    }
    // 2. through the server
    let listener = SimListener::new();
    let sh = listener.connect();
    sh.push_data(&call_bytes);
    let server = zlink_core::Server::new(listener.clone(), DescService { iface: x });
    let reply_bytes = {
        let mut fut = Box::pin(server.run());
        for _ in 0..16 {
            if let std::task::Poll::Ready(r) = poll_once(fut.as_mut()) {
                return Err(Fail::new("exchange-server-stopped", format!("Server::run returned {r:?}")));
            }
        }
        sh.written()
    };
    if reply_bytes.is_empty() {
        return Err(Fail::new("exchange-no-reply", format!("the server wrote nothing for {:?}", String::from_utf8_lossy(&call_bytes))));
    }
    // 3. back to the client's proxy method, in two pieces
    let cut = reply_bytes.len() / 2;
    let (sock2, _h2) = SimSocket::with_script([ReadEv::Data(reply_bytes[..cut].to_vec()), ReadEv::Pending, ReadEv::Data(reply_bytes[cut..].to_vec())]);
    let mut client = Connection::new(sock2);
    let desc = match run_until_ready(client.get_interface_description(&name), 64) {
        Some(Ok(Ok(d))) => d,
        other => {
            return Err(Fail::new(
                "exchange-receive-failed",
                format!("the proxy method gave {:?} for the server's reply {:?}", other.map(|r| r.map(|r| r.map(|_| ()))), truncate(&String::from_utf8_lossy(&reply_bytes), 300)),
            ))
        }
    };
    let parsed = desc.parse().map_err(|e| Fail::new("exchange-parse-failed", format!("client-side parse failed: {e}; raw {:?}", desc.as_raw().map(|s| truncate(s, 300)))))?;
    if let Some(diff) = first_diff(&iface_of(&parsed), want) {
        return Err(Fail::new("exchange-differs", format!("through Server::run and the proxy the client parsed a different description: {diff}")));
    }
    Ok(())
}

/// Does the tree contain an enum (custom or inline) with >= 2 variants of which one is commented?
pub fn known_trigger(t: &Iface) -> bool {
    fn vs(v: &[Var]) -> bool {
        v.len() >= 2 && v.iter().any(|v| !v.comments.is_empty())
    }
    fn ty(t: &Ty) -> bool {
        match t {
            Ty::Opt(t) | Ty::Arr(t) | Ty::Map(t) => ty(t),
            Ty::Struct(f) => f.iter().any(|f| ty(&f.ty)),
            Ty::Enum(v) => vs(v),
            _ => false,
        }
    }
    t.members.iter().any(|m| match m {
        Member::Type { body: Body::Enum(v), .. } => vs(v),
        Member::Type { body: Body::Struct(f), .. } => f.iter().any(|f| ty(&f.ty)),
        Member::Method { inputs, outputs, .. } => inputs.iter().chain(outputs).any(|f| ty(&f.ty)),
        Member::Error { fields, .. } => fields.iter().any(|f| ty(&f.ty)),
    })
}

fn check_tree(tree: &Iface, form: Form, layout: &Layout) -> CaseResult {
    let want = tree.grouped();
    match form {
        Form::Owned => round_trip(&build_owned(tree), &want),
        Form::Borrowed => {
            let x: &'static z::Interface<'static> = Box::leak(Box::new(build_borrowed(tree)));
            round_trip(x, &want)?;
            exchange_via_server(x, &want)
        }
        Form::Parsed => {
            let text = render(tree, layout);
            let p = z::Interface::try_from(text.as_str()).map_err(|e| Fail::new("valid-text-rejected", format!("{:?}: {e}", truncate(&text, 300))))?;
            // the parser's own output is the value under test; its tree is the reference
            let want = iface_of(&p);
            round_trip(&p, &want)
        }
    }
}

pub fn check_case(c: &Case, stats: &mut Stats) -> CaseResult {
    let d = c.iface.depth();
    if d >= 2 || c.iface.has_comment_below_interface() {
        stats.nontrivial_hash(hash_of(&(&c.iface, c.form)));
    }
    if d >= 2 {
        stats.class("depth>=2");
    }
    if c.iface.has_comment_below_interface() {
        stats.class("comment-below-interface-level");
    }
    stats.class(match c.form {
        Form::Owned => "form:owned",
        Form::Borrowed => "form:borrowed",
        Form::Parsed => "form:parser-output",
    });
    stats.sample(|| json!({"form": format!("{:?}", c.form), "text": truncate(&render(&c.iface, &Layout(vec![])), 300)}));
    if known_trigger(&c.iface) {
        // Known finding lane: the failure must disappear once the variant comments are removed.
        match check_tree(&c.iface, c.form, &c.layout) {
            Ok(()) => {
                stats.class("known-trigger-but-passed");
                Ok(())
            }
            Err(first) => {
                let stripped = strip_enum_variant_comments(&c.iface);
                match check_tree(&stripped, c.form, &c.layout) {
                    Ok(()) if first.sig == "rendered-text-rejected" || first.sig == "valid-text-rejected" || first.sig == "exchange-parse-failed" => {
                        stats.excluded(SIG_KNOWN);
                        Ok(())
                    }
                    Ok(()) => Err(first),
                    Err(f) => Err(f),
                }
            }
        }
    } else {
        check_tree(&c.iface, c.form, &c.layout)
    }
}

/// Remove the comments of enum variants (custom and inline enums).
pub fn strip_enum_variant_comments(t: &Iface) -> Iface {
    fn ty(t: &mut Ty) {
        match t {
            Ty::Opt(t) | Ty::Arr(t) | Ty::Map(t) => ty(t),
            Ty::Struct(f) => f.iter_mut().for_each(|f| ty(&mut f.ty)),
            Ty::Enum(v) => v.iter_mut().for_each(|v| v.comments.clear()),
            _ => {}
        }
    }
    let mut t = t.clone();
    for m in &mut t.members {
        match m {
            Member::Type { body: Body::Enum(v), .. } => v.iter_mut().for_each(|v| v.comments.clear()),
            Member::Type { body: Body::Struct(f), .. } => f.iter_mut().for_each(|f| ty(&mut f.ty)),
            Member::Method { inputs, outputs, .. } => inputs.iter_mut().chain(outputs.iter_mut()).for_each(|f| ty(&mut f.ty)),
            Member::Error { fields, .. } => fields.iter_mut().for_each(|f| ty(&mut f.ty)),
        }
    }
    t
}

/// Witness of the known finding.
pub fn witness() -> Option<String> {
    let tree = Iface {
        name: "org.example.w".into(),
        comments: vec![],
        members: vec![Member::Type {
            name: "Color".into(),
            body: Body::Enum(vec![Var { name: "red".into(), comments: vec!["warm".into()] }, Var { name: "blue".into(), comments: vec![] }]),
            comments: vec![],
        }],
    };
    let x = build_owned(&tree);
    let text = x.to_string();
    match z::Interface::try_from(text.as_str()) {
        Err(e) => Some(format!("a custom enum with a commented variant renders as {text:?} (no separators), which the parser rejects: {e}")),
        Ok(_) => None,
    }
}

/// `borrowed`: also build descriptions from leaked `'static` slices (not used by the fuzz target,
/// where the leak would accumulate over millions of executions).
pub fn case_strategy(borrowed: bool) -> impl Strategy<Value = Case> {
    (iface_strategy(CFG), prop_oneof![4 => Just(Form::Owned), 1 => Just(Form::Borrowed), 3 => Just(Form::Parsed)], layout_strategy())
        .prop_map(move |(iface, form, layout)| Case { iface, form: if !borrowed && matches!(form, Form::Borrowed) { Form::Owned } else { form }, layout })
}

pub fn run(ctx: &Ctx) -> i32 {
    let known: Vec<Known> = load_known("C14");
    let listed = known.iter().find(|k| k.sig == SIG_KNOWN).cloned();
    let mut hits = Vec::new();
    let mut viol = Vec::new();
    let w = witness();
    match (&listed, &w) {
        (Some(k), Some(what)) => hits.push((k.clone(), what.clone())),
        (None, Some(what)) => viol.push(Violation { sig: SIG_KNOWN.into(), lane: "witness".into(), case: json!({}), message: what.clone() }),
        _ => {}
    }
    let (shards, cases) = ctx.tier.pick((16, 3200), (64, 12_000));
    let (mut stats, v1) = run_shards(ctx, "random", shards, cases, || case_strategy(true), check_case);
    viol.extend(v1);
    // the library's own description of org.varlink.service
    stats.eval();
    let std_tree = iface_of(varlink_service::DESCRIPTION);
    if let Err(f) = round_trip(varlink_service::DESCRIPTION, &std_tree) {
        viol.push(Violation { sig: f.sig, lane: "standard-description".into(), case: json!({}), message: f.message });
    }
    Report::new(RULE)
        .assume("comment text is 'legal': no line break, no leading blank, no carriage return (the parser strips the blanks after '#', the renderer writes '# ' + text)")
        .assume("comments on fields / variants of inline types are not generated (the statement lists interface, members and their direct fields, parameters and variants)")
        .extra("witness_reproduced", json!(w.is_some()))
        .finish(ctx, &stats, &viol, &hits)
}

pub fn replay(lane: &str, case: serde_json::Value) -> CaseResult {
    if lane == "witness" {
        return match witness() {
            Some(w) => Err(Fail::new(SIG_KNOWN, w)),
            None => Ok(()),
        };
    }
    if lane == "standard-description" {
        return round_trip(varlink_service::DESCRIPTION, &iface_of(varlink_service::DESCRIPTION));
    }
    let c: Case = serde_json::from_value(case).map_err(|e| Fail::new("bad-replay", e.to_string()))?;
    println!("form {:?}; canonical text:\n{}", c.form, render(&c.iface, &Layout(vec![])));
    if c.form != Form::Parsed {
        println!("zlink renders:\n{}", build_owned(&c.iface));
    }
    let mut stats = Stats::default();
    check_case(&c, &mut stats)
}
