//! `vcheck <Cnn> [--tier quick|thorough] [--seed N] [--replay <file>]`
//!
//! Exit codes: 0 = property held on everything explored, 1 = violation (a `VIOLATION` line was
//! printed), 2 = inconclusive / usage / infrastructure problem.

use std::path::PathBuf;

use vcheck::{c01, c02, c03, c04, c05, c06, c07, c08, c09, c10, c11, c12, c13, c14, c15, c16, c17, c18, c19, c20};
use vcommon::ev::{Ctx, Tier};

#[global_allocator]
static ALLOC: vcommon::alloc::VerifAlloc = vcommon::alloc::VerifAlloc;


struct PropDef {
    id: &'static str,
    level: &'static str,
    run: fn(&Ctx) -> i32,
    replay: fn(&str, serde_json::Value) -> Result<(), vcommon::drv::Fail>,
}

const PROPS: &[PropDef] = &[PropDef {
    id: "C01",
    level: "exploration",
    run: c01::run,
    replay: c01::replay,
}, PropDef {
    id: "C02",
    level: "exploration",
    run: c02::run,
    replay: c02::replay,
}, PropDef {
    id: "C03",
    level: "exploration",
    run: c03::run,
    replay: c03::replay,
}, PropDef {
    id: "C04",
    level: "exploration",
    run: c04::run,
    replay: c04::replay,
}, PropDef {
    id: "C05",
    level: "exploration",
    run: c05::run,
    replay: c05::replay,
}, PropDef {
    id: "C06",
    level: "exploration",
    run: c06::run,
    replay: c06::replay,
}, PropDef {
    id: "C07",
    level: "exploration",
    run: c07::run,
    replay: c07::replay,
}, PropDef {
    id: "C08",
    level: "exploration",
    run: c08::run,
    replay: c08::replay,
}, PropDef {
    id: "C09",
    level: "fault_enumeration",
    run: c09::run,
    replay: c09::replay,
}, PropDef {
    id: "C10",
    level: "exploration",
    run: c10::run,
    replay: c10::replay,
}, PropDef {
    id: "C11",
    level: "exploration",
    run: c11::run,
    replay: c11::replay,
}, PropDef {
    id: "C12",
    level: "exploration",
    run: c12::run,
    replay: c12::replay,
}, PropDef {
    id: "C13",
    level: "exploration",
    run: c13::run,
    replay: c13::replay,
}, PropDef {
    id: "C14",
    level: "exploration",
    run: c14::run,
    replay: c14::replay,
}, PropDef {
    id: "C15",
    level: "exploration",
    run: c15::run,
    replay: c15::replay,
}, PropDef {
    id: "C16",
    level: "exploration",
    run: c16::run,
    replay: c16::replay,
}, PropDef {
    id: "C17",
    level: "exploration",
    run: c17::run,
    replay: c17::replay,
}, PropDef {
    id: "C18",
    level: "exploration",
    run: c18::run,
    replay: c18::replay,
}, PropDef {
    id: "C19",
    level: "exploration",
    run: c19::run,
    replay: c19::replay,
}, PropDef {
    id: "C20",
    level: "exploration",
    run: c20::run,
    replay: c20::replay,
}];

fn main() {
    let args: Vec<String> = std::env::args().skip(1).collect();
    let mut prop = None;
    let mut tier = match std::env::var("VERIF_TIER").as_deref() {
        Ok("thorough") => Tier::Thorough,
        _ => Tier::Quick,
    };
    let mut seed: u64 = std::env::var("VERIF_SEED")
        .ok()
        .and_then(|s| s.trim().parse::<i128>().ok())
        .map(|v| v as u64)
        .unwrap_or(0);
    let mut replay: Option<PathBuf> = None;
    let mut i = 0;
    while i < args.len() {
        match args[i].as_str() {
            "--tier" => {
                i += 1;
                tier = match args.get(i).map(String::as_str) {
                    Some("quick") => Tier::Quick,
                    Some("thorough") => Tier::Thorough,
                    other => usage(&format!("bad tier {other:?}")),
                };
            }
            "quick" => tier = Tier::Quick,
            "thorough" => tier = Tier::Thorough,
            "--seed" => {
                i += 1;
                seed = args
                    .get(i)
                    .and_then(|s| s.parse().ok())
                    .unwrap_or_else(|| usage("bad seed"));
            }
            "--replay" => {
                i += 1;
                replay = Some(PathBuf::from(
                    args.get(i).unwrap_or_else(|| usage("missing replay path")),
                ));
            }
            p if prop.is_none() && !p.starts_with('-') => prop = Some(p.to_string()),
            other => usage(&format!("unexpected argument {other}")),
        }
        i += 1;
    }
    vcommon::drv::install_quiet_panic_hook();
    if prop.as_deref() == Some("fuzz-selftest") {
        std::process::exit(vcheck::fuzzdec::selftest());
    }

    if let Some(path) = replay {
        let text = std::fs::read_to_string(&path).unwrap_or_else(|e| usage(&format!("{e}")));
        let v: serde_json::Value =
            serde_json::from_str(&text).unwrap_or_else(|e| usage(&format!("{e}")));
        let pid = prop
            .clone()
            .or_else(|| v["property"].as_str().map(String::from))
            .unwrap_or_else(|| usage("replay file has no property"));
        let def = PROPS
            .iter()
            .find(|p| p.id == pid)
            .unwrap_or_else(|| usage(&format!("unknown property {pid}")));
        let lane = v["lane"].as_str().unwrap_or("").to_string();
        let case = v["case"].clone();
        let r = std::panic::catch_unwind(|| (def.replay)(&lane, case));
        match r {
            Ok(Ok(())) => {
                println!("replay {}: property {} holds on this case", path.display(), pid);
                std::process::exit(0);
            }
            Ok(Err(f)) => {
                println!("replay {}: {} [{}]", path.display(), f.message, f.sig);
                println!("VIOLATION property={} replay={}", pid, path.display());
                std::process::exit(1);
            }
            Err(_) => {
                let what = vcommon::drv::take_last_panic().unwrap_or_default();
                println!("replay {}: panic: {what}", path.display());
                println!("VIOLATION property={} replay={}", pid, path.display());
                std::process::exit(1);
            }
        }
    }

    let pid = prop.unwrap_or_else(|| usage("missing property id"));
    let def = PROPS
        .iter()
        .find(|p| p.id == pid)
        .unwrap_or_else(|| usage(&format!("unknown property {pid}")));
    let ctx = Ctx::new(def.id, def.level, tier, seed);
    let code = match std::panic::catch_unwind(|| (def.run)(&ctx)) {
        Ok(code) => code,
        Err(_) => {
            let what = vcommon::drv::take_last_panic().unwrap_or_default();
            eprintln!("vcheck: the check itself crashed (inconclusive): {what}");
            2
        }
    };
    std::process::exit(code);
}

fn usage(msg: &str) -> ! {
    eprintln!("vcheck: {msg}");
    eprintln!("usage: vcheck <Cnn> [quick|thorough] [--seed N] [--replay <file>]");
    std::process::exit(2);
}
