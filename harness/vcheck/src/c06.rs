//! C06 — a chain's reply stream yields exactly the replies its calls are owed.

use std::{pin::Pin, task::Poll};

use proptest::prelude::*;
use serde::{Deserialize, Serialize};
use serde_json::json;
use vcommon::{
    drv::{par_enumerate, run_shards, CaseResult, Fail},
    ev::{hash_of, show_bytes, truncate, Ctx, Report, Stats},
    exec::{poll_next_once, run_until_ready},
    frames::{chunk_plan_strategy, resolve_cuts, split_at_cuts, ChunkPlan},
    rx::{classify_reply, ref_reply, Outcome},
    sim::{ReadEv, SimSocket},
    types::{ErrA, MethodA, OptParams},
};
use zlink_core::{Call, Connection};

pub const RULE: &str = "case = chain of 1..6 calls over {plain, oneway, more} + a conforming server \
script per non-oneway call (plain: success or declared error; more: k in 0..=3 replies with \
continues:true, then a final success with continues false/absent or an error) + 0..2 trailing \
frames that belong to a later exchange + a chunking of the reply bytes + a Pending schedule; the \
transport then stays open and silent. Oracle: (1) exactly one transport write = concatenation of \
serde_json encodings of the calls, each + NUL; (2) the stream yields exactly the owed frames, each \
classified as the reference decode classifies it, then None; (3) afterwards receive_reply returns \
the trailing frames in order, then waits; (4) the final None is returned without polling the \
transport and the stream never stays Pending once its owed replies were delivered. All flag \
sequences up to length 4 x 3 script families x 6 chunkings are enumerated. Non-trivial = the chain \
has a oneway call or a `more` call with k >= 1, and a cut inside a reply frame (or no reply owed at \
all); distinct by hash of the case.";

#[derive(Debug, Clone, Copy, PartialEq, Eq, Hash, Serialize, Deserialize)]
pub enum Kind {
    Plain,
    Oneway,
    More,
}

#[derive(Debug, Clone, PartialEq, Eq, Hash, Serialize, Deserialize)]
pub struct CallSpec {
    pub kind: Kind,
    /// `more`: number of continuing replies before the final one.
    pub k: u8,
    /// final reply is a declared error (0 = success, 1 = unit error, 2 = struct error)
    pub err: u8,
    /// final success of a `more` call spells `continues:false` (true) or omits it (false)
    pub explicit_false: bool,
    /// padding of the reply's string member (to cross buffer growth steps)
    pub pad: u16,
    /// padding of the *call's* string parameter (so that the enqueued calls end before / at /
    /// after the write buffer's growth steps)
    #[serde(default)]
    pub call_pad: u16,
    /// the success replies of this call carry no `parameters` member at all
    /// (`{"continues":true}`, `{}`), as zlink's own server writes them for `Reply::new(None)`
    #[serde(default)]
    pub bare: bool,
}

#[derive(Debug, Clone, Serialize, Deserialize)]
pub struct Case {
    pub calls: Vec<CallSpec>,
    pub trailing: u8,
    pub cuts: Vec<usize>,
    pub pend: Vec<u8>,
}

fn pad(n: usize) -> String {
    "p".repeat(n)
}

impl Case {
    /// The reply frames the scripted server sends for the chain (owed frames), in order.
    pub fn owed_frames(&self) -> Vec<Vec<u8>> {
        let mut out = Vec::new();
        for (i, c) in self.calls.iter().enumerate() {
            let name = format!("r{i}{}", pad(c.pad as usize));
            match c.kind {
                Kind::Oneway => {}
                Kind::Plain => out.push(final_frame(c, &name, i, false)),
                Kind::More => {
                    for j in 0..c.k {
                        if c.bare {
                            out.push(br#"{"continues":true}"#.to_vec());
                            continue;
                        }
                        out.push(
                            format!(r#"{{"parameters":{{"name":"{name}","n":{j}}},"continues":true}}"#).into_bytes(),
                        );
                    }
                    out.push(final_frame(c, &name, i, true));
                }
            }
        }
        out
    }

    pub fn trailing_frames(&self) -> Vec<Vec<u8>> {
        (0..self.trailing)
            .map(|i| format!(r#"{{"parameters":{{"name":"later-exchange","n":{}}}}}"#, 1000 + i as i64).into_bytes())
            .collect()
    }

    pub fn reply_stream_bytes(&self) -> Vec<u8> {
        let mut s = Vec::new();
        for f in self.owed_frames().into_iter().chain(self.trailing_frames()) {
            s.extend(f);
            s.push(0);
        }
        s
    }

    /// Total bytes the first `n` calls occupy in the write buffer (documents + terminators).
    pub fn call_bytes(&self, n: usize) -> usize {
        self.calls_of().iter().take(n).map(|(_, c)| serde_json::to_vec(c).map(|v| v.len() + 1).unwrap_or(0)).sum()
    }

    /// Pad call `j % len` so that the calls up to and including it end at the next 256-byte step + d.
    pub fn dial_calls(&mut self, j: usize, d: i32) {
        let j = j % self.calls.len();
        self.calls[j].call_pad = 0;
        let end = self.call_bytes(j + 1) as i64;
        let target = (end / 256 + 1) * 256 + d as i64;
        if target > end {
            self.calls[j].call_pad = (target - end) as u16;
        }
    }

    fn calls_of(&self) -> Vec<(String, Call<MethodA<'static>>)> {
        // MethodA::Echo borrows a &str; leak-free by building owned strings first
        self.calls
            .iter()
            .enumerate()
            .map(|(i, c)| {
                let s = format!("call{i}{}", pad(c.call_pad as usize));
                // a oneway call may carry `more` as well (every other one does: `k` has no other
                // meaning for a oneway call): it is still owed nothing
                (s, c.kind, c.kind == Kind::Oneway && c.k % 2 == 1)
            })
            .map(|(s, kind, also_more)| {
                let call = Call::new(MethodA::Put {
                    key: s.clone(),
                    val: None,
                    tag: std::borrow::Cow::Borrowed("t"),
                })
                .set_oneway(kind == Kind::Oneway)
                .set_more(kind == Kind::More || also_more);
                (s, call)
            })
            .collect()
    }
}

fn final_frame(c: &CallSpec, name: &str, i: usize, more: bool) -> Vec<u8> {
    match c.err {
        // replies that end the exchange with a failure the method's error type does not cover:
        // an undeclared error, a standard service error, a frame that is not a reply at all
        3 => br#"{"error":"io.systemd.System","parameters":{"errno":5}}"#.to_vec(),
        4 => br#"{"error":"org.varlink.service.MethodNotFound","parameters":{"method":"org.example.Nope"}}"#.to_vec(),
        5 => br#"{"parameters":{"name":"#.to_vec(),
        1 => br#"{"error":"org.example.Bad"}"#.to_vec(),
        2 => format!(r#"{{"error":"org.example.Worse","parameters":{{"code":{i},"msg":"{name}"}}}}"#).into_bytes(),
        _ if c.bare => {
            if more && c.explicit_false {
                br#"{"continues":false}"#.to_vec()
            } else {
                b"{}".to_vec()
            }
        }
        _ => {
            if more && c.explicit_false {
                format!(r#"{{"parameters":{{"name":"{name}","n":{i}}},"continues":false}}"#).into_bytes()
            } else {
                format!(r#"{{"parameters":{{"name":"{name}","n":{i}}}}}"#).into_bytes()
            }
        }
    }
}

#[derive(Debug, Default)]
pub struct Run {
    pub writes: Vec<Vec<u8>>,
    pub items: Vec<Outcome>,
    /// how the stream ended: "none", "pending" (stayed pending with the script exhausted)
    pub end: String,
    /// transport read polls caused by the poll_next that returned None
    pub polls_for_none: u64,
    pub after: Vec<Outcome>,
    pub send_error: Option<String>,
}

fn script_of(stream: &[u8], cuts: &[usize], pend: &[u8]) -> Vec<ReadEv> {
    let chunks = if stream.is_empty() { vec![] } else { split_at_cuts(stream, cuts) };
    let mut script = Vec::new();
    for (i, c) in chunks.into_iter().enumerate() {
        if !pend.is_empty() {
            for _ in 0..pend[i % pend.len()] {
                script.push(ReadEv::Pending);
            }
        }
        script.push(ReadEv::Data(c));
    }
    script
}

/// One exchange (build the chain, send it, drain its reply stream) on an existing connection.
fn exchange(conn: &mut Connection<SimSocket>, handle: &vcommon::sim::SimHandle, case: &Case, budget: usize) -> Run {
    let calls = case.calls_of();
    let mut run = Run::default();
    let writes_before = handle.writes().len();
    {
        let mut chain = match conn.chain_call::<MethodA<'_>, OptParams, ErrA>(&calls[0].1) {
            Ok(c) => c,
            Err(e) => {
                run.send_error = Some(format!("{e:?}"));
                return run;
            }
        };
        for (_, c) in &calls[1..] {
            chain = match chain.append(c) {
                Ok(c) => c,
                Err(e) => {
                    run.send_error = Some(format!("{e:?}"));
                    return run;
                }
            };
        }
        let stream = match run_until_ready(chain.send(), 8) {
            Some(Ok(s)) => s,
            Some(Err(e)) => {
                run.send_error = Some(format!("{e:?}"));
                return run;
            }
            None => {
                run.send_error = Some("send pending".into());
                return run;
            }
        };
        let mut stream = std::pin::pin!(stream);
        let limit = case.owed_frames().len() + case.trailing as usize + 3;
        let mut pendings = 0usize;
        run.end = "limit".into();
        while run.items.len() < limit {
            let before = handle.read.borrow().polls;
            let s: Pin<&mut _> = stream.as_mut();
            match poll_next_once(s) {
                Poll::Ready(Some(item)) => run.items.push(classify_reply(item)),
                Poll::Ready(None) => {
                    run.polls_for_none = handle.read.borrow().polls - before;
                    run.end = "none".into();
                    break;
                }
                Poll::Pending => {
                    pendings += 1;
                    if handle.script_empty() || pendings > budget {
                        run.end = "pending".into();
                        break;
                    }
                }
            }
        }
    }
    run.writes = handle.writes()[writes_before..].to_vec();
    run
}

pub fn run_case(case: &Case) -> Run {
    let stream = case.reply_stream_bytes();
    let script = script_of(&stream, &case.cuts, &case.pend);
    let script_len = script.len();
    let (sock, handle) = SimSocket::with_script(script);
    let mut conn = Connection::new(sock);
    let budget = 16 + script_len * 3;
    let mut run = exchange(&mut conn, &handle, case, budget);
    if run.send_error.is_some() {
        return run;
    }
    // What is left for a later exchange on the same connection.
    for _ in 0..case.owed_frames().len() + case.trailing as usize + 1 {
        let o = match run_until_ready(conn.receive_reply::<OptParams, ErrA>(), budget) {
            Some(r) => classify_reply(r),
            None => Outcome::Pending,
        };
        let stop = o == Outcome::Pending;
        run.after.push(o);
        if stop {
            break;
        }
    }
    run
}

/// Several exchanges one after the other on the *same* connection: the replies of all of them are
/// scripted up front (cut at generated positions), so the frames of exchange k+1 are the "frames of
/// a later exchange" for the stream of exchange k, and whatever an exchange leaves behind in the
/// connection (cursors, buffer sizes, the reply stream's bookkeeping) is what the next one starts
/// from. `cases[..n-1]` have no trailing frames and conforming, decodable replies.
#[derive(Debug, Clone, Serialize, Deserialize)]
pub struct Multi {
    pub cases: Vec<Case>,
    pub cuts: Vec<usize>,
    pub pend: Vec<u8>,
}

impl Multi {
    pub fn stream(&self) -> Vec<u8> {
        self.cases.iter().flat_map(|c| c.reply_stream_bytes()).collect()
    }
}

pub fn check_multi(m: &Multi, stats: &mut Stats) -> CaseResult {
    stats.class("lane:several-exchanges-on-one-connection");
    let stream = m.stream();
    let script = script_of(&stream, &m.cuts, &m.pend);
    let budget = 16 + script.len() * 3;
    let (sock, handle) = SimSocket::with_script(script);
    let mut conn = Connection::new(sock);
    if m.cases.iter().filter(|c| c.calls.iter().any(|k| k.kind != Kind::Oneway)).count() >= 2 {
        stats.nontrivial_hash(hash_of(&(m.cases.iter().map(|c| &c.calls).collect::<Vec<_>>(), &m.cuts, &m.pend)));
    }
    let n = m.cases.len();
    for (k, case) in m.cases.iter().enumerate() {
        let mut run = exchange(&mut conn, &handle, case, budget);
        let last = k + 1 == n;
        if last && run.send_error.is_none() {
            for _ in 0..case.owed_frames().len() + case.trailing as usize + 1 {
                let o = match run_until_ready(conn.receive_reply::<OptParams, ErrA>(), budget) {
                    Some(r) => classify_reply(r),
                    None => Outcome::Pending,
                };
                let stop = o == Outcome::Pending;
                run.after.push(o);
                if stop {
                    break;
                }
            }
        } else {
            // the frames of the later exchanges are still to come: not judged here
            run.after = vec![Outcome::Pending];
        }
        judge(case, &run).map_err(|f| Fail { sig: format!("{}:exchange-{}-of-{n}", f.sig, k + 1).replace(&format!("-of-{n}"), ""), message: format!("exchange {} of {n} on one connection: {}", k + 1, f.message) })?;
    }
    Ok(())
}

fn expected_outcome(frame: &[u8]) -> Outcome {
    match ref_reply::<OptParams, ErrA>(frame) {
        vcommon::rx::Expect::Exactly(o) => o,
        vcommon::rx::Expect::DecodeErrOr(o) => o,
        // the scripted replies of this check are all JSON objects
        vcommon::rx::Expect::NonObjectReply(o) => o.unwrap_or(Outcome::DecodeErr),
    }
}

pub fn judge(case: &Case, run: &Run) -> CaseResult {
    let all_oneway = case.calls.iter().all(|c| c.kind == Kind::Oneway);
    let lane = if all_oneway { "all-oneway" } else { "chain" };
    if let Some(e) = &run.send_error {
        return Err(Fail::new("chain-send-failed", format!("building/sending the chain failed: {e}")));
    }
    // (1) one write with all calls in order
    let mut wire = Vec::new();
    for (_, c) in case.calls_of() {
        wire.extend(serde_json::to_vec(&c).unwrap());
        wire.push(0);
    }
    if run.writes.len() != 1 || run.writes[0] != wire {
        return Err(Fail::new(
            "chain-wire",
            format!(
                "expected one transport write of {} bytes with the calls in chain order, got {} write(s): {}",
                wire.len(),
                run.writes.len(),
                truncate(&show_bytes(&run.writes.concat()), 300)
            ),
        ));
    }
    // (2) exactly the owed replies, then None
    let owed: Vec<Outcome> = case.owed_frames().iter().map(|f| expected_outcome(f)).collect();
    // A reply that is reported as a top-level failure (undeclared error, service error, not a
    // reply): the statement does not say whether the stream goes on to the replies of the later
    // calls or stops there (the current tree stops). Both are accepted; what is not accepted is
    // anything else - in particular treating the failed reply as if it had not been the final
    // reply of its call, which shifts every later reply to the wrong call and over-reads.
    if let Some(j) = owed.iter().position(|o| !matches!(o, Outcome::Msg(m) if !m.starts_with("service-error"))) {
        let stopped = run.items == owed[..=j] && run.end == "none";
        let went_on = run.items == owed && run.end == "none";
        if !(stopped || went_on) {
            let sig = if run.items.len() > owed.len() { format!("{lane}-stream-consumed-foreign-frame") } else { format!("{lane}-stream-after-failed-reply") };
            return Err(Fail::new(
                &sig,
                format!("owed {} replies {:?} (reply {j} is a top-level failure); stream yielded {:?} and ended with {:?}", owed.len(), owed, run.items, run.end),
            ));
        }
        if run.polls_for_none != 0 {
            return Err(Fail::new(&format!("{lane}-stream-reads-after-last-owed"), format!("the poll that returned None polled the transport {} time(s)", run.polls_for_none)));
        }
        let mut after: Vec<Outcome> = if stopped { owed[j + 1..].to_vec() } else { vec![] };
        after.extend(case.trailing_frames().iter().map(|f| expected_outcome(f)));
        after.push(Outcome::Pending);
        if run.after != after {
            return Err(Fail::new(
                &format!("{lane}-later-exchange-disturbed"),
                format!("after a stream that {} at the failed reply {j}, later receive_reply calls should see {after:?}, saw {:?}", if stopped { "stopped" } else { "went on" }, run.after),
            ));
        }
        return Ok(());
    }
    if run.items != owed || run.end != "none" {
        let sig = if run.items.len() > owed.len() {
            format!("{lane}-stream-consumed-foreign-frame")
        } else if run.end == "pending" && run.items == owed {
            format!("{lane}-stream-waits-for-unowed-reply")
        } else {
            format!("{lane}-stream-items-differ")
        };
        return Err(Fail::new(
            &sig,
            format!(
                "owed {} replies {:?}; stream yielded {:?} and ended with {:?}",
                owed.len(),
                owed,
                run.items,
                run.end
            ),
        ));
    }
    // (4) the final None does not touch the transport
    if run.polls_for_none != 0 {
        return Err(Fail::new(
            &format!("{lane}-stream-reads-after-last-owed"),
            format!("the poll that returned None polled the transport {} time(s)", run.polls_for_none),
        ));
    }
    // (3) trailing frames are still there
    let mut after: Vec<Outcome> = case.trailing_frames().iter().map(|f| expected_outcome(f)).collect();
    after.push(Outcome::Pending);
    if run.after != after {
        return Err(Fail::new(
            &format!("{lane}-later-exchange-disturbed"),
            format!("a later receive_reply sequence should see {after:?}, saw {:?}", run.after),
        ));
    }
    Ok(())
}

fn frame_boundaries(case: &Case) -> Vec<usize> {
    let mut b = vec![0];
    for f in case.owed_frames().into_iter().chain(case.trailing_frames()) {
        b.push(b.last().unwrap() + f.len() + 1);
    }
    b
}

pub fn check_case(case: &Case, stats: &mut Stats) -> CaseResult {
    let has_oneway = case.calls.iter().any(|c| c.kind == Kind::Oneway);
    if case.calls.iter().any(|c| c.kind == Kind::Oneway && c.k % 2 == 1) {
        stats.class("has-oneway-call-that-also-asks-for-more");
    }
    let has_more_k = case.calls.iter().any(|c| c.kind == Kind::More && c.k >= 1);
    let all_oneway = case.calls.iter().all(|c| c.kind == Kind::Oneway);
    let bounds = frame_boundaries(case);
    let mid_cut = case.cuts.iter().any(|c| !bounds.contains(c));
    if has_oneway {
        stats.class("has-oneway");
    }
    if has_more_k {
        stats.class("has-more-with-k>=1");
    }
    if all_oneway {
        stats.class("all-oneway");
    }
    if mid_cut {
        stats.class("cut-inside-a-reply");
    }
    if case.trailing > 0 {
        stats.class("has-trailing-frames");
    }
    if case.calls.iter().any(|c| c.kind == Kind::More && c.err > 0) {
        stats.class("more-call-ends-with-error");
    }
    if case.calls.iter().any(|c| c.kind != Kind::Oneway && c.err >= 3) {
        stats.class("reply-is-a-top-level-failure(undeclared/service error/garbage)");
    }
    if case.reply_stream_bytes().len() > 256 {
        stats.class("replies>256B");
    }
    if ((has_oneway || has_more_k) && mid_cut) || all_oneway {
        stats.nontrivial_hash(hash_of(&(&case.calls, case.trailing, &case.cuts, &case.pend)));
    }
    stats.sample(|| {
        json!({"calls": case.calls.iter().map(|c| format!("{:?}{}", c.kind, if c.kind == Kind::More { format!("(k={},err={})", c.k, c.err) } else if c.kind == Kind::Plain { format!("(err={})", c.err) } else { String::new() })).collect::<Vec<_>>(),
               "replies": truncate(&show_bytes(&case.reply_stream_bytes()), 240), "cuts": case.cuts, "trailing": case.trailing})
    });
    let run = run_case(case);
    judge(case, &run)
}

fn call_spec_strategy() -> impl Strategy<Value = CallSpec> {
    (
        prop_oneof![Just(Kind::Plain), Just(Kind::Oneway), Just(Kind::More)],
        0u8..=3,
        prop_oneof![12 => Just(0u8), 4 => Just(1u8), 4 => Just(2u8), 1 => Just(3u8), 1 => Just(4u8), 1 => Just(5u8)],
        any::<bool>(),
        prop_oneof![4 => 0u16..8, 1 => 180u16..300, 1 => 0u16..700],
        // one call in twenty is large (6..40 KB), so that some chains exceed any plausible internal
        // chunk size: the whole chain must still reach the transport in one write
        prop_oneof![10 => Just(0u16), 4 => 0u16..40, 2 => 150u16..300, 2 => 0u16..700, 1 => 6000u16..40000],
        prop::bool::weighted(0.15),
    )
        .prop_map(|(kind, k, err, explicit_false, pad, call_pad, bare)| CallSpec { kind, k, err, explicit_false, pad, call_pad, bare })
}

pub fn multi_strategy() -> impl Strategy<Value = Multi> {
    (prop::collection::vec(case_strategy(), 2..=4), chunk_plan_strategy(), prop::collection::vec(0u8..3, 0..4)).prop_map(|(mut cases, plan, pend)| {
        let n = cases.len();
        for (k, c) in cases.iter_mut().enumerate() {
            if k + 1 < n {
                c.trailing = 0;
                for call in &mut c.calls {
                    call.err %= 3;
                }
            }
            c.cuts.clear();
            c.pend.clear();
        }
        let mut m = Multi { cases, cuts: vec![], pend };
        m.cuts = resolve_cuts(&plan, &m.stream());
        m
    })
}

pub fn case_strategy() -> impl Strategy<Value = Case> {
    (
        prop::collection::vec(call_spec_strategy(), 1..=6),
        0u8..=2,
        chunk_plan_strategy(),
        prop::collection::vec(0u8..3, 0..4),
        // dial: make the enqueued calls up to and including call j end at a 256-byte step + d
        prop::option::weighted(0.35, (any::<u8>(), -2i32..=2)),
    )
        .prop_map(|(calls, trailing, plan, pend, dial)| {
            let mut case = Case { calls, trailing, cuts: vec![], pend };
            if let Some((j, d)) = dial {
                case.dial_calls(j as usize, d);
            }
            case.cuts = resolve_cuts(&plan, &case.reply_stream_bytes());
            case
        })
}

/// Enumeration lane: all kind sequences up to length 4 x script family x chunking.
fn enumerated() -> Vec<Case> {
    let kinds = [Kind::Plain, Kind::Oneway, Kind::More];
    let mut seqs: Vec<Vec<Kind>> = vec![vec![]];
    let mut all = Vec::new();
    for _ in 0..4 {
        let mut next = Vec::new();
        for s in &seqs {
            for k in kinds {
                let mut t = s.clone();
                t.push(k);
                next.push(t);
            }
        }
        all.extend(next.clone());
        seqs = next;
    }
    let mut out = Vec::new();
    for seq in &all {
        for fam in 0..3u8 {
            for trailing in [0u8, 1, 2] {
                let calls: Vec<CallSpec> = seq
                    .iter()
                    .enumerate()
                    .map(|(i, &kind)| match fam {
                        // all succeed, streams have 2 items
                        0 => CallSpec { kind, k: 2, err: 0, explicit_false: i % 2 == 0, pad: 0, call_pad: 0, bare: i % 3 == 2 },
                        // errors everywhere, empty streams
                        1 => CallSpec { kind, k: 0, err: 1 + (i % 2) as u8, explicit_false: false, pad: 0, call_pad: 0, bare: false },
                        // mixed, one large reply
                        _ => CallSpec { kind, k: (i % 3) as u8, err: if i % 2 == 1 { 2 } else { 0 }, explicit_false: true, pad: if i == 1 { 250 } else { 3 }, call_pad: if i == 0 { 190 } else { 0 }, bare: false },
                    })
                    .collect();
                let base = Case { calls, trailing, cuts: vec![], pend: vec![] };
                let stream = base.reply_stream_bytes();
                for plan in [
                    ChunkPlan::One,
                    ChunkPlan::ByteAtATime,
                    ChunkPlan::AtNuls(0),
                    ChunkPlan::AtNuls(-1),
                    ChunkPlan::AtNuls(2),
                    ChunkPlan::Fixed(7),
                ] {
                    let mut c = base.clone();
                    c.cuts = resolve_cuts(&plan, &stream);
                    if matches!(plan, ChunkPlan::ByteAtATime) {
                        c.pend = vec![0, 1];
                    }
                    out.push(c);
                }
            }
        }
    }
    out
}

pub fn run(ctx: &Ctx) -> i32 {
    let (shards, cases) = ctx.tier.pick((16, 10000), (64, 30_000));
    let (mut stats, mut viol) = run_shards(ctx, "random", shards, cases, case_strategy, check_case);
    let en = enumerated();
    let (s2, v2) = par_enumerate(ctx, "enumerated", en.len() as u64, |i, stats| {
        let case = &en[i as usize];
        stats.eval();
        match check_case(case, stats) {
            Ok(()) => vec![],
            Err(f) => vec![(f, serde_json::to_value(case).unwrap())],
        }
    });
    stats.merge(s2);
    viol.extend(v2);
    let (s3, v3) = run_shards(ctx, "several-exchanges", shards, cases / 3, multi_strategy, check_multi);
    stats.merge(s3);
    viol.extend(v3);
    crate::fuzzrun::golden("chain_rx", &mut stats, &mut viol);
    if ctx.tier == vcommon::ev::Tier::Thorough {
        let seeds: Vec<Vec<u8>> = (0..32u8).map(|i| (0..(8 + i as usize * 7)).map(|k| (k as u8).wrapping_mul(29).wrapping_add(i.wrapping_mul(13))).collect()).collect();
        crate::fuzzrun::campaign(ctx, "chain_rx", crate::fuzzrun::fuzz_secs(180), &seeds, &mut stats, &mut viol);
    }
    Report::new(RULE)
        .assume("reference classification of a reply frame: serde_json::from_slice of the caller's types combined by the rules of C04")
        .assume("server scripts are conforming: one final reply per non-oneway call, continues:true only for `more` calls")
        .extra("enumerated_cases", json!(en.len()))
        .finish(ctx, &stats, &viol, &[])
}

pub fn replay(_lane: &str, case: serde_json::Value) -> CaseResult {
    if _lane == "fuzz" {
        return crate::fuzzrun::replay(&case);
    }
    if _lane == "several-exchanges" {
        let m: Multi = serde_json::from_value(case).map_err(|e| Fail::new("bad-replay", e.to_string()))?;
        println!("{m:?}");
        return check_multi(&m, &mut Stats::default());
    }
    let case: Case = serde_json::from_value(case).map_err(|e| Fail::new("bad-replay", e.to_string()))?;
    let run = run_case(&case);
    println!("calls: {:?}", case.calls);
    println!("replies: {}", truncate(&show_bytes(&case.reply_stream_bytes()), 600));
    println!("cuts: {:?}", case.cuts);
    println!("run: {run:?}");
    judge(&case, &run)
}
