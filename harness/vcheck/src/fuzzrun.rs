//! Runs a libFuzzer campaign (cargo-fuzz, ASan build in /verif/fuzz) for a thorough tier and turns
//! crashes into ordinary violations with a minimised, in-process replayable input.
//!
//! A campaign is only approximately reproducible (coverage feedback, fork mode): the saved input is
//! the reproducible unit. If the fuzz build is unavailable the campaign is skipped and the fact is
//! recorded in the evidence; it never turns into a violation or a failure of the check.

use std::{path::PathBuf, process::Command};

use serde_json::json;
use vcommon::{
    drv::{guarded, CaseResult},
    ev::{verif_root, Ctx, Stats, Violation},
};

use crate::fuzzdec::{hex, run_target, unhex};

fn run_guarded(target: &str, data: &[u8]) -> CaseResult {
    let mut st = Stats::default();
    let d = data.to_vec();
    guarded(&d, &mut st, &|d: &Vec<u8>, _| run_target(target, d))
}

/// Delta-minimise `data` while `run_target` keeps failing with the same signature.
fn minimise(target: &str, data: Vec<u8>, sig: &str) -> Vec<u8> {
    let mut cur = data;
    let mut chunk = cur.len() / 2;
    let mut budget = 4000;
    while chunk >= 1 && budget > 0 {
        let mut i = 0;
        let mut progressed = false;
        while i + chunk <= cur.len() && budget > 0 {
            budget -= 1;
            let mut cand = cur.clone();
            cand.drain(i..i + chunk);
            if matches!(run_guarded(target, &cand), Err(f) if f.sig == sig) {
                cur = cand;
                progressed = true;
            } else {
                i += chunk;
            }
        }
        if !progressed {
            chunk /= 2;
        }
    }
    cur
}

pub fn fuzz_secs(default: u64) -> u64 {
    std::env::var("VERIF_FUZZ_SECS").ok().and_then(|s| s.parse().ok()).unwrap_or(default)
}

/// Run one campaign; merges counters into `stats`, appends violations.
pub fn campaign(ctx: &Ctx, target: &str, secs: u64, seeds: &[Vec<u8>], stats: &mut Stats, viol: &mut Vec<Violation>) {
    if secs == 0 {
        return;
    }
    let root = verif_root();
    let fuzz_dir = root.join("fuzz");
    let work: PathBuf = root.join("work").join("fuzz").join(target);
    let corpus = work.join("corpus");
    let artifacts = work.join("artifacts");
    let _ = std::fs::remove_dir_all(&artifacts);
    let _ = std::fs::create_dir_all(&corpus);
    let _ = std::fs::create_dir_all(&artifacts);
    for (i, s) in seeds.iter().enumerate() {
        let _ = std::fs::write(corpus.join(format!("seed-{i:04}")), s);
    }
    let note = |stats: &mut Stats, k: &str, v: serde_json::Value| {
        stats.notes.insert(format!("fuzz_{target}_{k}"), v);
    };
    let build = Command::new("cargo")
        .args(["+nightly", "fuzz", "build", "--fuzz-dir"])
        .arg(&fuzz_dir)
        .arg(target)
        .env("RUSTFLAGS", "--cfg zlink_verif")
        .env("CARGO_NET_OFFLINE", "true")
        .output();
    match build {
        Ok(o) if o.status.success() => {}
        other => {
            let why = match other {
                Ok(o) => String::from_utf8_lossy(&o.stderr).lines().rev().take(3).collect::<Vec<_>>().join(" | "),
                Err(e) => e.to_string(),
            };
            note(stats, "skipped", json!(format!("fuzz build unavailable: {why}")));
            eprintln!("{}: fuzz target {target} could not be built; campaign skipped", ctx.prop);
            return;
        }
    }
    let out = Command::new("cargo")
        .args(["+nightly", "fuzz", "run", "--fuzz-dir"])
        .arg(&fuzz_dir)
        .arg(target)
        .arg(&corpus)
        .arg("--")
        .arg(format!("-max_total_time={secs}"))
        .arg(format!("-seed={}", (ctx.seed as u32).max(1)))
        .arg("-len_control=0")
        .arg("-max_len=4096")
        .arg(format!("-fork={}", ctx.threads.max(1)))
        .arg(format!("-artifact_prefix={}/", artifacts.display()))
        .env("RUSTFLAGS", "--cfg zlink_verif")
        .env("CARGO_NET_OFFLINE", "true")
        .output();
    let Ok(out) = out else {
        note(stats, "skipped", json!("cannot run cargo fuzz"));
        return;
    };
    let log = String::from_utf8_lossy(&out.stderr).to_string();
    // "#12345: cov: ..." lines in fork mode; "Done N runs" otherwise
    let mut runs: u64 = 0;
    for line in log.lines() {
        if let Some(rest) = line.strip_prefix('#') {
            if let Some(n) = rest.split(':').next().and_then(|n| n.trim().parse::<u64>().ok()) {
                runs = runs.max(n);
            }
        }
        if let Some(p) = line.find("Done ") {
            if let Some(n) = line[p + 5..].split_whitespace().next().and_then(|n| n.parse::<u64>().ok()) {
                runs = runs.max(n);
            }
        }
    }
    stats.evals(runs);
    stats.class_n(&format!("fuzz:{target}:executions"), runs);
    note(stats, "seconds", json!(secs));
    note(stats, "executions", json!(runs));
    let corpus_files = std::fs::read_dir(&corpus).map(|d| d.count()).unwrap_or(0);
    note(stats, "corpus_files", json!(corpus_files));
    // crashes
    let mut seen = std::collections::BTreeSet::new();
    if let Ok(dir) = std::fs::read_dir(&artifacts) {
        for e in dir.flatten() {
            let name = e.file_name().to_string_lossy().to_string();
            if !(name.starts_with("crash-") || name.starts_with("oom-") || name.starts_with("timeout-")) {
                continue;
            }
            let Ok(data) = std::fs::read(e.path()) else { continue };
            if name.starts_with("timeout-") || name.starts_with("oom-") {
                note(stats, "inconclusive", json!(format!("{name}: a time-out / out-of-memory input ({} bytes) was saved under work/fuzz; not counted as a violation", data.len())));
                continue;
            }
            match run_guarded(target, &data) {
                Err(f) => {
                    if !seen.insert(f.sig.clone()) {
                        continue;
                    }
                    let small = minimise(target, data, &f.sig);
                    let f2 = run_guarded(target, &small).err().unwrap_or(f);
                    viol.push(Violation { sig: f2.sig, lane: "fuzz".into(), case: json!({"target": target, "hex": hex(&small)}), message: f2.message });
                }
                Ok(()) => {
                    // only the sanitizer build objects (e.g. a use-after-free that reads plausible bytes)
                    let why = log.lines().filter(|l| l.contains("ERROR: AddressSanitizer") || l.contains("panicked at")).take(2).collect::<Vec<_>>().join(" | ");
                    if seen.insert("sanitizer".into()) {
                        viol.push(Violation {
                            sig: format!("fuzz-{target}-sanitizer-report"),
                            lane: "fuzz".into(),
                            case: json!({"target": target, "hex": hex(&data), "sanitizer_only": true}),
                            message: format!("the ASan build of target {target} crashed on a saved input that the plain build accepts: {why}"),
                        });
                    }
                }
            }
        }
    }
}

/// Replay of a `lane = "fuzz"` case.
pub fn replay(case: &serde_json::Value) -> CaseResult {
    let target = case["target"].as_str().unwrap_or("");
    let data = unhex(case["hex"].as_str().unwrap_or(""));
    println!("fuzz target {target}, {} bytes: {}", data.len(), vcommon::ev::truncate(&vcommon::ev::show_bytes(&data), 400));
    if case["sanitizer_only"] == true {
        println!("(this input was only rejected by the AddressSanitizer build: re-run `cargo +nightly fuzz run --fuzz-dir /verif/fuzz {target} <file>`)");
    }
    run_guarded(target, &data)
}

/// In-process regression tier: every file under /verif/fuzz/golden/<target>/ through the oracle.
pub fn golden(target: &str, stats: &mut Stats, viol: &mut Vec<Violation>) {
    let dir = verif_root().join("fuzz").join("golden").join(target);
    let Ok(rd) = std::fs::read_dir(&dir) else { return };
    let mut files: Vec<_> = rd.flatten().map(|e| e.path()).collect();
    files.sort();
    for p in files {
        let Ok(data) = std::fs::read(&p) else { continue };
        stats.eval();
        stats.class(&format!("fuzz:{target}:golden-inputs"));
        if let Err(f) = run_guarded(target, &data) {
            viol.push(Violation { sig: f.sig, lane: "fuzz".into(), case: json!({"target": target, "hex": hex(&data)}), message: f.message });
        }
    }
}
