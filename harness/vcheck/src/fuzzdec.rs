//! Byte-level entry points for the coverage-guided targets in /verif/fuzz: each decodes the
//! fuzzer's bytes into a structured case and runs the *same* oracle as the property's check. The
//! decoders are also used to replay a saved fuzz input (`lane = "fuzz"`, case = {"hex": ...}).

use arbitrary::Unstructured;
use vcommon::{
    drv::{CaseResult, Fail},
    ev::Stats,
    frames::B,
    rx::{RxCase, ALL_TARGETS},
};

use crate::{c02, c03, c06, c08, c09, c10, c11, c13, c18, c20};
use vcommon::srvgen::Features;

pub fn hex(bytes: &[u8]) -> String {
    bytes.iter().map(|b| format!("{b:02x}")).collect()
}

pub fn unhex(s: &str) -> Vec<u8> {
    (0..s.len() / 2).filter_map(|i| u8::from_str_radix(&s[2 * i..2 * i + 2], 16).ok()).collect()
}

// ---- C13: any bytes as (lossy) text ----

pub fn idl_parse(data: &[u8]) -> CaseResult {
    let text = String::from_utf8_lossy(data);
    let mut stats = Stats::default();
    c13::check_text(&text, None, &mut stats)
}

// ---- C03: bytes -> serde data-model tree ----

fn key(u: &mut Unstructured<'_>, depth: u32) -> arbitrary::Result<c03::K> {
    use c03::K;
    Ok(match u.int_in_range(0u8..=19)? {
        18 => K::CollectStr(pieces(u)?),
        19 => K::Net(u.arbitrary()?, u.arbitrary()?, u.arbitrary()?),
        0 | 1 => K::Str(String::arbitrary_lossy(u)?),
        2 => K::Char(u.arbitrary()?),
        3 => K::I8(u.arbitrary()?),
        4 => K::I16(u.arbitrary()?),
        5 => K::I32(u.arbitrary()?),
        6 => K::I64(u.arbitrary()?),
        7 => K::I128(u.arbitrary()?),
        8 => K::U8(u.arbitrary()?),
        9 => K::U16(u.arbitrary()?),
        10 => K::U32(u.arbitrary()?),
        11 => K::U64(u.arbitrary()?),
        12 => K::U128(u.arbitrary()?),
        13 => K::UnitVariant(u.arbitrary()?),
        14 if depth > 0 => K::Newtype(Box::new(key(u, depth - 1)?)),
        15 => K::Bool(u.arbitrary()?),
        16 => K::F64(u.arbitrary()?),
        _ => K::Str(String::new()),
    })
}

trait LossyString {
    fn arbitrary_lossy(u: &mut Unstructured<'_>) -> arbitrary::Result<String>;
}
impl LossyString for String {
    fn arbitrary_lossy(u: &mut Unstructured<'_>) -> arbitrary::Result<String> {
        let n = u.int_in_range(0usize..=12)?;
        let mut s = String::new();
        for _ in 0..n {
            // bias towards escape-relevant characters
            let c = match u.int_in_range(0u8..=5)? {
                0 => char::from(u.int_in_range(0u8..=0x1f)?),
                1 => *u.choose(&['"', '\\', '/', '\u{7f}', '\u{2028}', '\u{ffff}', '\u{1F600}', '\u{e9}'])?,
                _ => u.arbitrary::<char>()?,
            };
            s.push(c);
        }
        Ok(s)
    }
}

fn value(u: &mut Unstructured<'_>, depth: u32) -> arbitrary::Result<c03::V> {
    use c03::V;
    let top = if depth == 0 { 24 } else { 35 };
    Ok(match u.int_in_range(0u8..=top)? {
        0 => V::Bool(u.arbitrary()?),
        1 => V::I8(u.arbitrary()?),
        2 => V::I16(u.arbitrary()?),
        3 => V::I32(u.arbitrary()?),
        4 => V::I64(u.arbitrary()?),
        5 => V::I128(u.arbitrary()?),
        6 => V::U8(u.arbitrary()?),
        7 => V::U16(u.arbitrary()?),
        8 => V::U32(u.arbitrary()?),
        9 => V::U64(u.arbitrary()?),
        10 => V::U128(u.arbitrary()?),
        11 => V::F32(u.arbitrary()?),
        12 => V::F64(u.arbitrary()?),
        13 => V::Char(u.arbitrary()?),
        14 | 15 => V::Str(String::arbitrary_lossy(u)?),
        16 => {
            let cap = *u.choose(&[8usize, 8, 40, 300])?;
            V::Bytes(u.arbitrary::<Vec<u8>>()?.into_iter().take(cap).collect())
        }
        17 => V::None,
        18 => V::Unit,
        19 => V::UnitStruct,
        20 => V::UnitVariant(u.arbitrary()?),
        21 | 22 => V::CollectStr(pieces(u)?),
        23 => V::HumanReadable,
        24 => V::Net(u.arbitrary()?, u.arbitrary()?, u.arbitrary()?),
        25 => V::Some(Box::new(value(u, depth - 1)?)),
        26 => V::NewtypeStruct(Box::new(value(u, depth - 1)?)),
        27 => V::NewtypeVariant(u.arbitrary()?, Box::new(value(u, depth - 1)?)),
        28 => V::Seq(values(u, depth - 1)?, u.arbitrary()?),
        29 => V::Tuple(values(u, depth - 1)?),
        30 => V::TupleVariant(u.arbitrary()?, values(u, depth - 1)?),
        31 => V::CollectSeq(values(u, depth - 1)?, u.arbitrary()?),
        32 => {
            let n = u.int_in_range(0usize..=3)?;
            let mut kv = Vec::new();
            for _ in 0..n {
                kv.push((key(u, 2)?, value(u, depth - 1)?));
            }
            V::CollectMap(kv)
        }
        33 => {
            let n = u.int_in_range(0usize..=4)?;
            let mut kv = Vec::new();
            for _ in 0..n {
                kv.push((key(u, 2)?, value(u, depth - 1)?));
            }
            V::Map(kv, u.arbitrary()?)
        }
        34 => {
            let n = u.int_in_range(0usize..=4)?;
            let mut f = Vec::new();
            for _ in 0..n {
                f.push((u.arbitrary()?, value(u, depth - 1)?));
            }
            V::Struct(f)
        }
        _ => {
            let n = u.int_in_range(0usize..=3)?;
            let mut f = Vec::new();
            for _ in 0..n {
                f.push((u.arbitrary()?, value(u, depth - 1)?));
            }
            V::StructVariant(u.arbitrary()?, f)
        }
    })
}

fn pieces(u: &mut Unstructured<'_>) -> arbitrary::Result<Vec<String>> {
    let n = u.int_in_range(0usize..=4)?;
    let mut v = Vec::new();
    for _ in 0..n {
        v.push(match u.int_in_range(0u8..=3)? {
            0 => {
                let len = u.int_in_range(1usize..=320)?;
                let c = *u.choose(&['s', '"', '\u{e9}', '\n'])?;
                std::iter::repeat(c).take(len).collect()
            }
            _ => String::arbitrary_lossy(u)?,
        });
    }
    Ok(v)
}

fn values(u: &mut Unstructured<'_>, depth: u32) -> arbitrary::Result<Vec<c03::V>> {
    let n = u.int_in_range(0usize..=4)?;
    (0..n).map(|_| value(u, depth)).collect()
}

pub fn json_ser(data: &[u8]) -> CaseResult {
    let mut u = Unstructured::new(data);
    let Ok(fill) = u.int_in_range(0usize..=600) else { return Ok(()) };
    let Ok(v) = value(&mut u, 4) else { return Ok(()) };
    let mut stats = Stats::default();
    c03::check_tree(&c03::TreeCase { v, fill }, &mut stats)
}

// ---- C01 / C07: header + the byte stream itself ----

pub fn frames_rx(data: &[u8]) -> CaseResult {
    if data.len() < 8 {
        return Ok(());
    }
    let (head, body) = data.split_at(8);
    let target = ALL_TARGETS[head[0] as usize % ALL_TARGETS.len()];
    // frames = the non-empty NUL-separated pieces of the body (at most 8, at most 2 KiB in total)
    let mut frames: Vec<B> = body.split(|&b| b == 0).filter(|f| !f.is_empty()).take(8).map(|f| B(f.to_vec())).collect();
    let mut total = 0;
    frames.retain(|f| {
        total += f.0.len() + 1;
        total <= 2048
    });
    if frames.is_empty() {
        return Ok(());
    }
    let len: usize = frames.iter().map(|f| f.0.len() + 1).sum();
    // cuts: head[1..5] scaled; head[5]: byte-at-a-time
    let mut cuts: Vec<usize> = if head[5] % 7 == 0 { (1..len).collect() } else { head[1..5].iter().map(|&r| 1 + (r as usize * len) / 256).filter(|&c| c < len).collect() };
    cuts.sort_unstable();
    cuts.dedup();
    let pend = vec![head[6] % 3, head[6] / 3 % 3];
    let chunks = cuts.len() + 1;
    let total_pending: usize = (0..chunks).map(|i| pend[i % 2] as usize).sum();
    let every = (head[7] % 5) as usize;
    let cancel: Vec<usize> = if every == 0 { vec![] } else { (1..=total_pending).filter(|n| n % every == 0).collect() };
    // bit 7 of the stride byte: join / split the halves between receives
    let case = RxCase { target, frames, cuts, pend, cancel, rejoin: if head[7] & 0x80 != 0 { 1 + (head[7] >> 5 & 3) % 3 } else { 0 } };
    let run = case.run();
    case.judge(&run)
}

// ---- C11: reply lengths + cuts (class A is judged; runs under ASan in the fuzz build) ----

pub fn chain_alias(data: &[u8]) -> CaseResult {
    let mut u = Unstructured::new(data);
    let Ok(more) = u.arbitrary::<bool>() else { return Ok(()) };
    let Ok(n) = u.int_in_range(2usize..=6) else { return Ok(()) };
    let mut replies = Vec::new();
    for _ in 0..n {
        let len = match u.int_in_range(0u8..=3) {
            Ok(0) => u.int_in_range(0u16..=24).unwrap_or(0),
            Ok(1) => u.int_in_range(150u16..=300).unwrap_or(200),
            _ => u.int_in_range(0u16..=900).unwrap_or(5),
        };
        let term = if u.ratio(1u8, 8u8).unwrap_or(false) { u.int_in_range(1u8..=4).unwrap_or(0) } else { 0 };
        replies.push(c11::ReplySpec { len, err: u.ratio(1u8, 5u8).unwrap_or(false), continues: true, term, ws: if u.ratio(1u8, 3u8).unwrap_or(false) { u.int_in_range(1u8..=4).unwrap_or(1) } else { 0 } });
    }
    let mut case = c11::Case { more, replies, cuts: vec![] };
    let len = case.stream().len();
    let k = u.int_in_range(0usize..=3).unwrap_or(0);
    let mut cuts: Vec<usize> = (0..k).filter_map(|_| u.int_in_range(1usize..=len.max(2) - 1).ok()).collect();
    cuts.sort_unstable();
    cuts.dedup();
    case.cuts = cuts;
    let (class, verdict) = c11::run_case(&case);
    match (class, verdict) {
        (c11::Class::B, _) => Ok(()),
        (_, Err(f)) if f.sig == "harness" => Ok(()),
        (_, v) => v,
    }
}

// ---- structured targets for the history / schedule properties ----
//
// Each decoder reads the same raw values the property's proptest strategy draws (small integers
// that are then resolved by the same pure functions), so the fuzz target explores exactly the
// check's case space - coverage feedback instead of a uniform draw decides where to go.

fn chunk_plan(u: &mut Unstructured<'_>) -> arbitrary::Result<vcommon::frames::ChunkPlan> {
    use vcommon::frames::ChunkPlan as P;
    Ok(match u.int_in_range(0u8..=10)? {
        0 => P::One,
        1 => P::ByteAtATime,
        2 | 3 => P::AtNuls(u.int_in_range(-2i32..=2)?),
        4 | 5 => P::AtSteps(u.int_in_range(-2i32..=2)?),
        6 => P::Fixed(u.int_in_range(1usize..=599)?),
        _ => {
            let n = u.int_in_range(0usize..=7)?;
            P::Cuts((0..n).map(|_| u.arbitrary::<u16>()).collect::<arbitrary::Result<Vec<u16>>>()?)
        }
    })
}

fn raw_conn(u: &mut Unstructured<'_>, f: Features) -> arbitrary::Result<vcommon::srvgen::RawConn> {
    use vcommon::srvgen::{RawCall, RawConn};
    let n = u.int_in_range(0usize..=f.max_calls)?;
    let mut calls = Vec::with_capacity(n);
    for _ in 0..n {
        let pad = match u.int_in_range(0u8..=6)? {
            0..=4 => u.int_in_range(0u16..=5)?,
            5 => u.int_in_range(150u16..=299)?,
            _ => u.int_in_range(0u16..=599)?,
        };
        let fault = if f.faults && u.ratio(1u8, 8u8)? { Some(u.int_in_range(0u8..=vcommon::srv::FAULT_KINDS.len() as u8 + 3)?) } else { None };
        calls.push(RawCall {
            kind: u.int_in_range(0u8..=7)?,
            oneway: f.oneway && u.ratio(3u8, 10u8)?,
            pad,
            flags_first: u.arbitrary()?,
            fault,
            soup: (u.arbitrary()?, u.int_in_range(0u16..=899)?),
        });
    }
    Ok(RawConn {
        calls,
        plan: chunk_plan(u)?,
        end: if f.faults { u.int_in_range(0u8..=5)? } else { [0u8, 0, 0, 4][u.int_in_range(0usize..=3)?] },
        truncate_last: f.faults && u.ratio(1u8, 5u8)?,
        write_fail: if f.faults && u.ratio(1u8, 7u8)? { Some(u.int_in_range(0u8..=5)?) } else { None },
    })
}

fn general_scenario(u: &mut Unstructured<'_>, f: Features) -> arbitrary::Result<vcommon::srv::Scenario> {
    let n = u.int_in_range(1usize..=f.max_conns)?;
    let conns = (0..n).map(|_| raw_conn(u, f)).collect::<arbitrary::Result<Vec<_>>>()?;
    let k = u.int_in_range(0usize..=39)?;
    let steps = (0..k).map(|_| Ok((u.arbitrary()?, u.arbitrary()?, u.arbitrary()?))).collect::<arbitrary::Result<Vec<(u8, u8, u8)>>>()?;
    let c = u.int_in_range(0usize..=7)?;
    let closing = (0..c).map(|_| Ok((u.arbitrary()?, u.arbitrary()?))).collect::<arbitrary::Result<Vec<(u8, u8)>>>()?;
    Ok(vcommon::srvgen::assemble(f, &conns, &steps, &closing))
}

fn c18_scenario(u: &mut Unstructured<'_>, transitions: bool) -> arbitrary::Result<vcommon::srv::Scenario> {
    let n = u.int_in_range(2usize..=5)?;
    let mut roles = Vec::with_capacity(n);
    for _ in 0..n {
        let sel = u.int_in_range(0u8..=if transitions { 9 } else { 5 })?;
        let k = u.int_in_range(1usize..=3)?;
        roles.push((sel, (0..k).map(|_| u.arbitrary::<u8>()).collect::<arbitrary::Result<Vec<u8>>>()?));
    }
    let k = u.int_in_range(0usize..=39)?;
    let raw = (0..k).map(|_| Ok((u.arbitrary()?, u.arbitrary()?))).collect::<arbitrary::Result<Vec<(u8, u8)>>>()?;
    Ok(c18::build(transitions, &roles, &raw))
}

/// Number of lanes of `srv_sim` (the first input byte selects one).
pub const SRV_LANES: u8 = 8;

/// C08 / C09 / C10 / C18 (and C07's server lane): byte 0 selects the lane, the rest is decoded into
/// a scenario of that lane's generator; it is run against `Server::run` and judged by that lane's
/// oracle.
pub fn srv_sim(data: &[u8]) -> CaseResult {
    let Some((&lane, rest)) = data.split_first() else { return Ok(()) };
    // a campaign run for one property restricts the lanes (VERIF_SRV_LANES=0,7); replays run all
    static ALLOWED: std::sync::OnceLock<Option<Vec<u8>>> = std::sync::OnceLock::new();
    let allowed = ALLOWED.get_or_init(|| std::env::var("VERIF_SRV_LANES").ok().map(|v| v.split(',').filter_map(|x| x.trim().parse().ok()).collect()));
    if allowed.as_ref().is_some_and(|a| !a.contains(&(lane % SRV_LANES))) {
        return Ok(());
    }
    let mut u = Unstructured::new(rest);
    let mut stats = Stats::default();
    let big = Features { max_conns: 6, max_calls: 8, oneway: true, subs: true, faults: false };
    let sc = match lane % SRV_LANES {
        0 => general_scenario(&mut u, c08::FEATURES),
        1 => general_scenario(&mut u, c09::FEATURES).map(c09::with_late_conn),
        2 => general_scenario(&mut u, Features { subs: true, ..c09::FEATURES }).map(c09::with_late_conn),
        3 => general_scenario(&mut u, c10::FEATURES),
        4 => general_scenario(&mut u, Features { faults: true, ..c10::FEATURES }),
        5 => c18_scenario(&mut u, false),
        6 => c18_scenario(&mut u, true),
        _ => general_scenario(&mut u, big),
    };
    let Ok(sc) = sc else { return Ok(()) };
    match lane % SRV_LANES {
        0 => c08::check_scenario(&sc, &mut stats),
        1 | 2 => c09::check_scenario(&sc, &mut stats),
        5 => c18::check(&sc, &mut stats, false),
        6 => c18::check(&sc, &mut stats, true),
        _ => c10::check_scenario(&sc, &mut stats),
    }
}

/// C02: a history of enqueue / send / flush operations.
pub fn tx_hist(data: &[u8]) -> CaseResult {
    let mut u = Unstructured::new(data);
    let Ok(case) = c02::case_from_bytes(&mut u) else { return Ok(()) };
    c02::check_case(&case, &mut Stats::default())
}

/// C06: a chain, its reply script, trailing frames and the chunking.
pub fn chain_rx(data: &[u8]) -> CaseResult {
    fn decode(u: &mut Unstructured<'_>) -> arbitrary::Result<c06::Case> {
        let n = u.int_in_range(1usize..=6)?;
        let mut calls = Vec::with_capacity(n);
        for _ in 0..n {
            let kind = [c06::Kind::Plain, c06::Kind::Oneway, c06::Kind::More][u.int_in_range(0usize..=2)?];
            let pad = match u.int_in_range(0u8..=5)? {
                0..=3 => u.int_in_range(0u16..=7)?,
                4 => u.int_in_range(180u16..=299)?,
                _ => u.int_in_range(0u16..=699)?,
            };
            calls.push(c06::CallSpec { kind, k: u.int_in_range(0u8..=3)?, err: [0u8, 0, 0, 1, 2][u.int_in_range(0usize..=4)?], explicit_false: u.arbitrary()?, pad, call_pad: 0, bare: u.ratio(1u8, 6u8)? });
        }
        let trailing = u.int_in_range(0u8..=2)?;
        let plan = chunk_plan(u)?;
        let k = u.int_in_range(0usize..=3)?;
        let pend = (0..k).map(|_| u.int_in_range(0u8..=2)).collect::<arbitrary::Result<Vec<u8>>>()?;
        let mut case = c06::Case { calls, trailing, cuts: vec![], pend };
        for c in 0..case.calls.len() {
            if u.ratio(1u8, 4u8)? {
                case.calls[c].call_pad = u.int_in_range(0u16..=699)?;
            }
        }
        if u.ratio(1u8, 3u8)? {
            case.dial_calls(u.int_in_range(0usize..=5)?, u.int_in_range(-2i32..=2)?);
        }
        case.cuts = vcommon::frames::resolve_cuts(&plan, &case.reply_stream_bytes());
        Ok(case)
    }
    let mut u = Unstructured::new(data);
    let Ok(case) = decode(&mut u) else { return Ok(()) };
    c06::check_case(&case, &mut Stats::default())
}

/// C20: an operation list over the notified state of both runtimes (one byte per operation).
pub fn notified(data: &[u8]) -> CaseResult {
    let ops: Vec<c20::Op> = data
        .iter()
        .take(48)
        .map(|b| match b % 16 {
            14 | 15 => c20::Op::SetSame,
            0..=3 => c20::Op::Set,
            4 => c20::Op::SetClone,
            5 | 6 => c20::Op::Sub,
            7..=10 => c20::Op::Poll((b / 16) % 4),
            11 => c20::Op::DropSub((b / 16) % 3),
            12 => c20::Op::Clone,
            _ => c20::Op::DropOriginal,
        })
        .collect();
    c20::check_case(&c20::Case { ops }, &mut Stats::default())
}

/// Dispatch by target name (used by the replay path).
pub fn run_target(name: &str, data: &[u8]) -> CaseResult {
    match name {
        "idl_parse" => idl_parse(data),
        "json_ser" => json_ser(data),
        "frames_rx" => frames_rx(data),
        "chain_alias" => chain_alias(data),
        "srv_sim" => srv_sim(data),
        "tx_hist" => tx_hist(data),
        "chain_rx" => chain_rx(data),
        "notified" => notified(data),
        other => Err(Fail::new("bad-replay", format!("unknown fuzz target {other}"))),
    }
}

/// `vcheck fuzz-selftest`: drive every structured target with pseudo-random inputs in process (no
/// fuzzer): the decoders must terminate, produce runnable cases and the unchanged tree must pass.
pub fn selftest() -> i32 {
    let mut bad = 0;
    for t in ["srv_sim", "tx_hist", "chain_rx", "notified", "frames_rx", "chain_alias", "json_ser"] {
        let mut x = 0x2545_F491_4F6C_DD1Du64;
        let mut failed = 0;
        let n = 3000;
        for i in 0..n {
            let len = 1 + (i % 400);
            let mut data = Vec::with_capacity(len);
            while data.len() < len {
                x ^= x << 13;
                x ^= x >> 7;
                x ^= x << 17;
                data.extend_from_slice(&x.to_le_bytes());
            }
            data.truncate(len);
            let mut st = Stats::default();
            let r = vcommon::drv::guarded(&data, &mut st, &|d: &Vec<u8>, _| run_target(t, d));
            if let Err(f) = r {
                if failed == 0 {
                    println!("{t}: input {} fails its oracle: [{}] {}", hex(&data), f.sig, f.message);
                }
                failed += 1;
            }
        }
        println!("{t}: {n} pseudo-random inputs, {failed} failing");
        bad += failed;
    }
    if bad == 0 { 0 } else { 1 }
}
