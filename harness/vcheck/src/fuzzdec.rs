//! Byte-level entry points for the coverage-guided targets in /verif/fuzz: each decodes the
//! fuzzer's bytes into a structured case and runs the *same* oracle as the property's check. The
//! decoders are also used to replay a saved fuzz input (`lane = "fuzz"`, case = {"hex": ...}).

use arbitrary::Unstructured;
use vcommon::{
    drv::{CaseResult, Fail},
    ev::Stats,
    frames::B,
    rx::{RxCase, ALL_TARGETS},
};

use crate::{c03, c11, c13};

pub fn hex(bytes: &[u8]) -> String {
    bytes.iter().map(|b| format!("{b:02x}")).collect()
}

pub fn unhex(s: &str) -> Vec<u8> {
    (0..s.len() / 2).filter_map(|i| u8::from_str_radix(&s[2 * i..2 * i + 2], 16).ok()).collect()
}

// ---- C13: any bytes as (lossy) text ----

pub fn idl_parse(data: &[u8]) -> CaseResult {
    let text = String::from_utf8_lossy(data);
    let mut stats = Stats::default();
    c13::check_text(&text, None, &mut stats)
}

// ---- C03: bytes -> serde data-model tree ----

fn key(u: &mut Unstructured<'_>, depth: u32) -> arbitrary::Result<c03::K> {
    use c03::K;
    Ok(match u.int_in_range(0u8..=17)? {
        0 | 1 => K::Str(String::arbitrary_lossy(u)?),
        2 => K::Char(u.arbitrary()?),
        3 => K::I8(u.arbitrary()?),
        4 => K::I16(u.arbitrary()?),
        5 => K::I32(u.arbitrary()?),
        6 => K::I64(u.arbitrary()?),
        7 => K::I128(u.arbitrary()?),
        8 => K::U8(u.arbitrary()?),
        9 => K::U16(u.arbitrary()?),
        10 => K::U32(u.arbitrary()?),
        11 => K::U64(u.arbitrary()?),
        12 => K::U128(u.arbitrary()?),
        13 => K::UnitVariant(u.arbitrary()?),
        14 if depth > 0 => K::Newtype(Box::new(key(u, depth - 1)?)),
        15 => K::Bool(u.arbitrary()?),
        16 => K::F64(u.arbitrary()?),
        _ => K::Str(String::new()),
    })
}

trait LossyString {
    fn arbitrary_lossy(u: &mut Unstructured<'_>) -> arbitrary::Result<String>;
}
impl LossyString for String {
    fn arbitrary_lossy(u: &mut Unstructured<'_>) -> arbitrary::Result<String> {
        let n = u.int_in_range(0usize..=12)?;
        let mut s = String::new();
        for _ in 0..n {
            // bias towards escape-relevant characters
            let c = match u.int_in_range(0u8..=5)? {
                0 => char::from(u.int_in_range(0u8..=0x1f)?),
                1 => *u.choose(&['"', '\\', '/', '\u{7f}', '\u{2028}', '\u{ffff}', '\u{1F600}', '\u{e9}'])?,
                _ => u.arbitrary::<char>()?,
            };
            s.push(c);
        }
        Ok(s)
    }
}

fn value(u: &mut Unstructured<'_>, depth: u32) -> arbitrary::Result<c03::V> {
    use c03::V;
    let top = if depth == 0 { 20 } else { 29 };
    Ok(match u.int_in_range(0u8..=top)? {
        0 => V::Bool(u.arbitrary()?),
        1 => V::I8(u.arbitrary()?),
        2 => V::I16(u.arbitrary()?),
        3 => V::I32(u.arbitrary()?),
        4 => V::I64(u.arbitrary()?),
        5 => V::I128(u.arbitrary()?),
        6 => V::U8(u.arbitrary()?),
        7 => V::U16(u.arbitrary()?),
        8 => V::U32(u.arbitrary()?),
        9 => V::U64(u.arbitrary()?),
        10 => V::U128(u.arbitrary()?),
        11 => V::F32(u.arbitrary()?),
        12 => V::F64(u.arbitrary()?),
        13 => V::Char(u.arbitrary()?),
        14 | 15 => V::Str(String::arbitrary_lossy(u)?),
        16 => V::Bytes(u.arbitrary::<Vec<u8>>()?.into_iter().take(8).collect()),
        17 => V::None,
        18 => V::Unit,
        19 => V::UnitStruct,
        20 => V::UnitVariant(u.arbitrary()?),
        21 => V::Some(Box::new(value(u, depth - 1)?)),
        22 => V::NewtypeStruct(Box::new(value(u, depth - 1)?)),
        23 => V::NewtypeVariant(u.arbitrary()?, Box::new(value(u, depth - 1)?)),
        24 => V::Seq(values(u, depth - 1)?, u.arbitrary()?),
        25 => V::Tuple(values(u, depth - 1)?),
        26 => V::TupleVariant(u.arbitrary()?, values(u, depth - 1)?),
        27 => {
            let n = u.int_in_range(0usize..=4)?;
            let mut kv = Vec::new();
            for _ in 0..n {
                kv.push((key(u, 2)?, value(u, depth - 1)?));
            }
            V::Map(kv, u.arbitrary()?)
        }
        28 => {
            let n = u.int_in_range(0usize..=4)?;
            let mut f = Vec::new();
            for _ in 0..n {
                f.push((u.arbitrary()?, value(u, depth - 1)?));
            }
            V::Struct(f)
        }
        _ => {
            let n = u.int_in_range(0usize..=3)?;
            let mut f = Vec::new();
            for _ in 0..n {
                f.push((u.arbitrary()?, value(u, depth - 1)?));
            }
            V::StructVariant(u.arbitrary()?, f)
        }
    })
}

fn values(u: &mut Unstructured<'_>, depth: u32) -> arbitrary::Result<Vec<c03::V>> {
    let n = u.int_in_range(0usize..=4)?;
    (0..n).map(|_| value(u, depth)).collect()
}

pub fn json_ser(data: &[u8]) -> CaseResult {
    let mut u = Unstructured::new(data);
    let Ok(fill) = u.int_in_range(0usize..=600) else { return Ok(()) };
    let Ok(v) = value(&mut u, 4) else { return Ok(()) };
    let mut stats = Stats::default();
    c03::check_tree(&c03::TreeCase { v, fill }, &mut stats)
}

// ---- C01 / C07: header + the byte stream itself ----

pub fn frames_rx(data: &[u8]) -> CaseResult {
    if data.len() < 8 {
        return Ok(());
    }
    let (head, body) = data.split_at(8);
    let target = ALL_TARGETS[head[0] as usize % ALL_TARGETS.len()];
    // frames = the non-empty NUL-separated pieces of the body (at most 8, at most 2 KiB in total)
    let mut frames: Vec<B> = body.split(|&b| b == 0).filter(|f| !f.is_empty()).take(8).map(|f| B(f.to_vec())).collect();
    let mut total = 0;
    frames.retain(|f| {
        total += f.0.len() + 1;
        total <= 2048
    });
    if frames.is_empty() {
        return Ok(());
    }
    let len: usize = frames.iter().map(|f| f.0.len() + 1).sum();
    // cuts: head[1..5] scaled; head[5]: byte-at-a-time
    let mut cuts: Vec<usize> = if head[5] % 7 == 0 { (1..len).collect() } else { head[1..5].iter().map(|&r| 1 + (r as usize * len) / 256).filter(|&c| c < len).collect() };
    cuts.sort_unstable();
    cuts.dedup();
    let pend = vec![head[6] % 3, head[6] / 3 % 3];
    let chunks = cuts.len() + 1;
    let total_pending: usize = (0..chunks).map(|i| pend[i % 2] as usize).sum();
    let every = (head[7] % 5) as usize;
    let cancel: Vec<usize> = if every == 0 { vec![] } else { (1..=total_pending).filter(|n| n % every == 0).collect() };
    let case = RxCase { target, frames, cuts, pend, cancel };
    let run = case.run();
    case.judge(&run)
}

// ---- C11: reply lengths + cuts (class A is judged; runs under ASan in the fuzz build) ----

pub fn chain_alias(data: &[u8]) -> CaseResult {
    let mut u = Unstructured::new(data);
    let Ok(more) = u.arbitrary::<bool>() else { return Ok(()) };
    let Ok(n) = u.int_in_range(2usize..=6) else { return Ok(()) };
    let mut replies = Vec::new();
    for _ in 0..n {
        let len = match u.int_in_range(0u8..=3) {
            Ok(0) => u.int_in_range(0u16..=24).unwrap_or(0),
            Ok(1) => u.int_in_range(150u16..=300).unwrap_or(200),
            _ => u.int_in_range(0u16..=900).unwrap_or(5),
        };
        let term = if u.ratio(1u8, 8u8).unwrap_or(false) { u.int_in_range(1u8..=3).unwrap_or(0) } else { 0 };
        replies.push(c11::ReplySpec { len, err: u.ratio(1u8, 5u8).unwrap_or(false), continues: true, term });
    }
    let mut case = c11::Case { more, replies, cuts: vec![] };
    let len = case.stream().len();
    let k = u.int_in_range(0usize..=3).unwrap_or(0);
    let mut cuts: Vec<usize> = (0..k).filter_map(|_| u.int_in_range(1usize..=len.max(2) - 1).ok()).collect();
    cuts.sort_unstable();
    cuts.dedup();
    case.cuts = cuts;
    let (class, verdict) = c11::run_case(&case);
    match (class, verdict) {
        (c11::Class::B, _) => Ok(()),
        (_, Err(f)) if f.sig == "harness" => Ok(()),
        (_, v) => v,
    }
}

/// Dispatch by target name (used by the replay path).
pub fn run_target(name: &str, data: &[u8]) -> CaseResult {
    match name {
        "idl_parse" => idl_parse(data),
        "json_ser" => json_ser(data),
        "frames_rx" => frames_rx(data),
        "chain_alias" => chain_alias(data),
        other => Err(Fail::new("bad-replay", format!("unknown fuzz target {other}"))),
    }
}
