//! C11 — data borrowed from a received reply is never overwritten while still usable.

use std::{pin::Pin, sync::atomic::Ordering, task::Poll};

use proptest::prelude::*;
use serde::{Deserialize, Serialize};
use serde_json::json;
use vcommon::{
    alloc::QUARANTINE,
    drv::{par_enumerate, run_shards, CaseResult, Fail},
    ev::{hash_of, load_known, show_bytes, truncate, Ctx, Known, Report, Stats},
    exec::{poll_next_once, run_until_ready},
    frames::{chunk_plan_strategy, resolve_cuts, split_at_cuts, ChunkPlan},
    sim::{ReadEv, SimSocket},
    types::{BorrowedParams, ErrB, MethodA},
};
use zlink_core::{Call, Connection};

pub const RULE: &str = "case = a chain (or one `more` call) whose 2..6 replies carry borrowed string \
fields (success parameters or error parameters) of generated lengths - small, dialled so that the \
batch ends exactly at / one short of / one past a multiple of the 256-byte buffer step, or \
spanning several steps - delivered under a generated chunking; the harness keeps every yielded \
item (the &str borrowed from the connection) while polling for the later ones and after every \
further item re-reads all of them. Oracle: content equals the copy taken when the item was \
yielded, and the addresses of all held slices are mutually consistent with the frames' offsets in \
one buffer (a moved or reallocated buffer breaks this); the process runs with an allocator that \
poisons and quarantines freed 256-multiple blocks and always moves on realloc, so a stale slice \
reads 0xDD. Class B (some transport read ends exactly at the end of a reply other than the last one - a chunk of the input ends there, or the reply ends at a multiple of the 256-byte buffer step - so \
that zlink hands out an item while a later reply is still on the wire and needs another transport \
read) is the recorded known finding and is excluded by construction and counted; every other \
chunking is class A (zlink reads on until the buffered data ends at a frame boundary, so every \
reply is in the buffer before the first item is yielded) and is judged - the class depends on the \
input only, never on when the implementation chose to read. One reply in ten is replaced by a \
top-level failure of the exchange (an org.varlink.service error reply, a frame that is not JSON, or \
the peer closing): the stream must report it and end, and the items held from before must still \
read as they did. Non-trivial = at least 2 items held \
across at least 1 later poll_next in class A; distinct by hash of the case.";

const SIG_KNOWN: &str = "replystream-item-across-read";

#[derive(Debug, Clone, Serialize, Deserialize)]
pub struct ReplySpec {
    /// length of the borrowed string
    pub len: u16,
    /// 0 success, 1 error with a borrowed message
    pub err: bool,
    /// continues:true (only for the `more` form)
    pub continues: bool,
    /// 0 = an ordinary reply; otherwise the exchange fails here at the top level and the stream
    /// must end with an `Err` item: 1 = an org.varlink.service error reply, 2 = a frame that is
    /// not JSON, 3 = the peer closes instead of sending this reply, 4 = the transport read fails
    /// (connection reset) instead of delivering this reply. Later replies are not sent.
    #[serde(default)]
    pub term: u8,
    /// insignificant white space around the reply's JSON: 0 none, 1 "\n" after (what encoders
    /// that write one document per line send), 2 " " before, 3 "\r\n" after, 4 " " before and "\n" after
    #[serde(default)]
    pub ws: u8,
}

#[derive(Debug, Clone, Serialize, Deserialize)]
pub struct Case {
    /// true: one `more` call answered with a stream; false: a chain of plain calls
    pub more: bool,
    pub replies: Vec<ReplySpec>,
    pub cuts: Vec<usize>,
}

fn text_of(i: usize, len: usize) -> String {
    let alphabet = b"ABCDEFGHIJKLMNOPQRSTUVWXYZabcdefghijklmnopqrstuvwxyz";
    let c = alphabet[i % alphabet.len()] as char;
    std::iter::repeat(c).take(len).collect()
}

impl Case {
    /// Reply frames and, for each, the offset of the borrowed string inside the frame.
    /// Index of the reply at which the exchange fails at the top level, if any (never reply 0:
    /// something has to be held when it happens).
    pub fn term_at(&self) -> Option<usize> {
        self.replies.iter().enumerate().skip(1).find(|(_, r)| r.term != 0).map(|(i, _)| i)
    }
    pub fn closes(&self) -> bool {
        self.term_at().is_some_and(|i| self.replies[i].term >= 3)
    }
    pub fn frames(&self) -> Vec<(Vec<u8>, usize)> {
        let term_at = self.term_at();
        let sent = match term_at {
            Some(i) if self.replies[i].term >= 3 => i,
            Some(i) => i + 1,
            None => self.replies.len(),
        };
        let n = self.replies.len();
        self.replies[..sent]
            .iter()
            .enumerate()
            .map(|(i, r)| {
                let s = text_of(i, r.len as usize);
                let last = i == n - 1;
                if term_at == Some(i) {
                    return if r.term == 1 {
                        let head = r#"{"error":"org.varlink.service.MethodNotFound","parameters":{"method":""#;
                        (format!("{head}{s}\"}}}}").into_bytes(), head.len())
                    } else {
                        (format!("}}{{{s}").into_bytes(), 2)
                    };
                }
                let (pre, post) = match r.ws {
                    1 => ("", "\n"),
                    2 => (" ", ""),
                    3 => ("", "\r\n"),
                    4 => (" ", "\n"),
                    _ => ("", ""),
                };
                if r.err && (!self.more || last) {
                    let head = r#"{"error":"org.example.Worse","parameters":{"code":1,"msg":""#;
                    (format!("{pre}{head}{s}\"}}}}{post}").into_bytes(), pre.len() + head.len())
                } else {
                    let head = r#"{"parameters":{"n":1,"name":""#;
                    let tail = if self.more && !last { "\"},\"continues\":true}" } else { "\"}}" };
                    (format!("{pre}{head}{s}{tail}{post}").into_bytes(), pre.len() + head.len())
                }
            })
            .collect()
    }
    pub fn stream(&self) -> Vec<u8> {
        let mut v = Vec::new();
        for (f, _) in self.frames() {
            v.extend(f);
            v.push(0);
        }
        v
    }
}

#[derive(Debug)]
struct Held<'c> {
    slice: &'c str,
    copy: String,
    /// offset of the slice in the reply byte stream
    stream_off: usize,
}

#[derive(Debug, PartialEq, Eq)]
pub enum Class {
    A,
    B,
}

/// Run the case; returns the class it turned out to be and the verdict for it.
pub fn run_case(case: &Case) -> (Class, CaseResult) {
    let stream = case.stream();
    let chunks = split_at_cuts(&stream, &case.cuts);
    let mut script: Vec<ReadEv> = chunks.into_iter().map(ReadEv::Data).collect();
    if case.closes() {
        script.push(if case.term_at().is_some_and(|i| case.replies[i].term == 4) { ReadEv::Err } else { ReadEv::Eof });
    }
    let term_at = case.term_at();
    let (sock, handle) = SimSocket::with_script(script);
    let mut conn = Connection::new(sock);
    let frames = case.frames();
    let mut offs = Vec::new();
    let mut o = 0;
    for (f, inner) in &frames {
        offs.push(o + inner);
        o += f.len() + 1;
    }
    let n_calls = if case.more { 1 } else { case.replies.len() };
    let calls: Vec<Call<MethodA<'static>>> = (0..n_calls).map(|_| Call::new(MethodA::Ping).set_more(case.more)).collect();
    let mut chain = match conn.chain_call::<MethodA<'_>, BorrowedParams<'_>, ErrB<'_>>(&calls[0]) {
        Ok(c) => c,
        Err(e) => return (Class::A, Err(Fail::new("harness", format!("{e:?}")))),
    };
    for c in &calls[1..] {
        chain = match chain.append(c) {
            Ok(c) => c,
            Err(e) => return (Class::A, Err(Fail::new("harness", format!("{e:?}")))),
        };
    }
    let s = match run_until_ready(chain.send(), 8) {
        Some(Ok(s)) => s,
        other => return (Class::A, Err(Fail::new("harness", format!("send: {:?}", other.map(|r| r.map(|_| ())))))),
    };
    let mut s = std::pin::pin!(s);
    let mut held: Vec<Held<'_>> = Vec::new();
    let mut yielded = 0usize;
    // The class is a property of the *input*: class B = some chunk ends exactly at the end of a
    // reply that is not the last one. Only then does zlink (which keeps reading until the buffered
    // data ends at a frame boundary) hand out an item while a later reply is still on the wire,
    // which is the recorded finding. With any other chunking every reply has been read before the
    // first item is yielded; an implementation that yields earlier all the same is not excused -
    // the items it hands out must stay intact like any others.
    let mut frame_end = 0usize;
    let mut boundary_cut = false;
    for (f, _) in &frames {
        frame_end += f.len() + 1;
        // the transport is never offered more than the free part of the receive buffer, which
        // grows in 256-byte steps once it is full: every multiple of 256 is a read boundary too
        if frame_end < stream.len() && (case.cuts.contains(&frame_end) || frame_end % 256 == 0) {
            boundary_cut = true;
        }
    }
    let class = if boundary_cut { Class::B } else { Class::A };
    let mut early_yield = false;
    let total = stream.len() as u64;
    let mut polls = 0;
    loop {
        let p: Pin<&mut _> = s.as_mut();
        match poll_next_once(p) {
            Poll::Pending => {
                polls += 1;
                if polls > 8 {
                    return (class, Err(Fail::new("reply-stream-stalls", "every reply has been delivered to the transport, but the stream stays pending (a reply was lost)")));
                }
                continue;
            }
            Poll::Ready(None) => {
                // the stream is over: everything yielded must still read as it did
                if class == Class::A {
                    if let Err(f) = recheck(&held, "the stream ended") {
                        return (class, Err(f));
                    }
                }
                break;
            }
            Poll::Ready(Some(item)) => {
                let idx = yielded;
                yielded += 1;
                let slice: Option<&str> = match item {
                    Ok(Ok(reply)) => match reply.into_parameters() {
                        Some(p) => Some(p.name),
                        None => return (class, Err(Fail::new("harness", "reply without parameters"))),
                    },
                    Ok(Err(ErrB::Worse { msg, .. })) => Some(msg),
                    Err(_) if term_at == Some(idx) => None,
                    other => return (class, Err(Fail::new("harness", format!("item {idx}: {other:?}")))),
                };
                if idx == 0 && handle.read.borrow().bytes < total {
                    early_yield = true;
                }
                if let Some(slice) = slice {
                    if idx >= offs.len() {
                        return (class, Err(Fail::new("reply-stream-item-count", "more items than replies")));
                    }
                    held.push(Held { slice, copy: slice.to_string(), stream_off: offs[idx] });
                }
                if class == Class::B {
                    // Known finding: do not touch earlier items any more (they may dangle).
                    continue;
                }
                // re-read everything held so far
                let expect_first = text_of(0, case.replies[0].len as usize);
                if held[0].copy != expect_first {
                    return (class, Err(Fail::new("item-wrong-when-yielded", format!("item 0 was {:?}", truncate(&held[0].copy, 40)))));
                }
                let when = if slice.is_some() { format!("item {idx} was obtained") } else { format!("item {idx} reported the failure of the exchange") };
                if let Err(f) = recheck(&held, &when) {
                    return (class, Err(f));
                }
            }
        }
    }
    let expect_items = term_at.unwrap_or(case.replies.len());
    if held.len() != expect_items || yielded != expect_items + term_at.is_some() as usize {
        return (class, Err(Fail::new("reply-stream-item-count", format!("{} items ({} with data) for {} replies", yielded, held.len(), case.replies.len()))));
    }
    let _ = early_yield;
    (class, Ok(()))
}

/// Re-read every held slice: content as when it was yielded, addresses consistent with one buffer.
fn recheck(held: &[Held<'_>], when: &str) -> CaseResult {
    for (k, h) in held.iter().enumerate() {
        let now: &str = h.slice;
        if now.as_bytes() != h.copy.as_bytes() {
            return Err(Fail::new(
                "held-item-content-changed",
                format!(
                    "item {k} read {:?} when it was yielded and reads {:?} after {when}",
                    truncate(&h.copy, 40),
                    truncate(&show_bytes(now.as_bytes()), 60)
                ),
            ));
        }
        let d_addr = (h.slice.as_ptr() as isize).wrapping_sub(held[0].slice.as_ptr() as isize);
        let d_off = h.stream_off as isize - held[0].stream_off as isize;
        if d_addr != d_off {
            return Err(Fail::new(
                "held-items-not-in-one-buffer",
                format!(
                    "item {k} lies {d_addr} bytes from item 0 but its frame starts {d_off} bytes later in the stream: the receive buffer moved or was compacted while item 0 was held ({when})"
                ),
            ));
        }
    }
    Ok(())
}

/// The witness of the known finding: two small replies in two reads; no reallocation happens, the
/// second read overwrites the first reply in place. Returns Some(description) if it reproduces.
pub fn witness() -> Option<String> {
    let case = Case {
        more: false,
        replies: vec![ReplySpec { len: 8, err: false, continues: false, term: 0, ws: 0 }, ReplySpec { len: 8, err: false, continues: false, term: 0, ws: 0 }],
        cuts: vec![],
    };
    let stream = case.stream();
    let first_len = case.frames()[0].0.len() + 1;
    let (sock, _handle) = SimSocket::with_script([ReadEv::Data(stream[..first_len].to_vec()), ReadEv::Data(stream[first_len..].to_vec())]);
    let mut conn = Connection::new(sock);
    let c = Call::new(MethodA::Ping);
    let chain = conn.chain_call::<MethodA<'_>, BorrowedParams<'_>, ErrB<'_>>(&c).ok()?.append(&c).ok()?;
    let s = run_until_ready(chain.send(), 8)?.ok()?;
    let mut s = std::pin::pin!(s);
    let first: &str = match poll_next_once(s.as_mut()) {
        Poll::Ready(Some(Ok(Ok(r)))) => r.into_parameters()?.name,
        _ => return None,
    };
    let copy = first.to_string();
    let _second = match poll_next_once(s.as_mut()) {
        Poll::Ready(Some(Ok(Ok(r)))) => r.into_parameters()?.name,
        _ => return None,
    };
    // same allocation (the buffer did not grow), so this read stays inside live memory
    if first.as_bytes() != copy.as_bytes() {
        Some(format!(
            "chain of 2 calls, replies delivered in 2 reads: item 0 read {copy:?} when yielded and reads {:?} after item 1 arrived",
            show_bytes(first.as_bytes())
        ))
    } else {
        None
    }
}

fn reply_strategy() -> impl Strategy<Value = ReplySpec> {
    (
        prop_oneof![4 => 0u16..24, 2 => 150u16..300, 1 => 0u16..900],
        prop::bool::weighted(0.2),
        any::<bool>(),
        // one reply in ten is where the exchange fails at the top level
        prop_oneof![9 => Just(0u8), 1 => 1u8..=4],
        prop_oneof![6 => Just(0u8), 2 => Just(1u8), 1 => 2u8..=4],
    )
        .prop_map(|(len, err, continues, term, ws)| ReplySpec { len, err, continues, term, ws })
}

/// Adjust the last reply so that the batch length hits k*256 + delta.
fn dial(mut case: Case, delta: i32) -> Case {
    let total = case.stream().len() as i64;
    let target = ((total / 256) + 1) * 256 + delta as i64;
    let grow = target - total;
    if grow > 0 {
        let last = case.replies.len() - 1;
        case.replies[last].len = case.replies[last].len.saturating_add(grow as u16);
    }
    case
}

pub fn case_strategy() -> impl Strategy<Value = Case> {
    (
        any::<bool>(),
        prop::collection::vec(reply_strategy(), 2..=6),
        prop_oneof![6 => Just(ChunkPlan::One), 2 => chunk_plan_strategy()],
        prop::option::weighted(0.5, -2i32..=2),
    )
        .prop_map(|(more, replies, plan, dial_to)| {
            let mut case = Case { more, replies, cuts: vec![] };
            if let Some(d) = dial_to {
                case = dial(case, d);
            }
            case.cuts = resolve_cuts(&plan, &case.stream());
            case
        })
}

pub fn check_case(case: &Case, stats: &mut Stats) -> CaseResult {
    stats.sample(|| json!({"more": case.more, "reply_lengths": case.replies.iter().map(|r| r.len).collect::<Vec<_>>(), "batch_bytes": case.stream().len(), "cuts": case.cuts}));
    let (class, verdict) = run_case(case);
    match class {
        Class::A => {
            stats.class("class-A(all replies buffered before the first item)");
            stats.nontrivial_hash(hash_of(&(case.more, case.replies.iter().map(|r| (r.len, r.err, r.term)).collect::<Vec<_>>(), &case.cuts)));
            match case.term_at().map(|i| case.replies[i].term) {
                Some(1) => stats.class("class-A:ends-with-service-error-reply"),
                Some(2) => stats.class("class-A:ends-with-undecodable-reply"),
                Some(3) => stats.class("class-A:ends-with-peer-close"),
                Some(_) => stats.class("class-A:ends-with-transport-read-error"),
                None => {}
            }
            let total = case.stream().len();
            if total % 256 == 0 {
                stats.class("class-A:batch-ends-exactly-at-a-256-step");
            }
            if total > 256 {
                stats.class("class-A:buffer-grew-during-the-batch");
            }
            verdict
        }
        Class::B => {
            stats.class("class-B(excluded: known finding)");
            stats.excluded(SIG_KNOWN);
            // harness errors are still errors
            match verdict {
                Err(f) if f.sig == "harness" || f.sig.starts_with("reply-stream-") => Err(f),
                _ => Ok(()),
            }
        }
    }
}

pub fn run(ctx: &Ctx) -> i32 {
    QUARANTINE.store(true, Ordering::SeqCst);
    let known: Vec<Known> = load_known("C11");
    let mut hits = Vec::new();
    let mut viol = Vec::new();
    let listed = known.iter().find(|k| k.sig == SIG_KNOWN).cloned();
    let w = witness();
    match (&listed, &w) {
        (Some(k), Some(what)) => hits.push((k.clone(), what.clone())),
        (None, Some(what)) => viol.push(vcommon::ev::Violation {
            sig: SIG_KNOWN.into(),
            lane: "witness".into(),
            case: json!({"witness": true}),
            message: what.clone(),
        }),
        _ => {}
    }
    let (shards, cases) = ctx.tier.pick((16, 16000), (64, 40_000));
    let (mut stats, v1) = run_shards(ctx, "random", shards, cases, case_strategy, check_case);
    viol.extend(v1);
    // directed: every batch length around the first 4 steps, one read
    let mut directed = Vec::new();
    for n in 2..=4usize {
        for total in 200..=1100usize {
            let mut case = Case { more: n % 2 == 0, replies: (0..n).map(|i| ReplySpec { len: (i * 7 % 30) as u16, err: i == 1 && n == 3, continues: true, term: 0, ws: ((i + n) % 5) as u8 }).collect(), cuts: vec![] };
            let base = case.stream().len();
            if total < base {
                continue;
            }
            let last = n - 1;
            case.replies[last].len += (total - base) as u16;
            directed.push(case);
        }
    }
    let (s2, v2) = par_enumerate(ctx, "directed-batch-lengths", directed.len() as u64, |i, stats| {
        stats.eval();
        match check_case(&directed[i as usize], stats) {
            Ok(()) => vec![],
            Err(f) => vec![(f, serde_json::to_value(&directed[i as usize]).unwrap())],
        }
    });
    stats.merge(s2);
    viol.extend(v2);
    crate::fuzzrun::golden("chain_alias", &mut stats, &mut viol);
    if ctx.tier == vcommon::ev::Tier::Thorough {
        let seeds: Vec<Vec<u8>> = (0..32u8).map(|i| vec![i.wrapping_mul(37); 20 + i as usize]).collect();
        crate::fuzzrun::campaign(ctx, "chain_alias", crate::fuzzrun::fuzz_secs(180), &seeds, &mut stats, &mut viol);
    }
    QUARANTINE.store(false, Ordering::SeqCst);
    Report::new(RULE)
        .assume("native execution: a changed, moved or freed buffer is observed through content (freed 256-multiple blocks are poisoned and quarantined by the harness allocator) and through the relative addresses of the held slices")
        .assume("class B (a later reply arrives in a separate transport read while an earlier item is held) is excluded: it is the known finding replystream-item-across-read; earlier items are not read again in that class")
        .extra("directed_cases", json!(directed.len()))
        .extra("witness_reproduced", json!(w.is_some()))
        .finish(ctx, &stats, &viol, &hits)
}

pub fn replay(lane: &str, case: serde_json::Value) -> CaseResult {
    if lane == "fuzz" {
        return crate::fuzzrun::replay(&case);
    }
    QUARANTINE.store(true, Ordering::SeqCst);
    if lane == "witness" {
        return match witness() {
            Some(what) => Err(Fail::new(SIG_KNOWN, what)),
            None => Ok(()),
        };
    }
    let case: Case = serde_json::from_value(case).map_err(|e| Fail::new("bad-replay", e.to_string()))?;
    println!("batch of {} bytes, reply lengths {:?}, cuts {:?}", case.stream().len(), case.replies.iter().map(|r| r.len).collect::<Vec<_>>(), case.cuts);
    let (class, verdict) = run_case(&case);
    println!("class {class:?}");
    if class == Class::B {
        println!("(class B is the known finding; not judged)");
        return Ok(());
    }
    verdict
}
