//! C03 — the built-in JSON serializer is byte-identical to serde_json's compact output.

use std::collections::BTreeMap;

use proptest::prelude::*;
use serde::{
    ser::{
        SerializeMap, SerializeSeq, SerializeStruct, SerializeStructVariant, SerializeTuple,
        SerializeTupleStruct, SerializeTupleVariant,
    },
    Deserialize, Serialize, Serializer,
};
use serde_json::json;
use vcommon::{
    drv::{par_enumerate, run_shards, CaseResult, Fail},
    ev::{hash_of, show_bytes, truncate, Ctx, Report, Stats, Tier},
    exec::run_until_ready,
    sim::SimSocket,
};
use zlink_core::{__verif::json_to_slice, Connection, Reply};

pub const RULE: &str = "lanes: (a) every Unicode scalar as 1-char &str, as char and as map key \
(exhaustive); (b) all pairs and triples over an escape-relevant alphabet (exhaustive); (c) all \
i8/u8/i16/u16 as values and as keys (exhaustive), boundary and random wider integers and f64, \
random f32 bit patterns in quick and all 2^32 f32 bit patterns in thorough; (d) proptest trees \
over the whole serde data model (hand-written Serialize calling every Serializer method, with and \
without length hints, names needing escapes) with allowed and refused key kinds; (e) for sampled \
values every buffer length 0..=L+2; (f) sampled trees through the public send path at dialled \
fill positions. Oracle: byte equality with serde_json::to_vec for values whose keys are strings / \
chars / integers / unit variants (optionally newtype-wrapped); an error for any other key kind; \
BufferTooSmall below L and identical bytes from L on. Non-trivial = a tree of depth >= 2 \
containing a map or an enum-variant wrapper, or a string with an escaped character; scalars count \
once per distinct value.";

// ---------------------------------------------------------------------------------------------
// The serde data model as a value.

const NAMES: [&str; 8] = [
    "a",
    "name",
    "q\"uote",
    "tab\there",
    "\u{e9}t\u{e9}",
    "",
    "back\\slash",
    "ctl\u{1}\u{7f}\u{2028}",
];

#[derive(Debug, Clone, PartialEq, Deserialize, serde::Serialize)]
pub enum V {
    Bool(bool),
    I8(i8),
    I16(i16),
    I32(i32),
    I64(i64),
    I128(i128),
    U8(u8),
    U16(u16),
    U32(u32),
    U64(u64),
    U128(u128),
    F32(u32),
    F64(u64),
    Char(char),
    Str(String),
    Bytes(Vec<u8>),
    None,
    Some(Box<V>),
    Unit,
    UnitStruct,
    UnitVariant(u8),
    NewtypeStruct(Box<V>),
    NewtypeVariant(u8, Box<V>),
    Seq(Vec<V>, bool),
    Tuple(Vec<V>),
    TupleStruct(Vec<V>),
    TupleVariant(u8, Vec<V>),
    Map(Vec<(K, V)>, bool),
    Struct(Vec<(u8, V)>),
    StructVariant(u8, Vec<(u8, V)>),
    /// `Serializer::collect_str` of a value whose `Display` writes these pieces one by one.
    CollectStr(Vec<String>),
    /// `Serializer::collect_seq` over an iterator with (true) or without an exact size hint.
    CollectSeq(Vec<V>, bool),
    /// `Serializer::collect_map`.
    CollectMap(Vec<(K, V)>),
    /// The answer of `Serializer::is_human_readable`, as a bool (serde_json: true).
    HumanReadable,
    /// A std network address (kind, address bits, port): these types choose their representation
    /// through `is_human_readable` and write it with `collect_str` / a formatted string.
    Net(u8, u128, u16),
}

/// Map keys. The first group must be accepted, the second refused.
#[derive(Debug, Clone, PartialEq, Deserialize, serde::Serialize)]
pub enum K {
    Str(String),
    Char(char),
    I8(i8),
    I16(i16),
    I32(i32),
    I64(i64),
    I128(i128),
    U8(u8),
    U16(u16),
    U32(u32),
    U64(u64),
    U128(u128),
    UnitVariant(u8),
    Newtype(Box<K>),
    /// A key written with `collect_str` (a string, hence allowed).
    CollectStr(Vec<String>),
    /// A std network address as key (written as a string by a human-readable serializer).
    Net(u8, u128, u16),
    // refused kinds
    Bool(bool),
    F32(u32),
    F64(u64),
    Bytes(Vec<u8>),
    Unit,
    UnitStruct,
    None,
    Some(Box<K>),
    Seq,
    Tuple,
    TupleStruct,
    TupleVariant,
    Map,
    Struct,
    StructVariant,
    NewtypeVariant(Box<K>),
}

/// Case wrapper with plain (derived) serde for replay files.
#[derive(Debug, Clone, Serialize, Deserialize)]
pub struct TreeCase {
    pub v: V,
    /// Bytes already in the write buffer when the value is sent through the public path.
    pub fill: usize,
}

impl K {
    pub fn allowed(&self) -> bool {
        match self {
            K::Str(_) | K::Char(_) | K::I8(_) | K::I16(_) | K::I32(_) | K::I64(_) | K::I128(_)
            | K::U8(_) | K::U16(_) | K::U32(_) | K::U64(_) | K::U128(_) | K::UnitVariant(_) | K::CollectStr(_) | K::Net(..) => true,
            K::Newtype(k) => k.allowed(),
            _ => false,
        }
    }
}

impl V {
    pub fn has_refused_key(&self) -> bool {
        match self {
            V::Some(v) | V::NewtypeStruct(v) | V::NewtypeVariant(_, v) => v.has_refused_key(),
            V::Seq(vs, _) | V::Tuple(vs) | V::TupleStruct(vs) | V::TupleVariant(_, vs) | V::CollectSeq(vs, _) => {
                vs.iter().any(V::has_refused_key)
            }
            V::Map(kvs, _) | V::CollectMap(kvs) => kvs.iter().any(|(k, v)| !k.allowed() || v.has_refused_key()),
            V::Struct(fs) | V::StructVariant(_, fs) => fs.iter().any(|(_, v)| v.has_refused_key()),
            _ => false,
        }
    }
    pub fn depth(&self) -> usize {
        match self {
            V::Some(v) | V::NewtypeStruct(v) | V::NewtypeVariant(_, v) => 1 + v.depth(),
            V::Seq(vs, _) | V::Tuple(vs) | V::TupleStruct(vs) | V::TupleVariant(_, vs) | V::CollectSeq(vs, _) => {
                1 + vs.iter().map(V::depth).max().unwrap_or(0)
            }
            V::Map(kvs, _) | V::CollectMap(kvs) => 1 + kvs.iter().map(|(_, v)| v.depth()).max().unwrap_or(0),
            V::Struct(fs) | V::StructVariant(_, fs) => {
                1 + fs.iter().map(|(_, v)| v.depth()).max().unwrap_or(0)
            }
            _ => 0,
        }
    }
    pub fn has_map_or_variant(&self) -> bool {
        match self {
            V::Map(..) | V::CollectMap(..) | V::NewtypeVariant(..) | V::TupleVariant(..) | V::StructVariant(..) => true,
            V::Some(v) | V::NewtypeStruct(v) => v.has_map_or_variant(),
            V::Seq(vs, _) | V::Tuple(vs) | V::TupleStruct(vs) | V::CollectSeq(vs, _) => vs.iter().any(V::has_map_or_variant),
            V::Struct(fs) => fs.iter().any(|(_, v)| v.has_map_or_variant()),
            _ => false,
        }
    }
}

fn name(i: u8) -> &'static str {
    NAMES[i as usize % NAMES.len()]
}

/// `Display` that hands its pieces to the formatter one `write_str` at a time.
pub struct Pieces<'a>(pub &'a [String]);
impl std::fmt::Display for Pieces<'_> {
    fn fmt(&self, f: &mut std::fmt::Formatter<'_>) -> std::fmt::Result {
        use std::fmt::Write;
        for p in self.0 {
            // a one-character piece goes through `write_char`, a number through the formatting
            // machinery, anything else through `write_str`
            let mut cs = p.chars();
            match (cs.next(), cs.next()) {
                (Some(c), None) => f.write_char(c)?,
                _ => match p.parse::<i64>() {
                    Ok(n) if n.to_string() == *p => write!(f, "{n}")?,
                    _ => f.write_str(p)?,
                },
            }
        }
        Ok(())
    }
}

/// Serialize the std network address selected by (kind, bits, port).
fn serialize_net<S: Serializer>(kind: u8, bits: u128, port: u16, s: S) -> Result<S::Ok, S::Error> {
    use std::net::{IpAddr, Ipv4Addr, Ipv6Addr, SocketAddr, SocketAddrV4, SocketAddrV6};
    let v4 = Ipv4Addr::from(bits as u32);
    let v6 = Ipv6Addr::from(bits);
    match kind % 8 {
        0 => v4.serialize(s),
        1 => v6.serialize(s),
        2 => IpAddr::V4(v4).serialize(s),
        3 => IpAddr::V6(v6).serialize(s),
        4 => SocketAddr::V4(SocketAddrV4::new(v4, port)).serialize(s),
        5 => SocketAddr::V6(SocketAddrV6::new(v6, port, 0, 0)).serialize(s),
        6 => SocketAddrV4::new(v4, port).serialize(s),
        _ => SocketAddrV6::new(v6, port, 0, 0).serialize(s),
    }
}

/// Hand-written: calls exactly the `Serializer` method that corresponds to the variant.
pub struct SV<'a>(pub &'a V);
pub struct SK<'a>(pub &'a K);

impl Serialize for SV<'_> {
    fn serialize<S: Serializer>(&self, s: S) -> Result<S::Ok, S::Error> {
        match self.0 {
            V::Bool(b) => s.serialize_bool(*b),
            V::I8(x) => s.serialize_i8(*x),
            V::I16(x) => s.serialize_i16(*x),
            V::I32(x) => s.serialize_i32(*x),
            V::I64(x) => s.serialize_i64(*x),
            V::I128(x) => s.serialize_i128(*x),
            V::U8(x) => s.serialize_u8(*x),
            V::U16(x) => s.serialize_u16(*x),
            V::U32(x) => s.serialize_u32(*x),
            V::U64(x) => s.serialize_u64(*x),
            V::U128(x) => s.serialize_u128(*x),
            V::F32(b) => s.serialize_f32(f32::from_bits(*b)),
            V::F64(b) => s.serialize_f64(f64::from_bits(*b)),
            V::Char(c) => s.serialize_char(*c),
            V::Str(x) => s.serialize_str(x),
            V::Bytes(b) => s.serialize_bytes(b),
            V::None => s.serialize_none(),
            V::Some(v) => s.serialize_some(&SV(v)),
            V::Unit => s.serialize_unit(),
            V::UnitStruct => s.serialize_unit_struct(name(2)),
            V::UnitVariant(i) => s.serialize_unit_variant("E", *i as u32, name(*i)),
            V::NewtypeStruct(v) => s.serialize_newtype_struct(name(3), &SV(v)),
            V::NewtypeVariant(i, v) => s.serialize_newtype_variant("E", *i as u32, name(*i), &SV(v)),
            V::Seq(vs, hint) => {
                let mut q = s.serialize_seq(if *hint { Some(vs.len()) } else { None })?;
                for v in vs {
                    q.serialize_element(&SV(v))?;
                }
                q.end()
            }
            V::Tuple(vs) => {
                let mut q = s.serialize_tuple(vs.len())?;
                for v in vs {
                    q.serialize_element(&SV(v))?;
                }
                q.end()
            }
            V::TupleStruct(vs) => {
                let mut q = s.serialize_tuple_struct(name(1), vs.len())?;
                for v in vs {
                    q.serialize_field(&SV(v))?;
                }
                q.end()
            }
            V::TupleVariant(i, vs) => {
                let mut q = s.serialize_tuple_variant("E", *i as u32, name(*i), vs.len())?;
                for v in vs {
                    q.serialize_field(&SV(v))?;
                }
                q.end()
            }
            V::Map(kvs, hint) => {
                let mut m = s.serialize_map(if *hint { Some(kvs.len()) } else { None })?;
                for (i, (k, v)) in kvs.iter().enumerate() {
                    if i % 2 == 0 {
                        m.serialize_entry(&SK(k), &SV(v))?;
                    } else {
                        m.serialize_key(&SK(k))?;
                        m.serialize_value(&SV(v))?;
                    }
                }
                m.end()
            }
            V::Struct(fs) => {
                let mut m = s.serialize_struct(name(4), fs.len())?;
                for (n, v) in fs {
                    m.serialize_field(name(*n), &SV(v))?;
                }
                m.end()
            }
            V::StructVariant(i, fs) => {
                let mut m = s.serialize_struct_variant("E", *i as u32, name(*i), fs.len())?;
                for (n, v) in fs {
                    m.serialize_field(name(*n), &SV(v))?;
                }
                m.end()
            }
            V::CollectStr(p) => s.collect_str(&Pieces(p)),
            V::CollectSeq(vs, exact) => {
                if *exact {
                    s.collect_seq(vs.iter().map(SV))
                } else {
                    // `filter` loses the exact size hint
                    s.collect_seq(vs.iter().filter(|_| true).map(SV))
                }
            }
            V::CollectMap(kvs) => s.collect_map(kvs.iter().map(|(k, v)| (SK(k), SV(v)))),
            V::HumanReadable => {
                let h = s.is_human_readable();
                s.serialize_bool(h)
            }
            V::Net(kind, bits, port) => serialize_net(*kind, *bits, *port, s),
        }
    }
}

impl Serialize for SK<'_> {
    fn serialize<S: Serializer>(&self, s: S) -> Result<S::Ok, S::Error> {
        match self.0 {
            K::Str(x) => s.serialize_str(x),
            K::Char(c) => s.serialize_char(*c),
            K::I8(x) => s.serialize_i8(*x),
            K::I16(x) => s.serialize_i16(*x),
            K::I32(x) => s.serialize_i32(*x),
            K::I64(x) => s.serialize_i64(*x),
            K::I128(x) => s.serialize_i128(*x),
            K::U8(x) => s.serialize_u8(*x),
            K::U16(x) => s.serialize_u16(*x),
            K::U32(x) => s.serialize_u32(*x),
            K::U64(x) => s.serialize_u64(*x),
            K::U128(x) => s.serialize_u128(*x),
            K::UnitVariant(i) => s.serialize_unit_variant("E", *i as u32, name(*i)),
            K::Newtype(k) => s.serialize_newtype_struct("N", &SK(k)),
            K::CollectStr(p) => s.collect_str(&Pieces(p)),
            K::Net(kind, bits, port) => serialize_net(*kind, *bits, *port, s),
            K::Bool(b) => s.serialize_bool(*b),
            K::F32(b) => s.serialize_f32(f32::from_bits(*b)),
            K::F64(b) => s.serialize_f64(f64::from_bits(*b)),
            K::Bytes(b) => s.serialize_bytes(b),
            K::Unit => s.serialize_unit(),
            K::UnitStruct => s.serialize_unit_struct("U"),
            K::None => s.serialize_none(),
            K::Some(k) => s.serialize_some(&SK(k)),
            K::Seq => {
                let mut q = s.serialize_seq(Some(1))?;
                q.serialize_element(&1)?;
                q.end()
            }
            K::Tuple => {
                let mut q = s.serialize_tuple(1)?;
                q.serialize_element(&1)?;
                q.end()
            }
            K::TupleStruct => {
                let mut q = s.serialize_tuple_struct("T", 1)?;
                q.serialize_field(&1)?;
                q.end()
            }
            K::TupleVariant => {
                let mut q = s.serialize_tuple_variant("E", 0, "V", 1)?;
                q.serialize_field(&1)?;
                q.end()
            }
            K::Map => {
                let mut m = s.serialize_map(Some(1))?;
                m.serialize_entry("k", &1)?;
                m.end()
            }
            K::Struct => {
                let mut m = s.serialize_struct("S", 1)?;
                m.serialize_field("k", &1)?;
                m.end()
            }
            K::StructVariant => {
                let mut m = s.serialize_struct_variant("E", 0, "V", 1)?;
                m.serialize_field("k", &1)?;
                m.end()
            }
            K::NewtypeVariant(k) => s.serialize_newtype_variant("E", 0, "V", &SK(k)),
        }
    }
}

impl std::fmt::Debug for SV<'_> {
    fn fmt(&self, f: &mut std::fmt::Formatter<'_>) -> std::fmt::Result {
        self.0.fmt(f)
    }
}

// ---------------------------------------------------------------------------------------------
// Oracle

#[derive(Debug, PartialEq)]
pub enum Enc {
    Bytes(Vec<u8>),
    KeyRefused,
    TooSmall,
}

pub fn zlink_encode<T: Serialize + ?Sized>(v: &T, buf: &mut [u8]) -> Enc {
    match json_to_slice(v, buf) {
        Ok(n) => Enc::Bytes(buf[..n].to_vec()),
        Err(zlink_core::__verif::JsonSerError::KeyMustBeAString) => Enc::KeyRefused,
        Err(zlink_core::__verif::JsonSerError::BufferTooSmall) => Enc::TooSmall,
    }
}

/// Compare one value (with keys of the allowed kinds only) against serde_json.
fn same_as_serde_json<T: Serialize + ?Sized>(v: &T, buf: &mut [u8], what: &dyn Fn() -> String) -> CaseResult {
    let reference = serde_json::to_vec(v).map_err(|e| Fail::new("harness", format!("serde_json refused {}: {e}", what())))?;
    match json_to_slice(v, buf) {
        Ok(n) if buf[..n] == reference[..] => {
            // consequences the statement names explicitly
            if reference.iter().any(|&b| b < 0x20) || std::str::from_utf8(&reference).is_err() {
                return Err(Fail::new("ser-control-or-non-utf8", format!("{}: output contains a raw control byte or is not UTF-8", what())));
            }
            Ok(())
        }
        Ok(n) => Err(Fail::new(
            "ser-bytes-differ",
            format!(
                "{}: zlink {} != serde_json {}",
                what(),
                truncate(&show_bytes(&buf[..n]), 200),
                truncate(&show_bytes(&reference), 200)
            ),
        )),
        Err(e) => Err(Fail::new(
            "ser-error-on-valid-value",
            format!("{}: zlink returned {e:?}, serde_json {}", what(), truncate(&show_bytes(&reference), 120)),
        )),
    }
}

const ALPHABET_EXTRA: [char; 9] = ['"', '\\', '/', '\u{7f}', 'a', '\u{e9}', '\u{2028}', '\u{ffff}', '\u{1F600}'];

fn escape_alphabet() -> Vec<char> {
    let mut v: Vec<char> = (0u8..0x20).map(|b| b as char).collect();
    v.extend(ALPHABET_EXTRA);
    v
}

fn needs_escape(s: &str) -> bool {
    s.chars().any(|c| (c as u32) < 0x20 || c == '"' || c == '\\')
}

// ---------------------------------------------------------------------------------------------
// Strategies

fn string_strategy() -> impl Strategy<Value = String> {
    let alpha = escape_alphabet();
    prop_oneof![
        2 => "[a-z]{0,8}",
        2 => prop::collection::vec(prop::sample::select(alpha), 0..6).prop_map(|v| v.into_iter().collect::<String>()),
        1 => any::<String>().prop_map(|s| s.chars().take(12).collect::<String>()),
    ]
}

fn f32_bits() -> impl Strategy<Value = u32> {
    prop_oneof![
        3 => any::<u32>(),
        1 => prop::sample::select(vec![0u32, 0x8000_0000, 0x7f80_0000, 0xff80_0000, 0x7fc0_0000, 1, 0x007f_ffff, 0x0080_0000, 0x7f7f_ffff, 0x3f80_0000, 0x3dcc_cccd, 0x4b80_0000, 0x5f00_0000]),
        2 => any::<f32>().prop_map(f32::to_bits),
    ]
}

fn f64_bits() -> impl Strategy<Value = u64> {
    prop_oneof![
        3 => any::<u64>(),
        1 => prop::sample::select(vec![0u64, 1 << 63, 0x7ff0_0000_0000_0000, 0xfff0_0000_0000_0000, 0x7ff8_0000_0000_0000, 1, 0x000f_ffff_ffff_ffff, 0x0010_0000_0000_0000, 0x7fef_ffff_ffff_ffff, 0x3ff0_0000_0000_0000, 0x3fb9_9999_9999_999a, 0x4340_0000_0000_0000, 0x43e0_0000_0000_0000]),
        2 => any::<f64>().prop_map(f64::to_bits),
    ]
}

fn key_strategy(refused_weight: u32) -> impl Strategy<Value = K> {
    let allowed = prop_oneof![
        4 => string_strategy().prop_map(K::Str),
        2 => any::<char>().prop_map(K::Char),
        1 => prop::sample::select(escape_alphabet()).prop_map(K::Char),
        1 => any::<i8>().prop_map(K::I8),
        1 => any::<i16>().prop_map(K::I16),
        1 => any::<i32>().prop_map(K::I32),
        1 => any::<i64>().prop_map(K::I64),
        1 => any::<i128>().prop_map(K::I128),
        1 => any::<u8>().prop_map(K::U8),
        1 => any::<u16>().prop_map(K::U16),
        1 => any::<u32>().prop_map(K::U32),
        1 => any::<u64>().prop_map(K::U64),
        1 => any::<u128>().prop_map(K::U128),
        2 => any::<u8>().prop_map(K::UnitVariant),
        1 => pieces_strategy().prop_map(K::CollectStr),
        1 => (any::<u8>(), net_bits(), any::<u16>()).prop_map(|(k, b, p)| K::Net(k, b, p)),
    ];
    let allowed = allowed.clone().prop_flat_map(|k| {
        prop_oneof![5 => Just(k.clone()), 1 => Just(K::Newtype(Box::new(k)))]
    });
    let refused = prop_oneof![
        any::<bool>().prop_map(K::Bool),
        f32_bits().prop_map(K::F32),
        f64_bits().prop_map(K::F64),
        prop::collection::vec(any::<u8>(), 0..4).prop_map(K::Bytes),
        Just(K::Unit),
        Just(K::UnitStruct),
        Just(K::None),
        Just(K::Some(Box::new(K::Str("k".into())))),
        Just(K::Some(Box::new(K::I32(1)))),
        Just(K::Seq),
        Just(K::Tuple),
        Just(K::TupleStruct),
        Just(K::TupleVariant),
        Just(K::Map),
        Just(K::Struct),
        Just(K::StructVariant),
        Just(K::NewtypeVariant(Box::new(K::Str("k".into())))),
        Just(K::Newtype(Box::new(K::Bool(true)))),
    ];
    prop_oneof![
        100 => allowed,
        refused_weight => refused,
    ]
}

/// Pieces of a `Display` output: short / long (longer than typical free space) / escape-relevant.
fn pieces_strategy() -> impl Strategy<Value = Vec<String>> {
    let piece = prop_oneof![
        3 => string_strategy(),
        2 => (1usize..320, prop::sample::select(vec!['s', '"', '\u{e9}', '\n'])).prop_map(|(n, c)| std::iter::repeat(c).take(n).collect::<String>()),
        1 => Just(String::new()),
        2 => prop::sample::select(vec!['#', '"', '\\', '\u{e9}', '\u{1F600}', '\n', 'a']).prop_map(String::from),
        1 => any::<i64>().prop_map(|n| n.to_string()),
    ];
    prop::collection::vec(piece, 0..5)
}

fn net_bits() -> impl Strategy<Value = u128> {
    prop_oneof![
        3 => any::<u128>(),
        1 => prop::sample::select(vec![0u128, 1, 0x7f00_0001, 0xffff_ffff, 0xffff_7f00_0001, u128::MAX, 0xfe80 << 112, 0x2001_0db8 << 96]),
    ]
}

fn leaf_strategy() -> impl Strategy<Value = V> {
    prop_oneof![
        pieces_strategy().prop_map(V::CollectStr),
        Just(V::HumanReadable),
        (any::<u8>(), net_bits(), any::<u16>()).prop_map(|(k, b, p)| V::Net(k, b, p)),
        any::<bool>().prop_map(V::Bool),
        any::<i8>().prop_map(V::I8),
        any::<i16>().prop_map(V::I16),
        any::<i32>().prop_map(V::I32),
        any::<i64>().prop_map(V::I64),
        any::<i128>().prop_map(V::I128),
        any::<u8>().prop_map(V::U8),
        any::<u16>().prop_map(V::U16),
        any::<u32>().prop_map(V::U32),
        any::<u64>().prop_map(V::U64),
        any::<u128>().prop_map(V::U128),
        f32_bits().prop_map(V::F32),
        f64_bits().prop_map(V::F64),
        any::<char>().prop_map(V::Char),
        string_strategy().prop_map(V::Str),
        string_strategy().prop_map(V::Str),
        prop::collection::vec(any::<u8>(), 0..6).prop_map(V::Bytes),
        // byte strings longer than any plausible internal run length
        prop_oneof![2 => prop::collection::vec(any::<u8>(), 6..80), 1 => prop::collection::vec(any::<u8>(), 80..700)].prop_map(V::Bytes),
        Just(V::None),
        Just(V::Unit),
        Just(V::UnitStruct),
        any::<u8>().prop_map(V::UnitVariant),
    ]
}

pub fn tree_strategy(refused_weight: u32) -> impl Strategy<Value = V> {
    leaf_strategy().prop_recursive(5, 48, 5, move |inner| {
        prop_oneof![
            1 => inner.clone().prop_map(|v| V::Some(Box::new(v))),
            1 => inner.clone().prop_map(|v| V::NewtypeStruct(Box::new(v))),
            2 => (any::<u8>(), inner.clone()).prop_map(|(i, v)| V::NewtypeVariant(i, Box::new(v))),
            2 => (prop::collection::vec(inner.clone(), 0..5), any::<bool>()).prop_map(|(v, h)| V::Seq(v, h)),
            1 => (prop::collection::vec(inner.clone(), 0..5), any::<bool>()).prop_map(|(v, h)| V::CollectSeq(v, h)),
            1 => prop::collection::vec((key_strategy(refused_weight), inner.clone()), 0..4).prop_map(V::CollectMap),
            1 => prop::collection::vec(inner.clone(), 0..4).prop_map(V::Tuple),
            1 => prop::collection::vec(inner.clone(), 0..4).prop_map(V::TupleStruct),
            2 => (any::<u8>(), prop::collection::vec(inner.clone(), 0..4)).prop_map(|(i, v)| V::TupleVariant(i, v)),
            4 => (prop::collection::vec((key_strategy(refused_weight), inner.clone()), 0..5), any::<bool>()).prop_map(|(v, h)| V::Map(v, h)),
            2 => prop::collection::vec((any::<u8>(), inner.clone()), 0..5).prop_map(V::Struct),
            2 => (any::<u8>(), prop::collection::vec((any::<u8>(), inner.clone()), 0..4)).prop_map(|(i, v)| V::StructVariant(i, v)),
        ]
    })
}

fn case_strategy() -> impl Strategy<Value = TreeCase> {
    (
        prop_oneof![4 => tree_strategy(0).boxed(), 1 => tree_strategy(12).boxed()],
        prop_oneof![3 => 0usize..8, 2 => 200usize..300, 1 => 0usize..1200],
    )
        .prop_map(|(v, fill)| TreeCase { v, fill })
}

// ---------------------------------------------------------------------------------------------
// Tree check: direct hook, buffer sweep, public send path.

pub fn check_tree(case: &TreeCase, stats: &mut Stats) -> CaseResult {
    let v = &case.v;
    let refused = v.has_refused_key();
    let mut big = vec![0xAAu8; 1 << 16];
    if refused {
        stats.class("tree-with-refused-key");
        match zlink_encode(&SV(v), &mut big) {
            Enc::KeyRefused => {}
            Enc::TooSmall => return Err(Fail::new("harness", "64 KiB buffer too small for a generated tree")),
            Enc::Bytes(b) => {
                return Err(Fail::new(
                    "ser-refused-key-accepted",
                    format!("a map key of a kind that must be refused was encoded: {}", truncate(&show_bytes(&b), 200)),
                ))
            }
        }
        // through the public path the send must fail and write nothing
        let (sock, h) = SimSocket::new();
        let mut conn = Connection::new(sock);
        let r = run_until_ready(conn.send_reply(&Reply::new(Some(SV(v)))), 8);
        if !matches!(r, Some(Err(_))) || !h.writes().is_empty() {
            return Err(Fail::new("ser-refused-key-accepted", format!("send_reply of a value with a refused key kind returned {r:?} and wrote {} bytes", h.written().len())));
        }
        return Ok(());
    }
    let depth = v.depth();
    let reference = serde_json::to_vec(&SV(v)).map_err(|e| Fail::new("harness", format!("serde_json refused a valid tree: {e}")))?;
    let escaped = reference.windows(2).any(|w| w[0] == b'\\');
    if (depth >= 2 && v.has_map_or_variant()) || escaped {
        stats.nontrivial_hash(hash_of(&reference));
    }
    if depth >= 3 {
        stats.class("tree-depth>=3");
    }
    if escaped {
        stats.class("tree-with-escape");
    }
    if v.has_map_or_variant() {
        stats.class("tree-with-map-or-variant");
    }
    stats.sample(|| json!({"value": truncate(&format!("{v:?}"), 300), "json": truncate(&show_bytes(&reference), 300)}));
    same_as_serde_json(&SV(v), &mut big, &|| format!("tree {}", truncate(&format!("{v:?}"), 300)))?;

    // (e) every buffer length for small encodings
    let l = reference.len();
    if l <= 400 {
        stats.class("buffer-sweep");
        let mut buf = vec![0u8; l + 3];
        for b in 0..=l + 2 {
            stats.eval();
            let slice = &mut buf[..b];
            match json_to_slice(&SV(v), slice) {
                Ok(n) if b >= l && slice[..n] == reference[..] => {}
                Err(zlink_core::__verif::JsonSerError::BufferTooSmall) if b < l => {}
                other => {
                    return Err(Fail::new(
                        "ser-buffer-length",
                        format!("value of encoded length {l} into a buffer of {b} bytes: {other:?} (json {})", truncate(&show_bytes(&reference), 120)),
                    ))
                }
            }
        }
    }

    // (f) the public send path at a dialled fill position
    let (sock, h) = SimSocket::new();
    let (_r, mut w) = Connection::new(sock).split();
    let mut expected = Vec::new();
    if case.fill > 0 {
        let filler = "f".repeat(case.fill.saturating_sub(3).max(1));
        let call = zlink_core::Call::new(Filler { method: &filler });
        w.enqueue_call(&call).map_err(|e| Fail::new("harness", format!("filler: {e:?}")))?;
        expected.extend(serde_json::to_vec(&call).unwrap());
        expected.push(0);
    }
    let reply = Reply::new(Some(SV(v))).set_continues(Some(true));
    match run_until_ready(w.send_reply(&reply), 8) {
        Some(Ok(())) => {}
        other => return Err(Fail::new("ser-error-on-valid-value", format!("send_reply failed for a valid value: {other:?}"))),
    }
    expected.extend(serde_json::to_vec(&reply).unwrap());
    expected.push(0);
    let got = h.written();
    if got != expected {
        let d = got.iter().zip(&expected).position(|(a, b)| a != b).unwrap_or(got.len().min(expected.len()));
        return Err(Fail::new(
            "ser-bytes-differ",
            format!("public send path with {} bytes queued before: differs at {d}: got …{}… expected …{}…", case.fill, show_bytes(&got[d.saturating_sub(16)..(d + 16).min(got.len())]), show_bytes(&expected[d.saturating_sub(16)..(d + 16).min(expected.len())])),
        ));
    }
    Ok(())
}

#[derive(Debug, Serialize)]
struct Filler<'a> {
    method: &'a str,
}

// ---------------------------------------------------------------------------------------------
// Exhaustive scalar lanes

struct CharKey(char);
impl Serialize for CharKey {
    fn serialize<S: Serializer>(&self, s: S) -> Result<S::Ok, S::Error> {
        let mut m = s.serialize_map(Some(1))?;
        m.serialize_entry(&self.0, &0u8)?;
        m.end()
    }
}

struct IntKey<T>(T);
impl<T: Serialize> Serialize for IntKey<T> {
    fn serialize<S: Serializer>(&self, s: S) -> Result<S::Ok, S::Error> {
        let mut m = s.serialize_map(None)?;
        m.serialize_entry(&self.0, &self.0)?;
        m.end()
    }
}

fn scalar_lane(ctx: &Ctx) -> (Stats, Vec<vcommon::ev::Violation>) {
    // blocks of 4096 code points
    let blocks = 0x110000u64 / 4096;
    par_enumerate(ctx, "unicode-scalars", blocks, |blk, stats| {
        let mut fails = Vec::new();
        let mut buf = [0u8; 64];
        let mut tmp = [0u8; 4];
        for cp in blk * 4096..(blk + 1) * 4096 {
            let Some(c) = char::from_u32(cp as u32) else { continue };
            let s: &str = c.encode_utf8(&mut tmp);
            let what = || format!("U+{cp:04X}");
            let mut one = |r: CaseResult| {
                if let Err(f) = r {
                    if fails.len() < 3 {
                        fails.push((f, json!({"codepoint": cp})));
                    }
                }
            };
            one(same_as_serde_json(s, &mut buf, &|| format!("str {}", what())));
            one(same_as_serde_json(&c, &mut buf, &|| format!("char {}", what())));
            one(same_as_serde_json(&CharKey(c), &mut buf, &|| format!("char key {}", what())));
            let mut m = BTreeMap::new();
            m.insert(s, s);
            one(same_as_serde_json(&m, &mut buf, &|| format!("str key {}", what())));
            stats.evals(4);
            if cp < 0x20 || c == '"' || c == '\\' {
                stats.nontrivial_hash(cp);
            } else if cp % 17 == 0 {
                // "scalars count once per distinct value": counted, sampled 1 in 17 to bound memory
                stats.nontrivial_hash(cp);
            }
        }
        if blk == 0 {
            stats.sample(|| json!({"lane": "unicode-scalars", "example": "U+0000..U+0FFF as &str, char, char key, str key"}));
        }
        fails
    })
}

fn pairs_triples_lane(ctx: &Ctx) -> (Stats, Vec<vcommon::ev::Violation>) {
    let alpha = escape_alphabet();
    let n = alpha.len() as u64;
    par_enumerate(ctx, "escape-pairs-triples", n * n, |i, stats| {
        let (a, b) = (alpha[(i / n) as usize], alpha[(i % n) as usize]);
        let mut fails = Vec::new();
        let mut buf = [0u8; 128];
        let pair: String = [a, b].iter().collect();
        stats.eval();
        stats.nontrivial(&pair);
        if let Err(f) = same_as_serde_json(pair.as_str(), &mut buf, &|| format!("pair {pair:?}")) {
            fails.push((f, json!({"string": pair})));
        }
        for &c in &alpha {
            let triple: String = [a, b, c].iter().collect();
            stats.eval();
            if let Err(f) = same_as_serde_json(triple.as_str(), &mut buf, &|| format!("triple {triple:?}")) {
                if fails.len() < 3 {
                    fails.push((f, json!({"string": triple})));
                }
            }
            // as a key between two other strings
            let mut m = BTreeMap::new();
            m.insert(triple.as_str(), pair.as_str());
            stats.eval();
            if let Err(f) = same_as_serde_json(&m, &mut buf, &|| format!("map {m:?}")) {
                if fails.len() < 3 {
                    fails.push((f, json!({"key": triple, "value": pair})));
                }
            }
        }
        fails
    })
}

fn small_int_lane(ctx: &Ctx) -> (Stats, Vec<vcommon::ev::Violation>) {
    par_enumerate(ctx, "small-integers", 65536, |i, stats| {
        let mut fails = Vec::new();
        let mut buf = [0u8; 64];
        let mut one = |r: CaseResult, case: serde_json::Value| {
            if let Err(f) = r {
                if fails.len() < 3 {
                    fails.push((f, case));
                }
            }
        };
        let u = i as u16;
        let s = u as i16;
        one(same_as_serde_json(&u, &mut buf, &|| format!("u16 {u}")), json!({"u16": u}));
        one(same_as_serde_json(&s, &mut buf, &|| format!("i16 {s}")), json!({"i16": s}));
        one(same_as_serde_json(&IntKey(u), &mut buf, &|| format!("u16 key {u}")), json!({"u16key": u}));
        one(same_as_serde_json(&IntKey(s), &mut buf, &|| format!("i16 key {s}")), json!({"i16key": s}));
        stats.evals(4);
        if i < 256 {
            let (a, b) = (i as u8, i as u8 as i8);
            one(same_as_serde_json(&a, &mut buf, &|| format!("u8 {a}")), json!({"u8": a}));
            one(same_as_serde_json(&b, &mut buf, &|| format!("i8 {b}")), json!({"i8": b}));
            one(same_as_serde_json(&IntKey(a), &mut buf, &|| format!("u8 key {a}")), json!({"u8key": a}));
            one(same_as_serde_json(&IntKey(b), &mut buf, &|| format!("i8 key {b}")), json!({"i8key": b}));
            stats.evals(4);
        }
        if i % 13 == 0 {
            stats.nontrivial_hash(0x1_0000_0000 + i);
        }
        fails
    })
}

fn splitmix(x: &mut u64) -> u64 {
    *x = x.wrapping_add(0x9e3779b97f4a7c15);
    let mut z = *x;
    z = (z ^ (z >> 30)).wrapping_mul(0xbf58476d1ce4e5b9);
    z = (z ^ (z >> 27)).wrapping_mul(0x94d049bb133111eb);
    z ^ (z >> 31)
}

/// Wide integers and floats: boundaries plus a deterministic pseudo-random stream derived from
/// the seed (a counter-based mixer, i.e. an enumerator of a seed-indexed sequence, so that the
/// run stays a pure function of VERIF_SEED).
fn wide_lane(ctx: &Ctx) -> (Stats, Vec<vcommon::ev::Violation>) {
    let blocks: u64 = ctx.tier.pick(256, 4096);
    let per_block: u64 = 2048;
    let seed = ctx.subseed("wide", 0);
    par_enumerate(ctx, "wide-integers-and-floats", blocks, |blk, stats| {
        let mut fails = Vec::new();
        let mut buf = [0u8; 96];
        let mut st = seed ^ blk.wrapping_mul(0xd1342543de82ef95);
        let mut one = |r: CaseResult, case: serde_json::Value| {
            if let Err(f) = r {
                if fails.len() < 3 {
                    fails.push((f, case));
                }
            }
        };
        if blk == 0 {
            // boundaries
            for sh in 0..128u32 {
                for d in [-1i128, 0, 1] {
                    let x = (1i128 << sh.min(126)).wrapping_add(d);
                    for v in [x, x.wrapping_neg()] {
                        one(same_as_serde_json(&v, &mut buf, &|| format!("i128 {v}")), json!({"i128": v.to_string()}));
                        one(same_as_serde_json(&(v as u128), &mut buf, &|| format!("u128 {}", v as u128)), json!({"u128": (v as u128).to_string()}));
                        one(same_as_serde_json(&(v as i64), &mut buf, &|| format!("i64 {}", v as i64)), json!({"i64": v as i64}));
                        one(same_as_serde_json(&(v as u64), &mut buf, &|| format!("u64 {}", v as u64)), json!({"u64": v as u64}));
                        one(same_as_serde_json(&(v as i32), &mut buf, &|| format!("i32 {}", v as i32)), json!({"i32": v as i32}));
                        one(same_as_serde_json(&(v as u32), &mut buf, &|| format!("u32 {}", v as u32)), json!({"u32": v as u32}));
                        one(same_as_serde_json(&IntKey(v), &mut buf, &|| format!("i128 key {v}")), json!({"i128key": v.to_string()}));
                        one(same_as_serde_json(&IntKey(v as u128), &mut buf, &|| "u128 key".into()), json!({"u128key": (v as u128).to_string()}));
                        one(same_as_serde_json(&IntKey(v as i64), &mut buf, &|| "i64 key".into()), json!({"i64key": v as i64}));
                        one(same_as_serde_json(&IntKey(v as u32), &mut buf, &|| "u32 key".into()), json!({"u32key": v as u32}));
                        stats.evals(10);
                        stats.nontrivial_hash(v as u64 ^ 0xabcdef);
                    }
                }
            }
            for e in 0..2048u64 {
                for m in [0u64, 1, 0x000f_ffff_ffff_ffff, 0x0008_0000_0000_0000] {
                    for sign in [0u64, 1 << 63] {
                        let f = f64::from_bits(sign | (e << 52) | m);
                        one(same_as_serde_json(&f, &mut buf, &|| format!("f64 bits {:#x}", f.to_bits())), json!({"f64bits": f.to_bits()}));
                        stats.eval();
                    }
                }
            }
            for e in 0..256u32 {
                for m in [0u32, 1, 0x007f_ffff, 0x0040_0000] {
                    for sign in [0u32, 1 << 31] {
                        let f = f32::from_bits(sign | (e << 23) | m);
                        one(same_as_serde_json(&f, &mut buf, &|| format!("f32 bits {:#x}", f.to_bits())), json!({"f32bits": f.to_bits()}));
                        stats.eval();
                    }
                }
            }
        }
        for _ in 0..per_block {
            let a = splitmix(&mut st);
            let b = splitmix(&mut st);
            let i = ((a as u128) << 64 | b as u128) as i128 >> (a % 127) as u32;
            let f64v = f64::from_bits(b);
            let f32v = f32::from_bits(a as u32);
            one(same_as_serde_json(&i, &mut buf, &|| format!("i128 {i}")), json!({"i128": i.to_string()}));
            one(same_as_serde_json(&(i as u128 >> (b % 127) as u32), &mut buf, &|| "u128".into()), json!({"u128": (i as u128 >> (b % 127) as u32).to_string()}));
            one(same_as_serde_json(&(a as i64 >> (b % 63) as u32), &mut buf, &|| "i64".into()), json!({"i64": a as i64 >> (b % 63) as u32}));
            one(same_as_serde_json(&(b >> (a % 63) as u32), &mut buf, &|| "u64".into()), json!({"u64": b >> (a % 63) as u32}));
            one(same_as_serde_json(&(a as i32), &mut buf, &|| "i32".into()), json!({"i32": a as i32}));
            one(same_as_serde_json(&(b as u32), &mut buf, &|| "u32".into()), json!({"u32": b as u32}));
            one(same_as_serde_json(&f64v, &mut buf, &|| format!("f64 bits {b:#x}")), json!({"f64bits": b}));
            one(same_as_serde_json(&f32v, &mut buf, &|| format!("f32 bits {:#x}", a as u32)), json!({"f32bits": a as u32}));
            one(same_as_serde_json(&IntKey(i), &mut buf, &|| "i128 key".into()), json!({"i128key": i.to_string()}));
            one(same_as_serde_json(&IntKey(b), &mut buf, &|| "u64 key".into()), json!({"u64key": b}));
            stats.evals(10);
        }
        stats.nontrivial_hash(blk ^ 0x77777);
        fails
    })
}

/// Thorough only: every f32 bit pattern.
fn all_f32_lane(ctx: &Ctx) -> (Stats, Vec<vcommon::ev::Violation>) {
    let blocks = 1u64 << 16;
    par_enumerate(ctx, "all-f32", blocks, |blk, stats| {
        let mut fails = Vec::new();
        let mut buf = [0u8; 64];
        let mut reference = Vec::with_capacity(64);
        for lo in 0..(1u64 << 16) {
            let bits = ((blk << 16) | lo) as u32;
            let f = f32::from_bits(bits);
            reference.clear();
            serde_json::to_writer(&mut reference, &f).unwrap();
            match json_to_slice(&f, &mut buf) {
                Ok(n) if buf[..n] == reference[..] => {}
                other => {
                    if fails.len() < 3 {
                        fails.push((
                            Fail::new("ser-bytes-differ", format!("f32 bits {bits:#x}: zlink {other:?} ({}), serde_json {}", show_bytes(&buf[..other.unwrap_or(0).min(64)]), show_bytes(&reference))),
                            json!({"f32bits": bits}),
                        ));
                    }
                }
            }
        }
        stats.evals(1 << 16);
        stats.nontrivial_hash(blk ^ 0xf32f32);
        fails
    })
}

pub fn run(ctx: &Ctx) -> i32 {
    let mut stats = Stats::default();
    let mut viol = Vec::new();
    let mut add = |(s, v): (Stats, Vec<vcommon::ev::Violation>)| {
        stats.merge(s);
        viol.extend(v);
    };
    add(scalar_lane(ctx));
    add(pairs_triples_lane(ctx));
    add(small_int_lane(ctx));
    add(wide_lane(ctx));
    let all_f32 = ctx.tier == Tier::Thorough;
    if all_f32 {
        add(all_f32_lane(ctx));
    }
    let (shards, cases) = ctx.tier.pick((16, 10000), (64, 30_000));
    add(run_shards(ctx, "trees", shards, cases, case_strategy, check_tree));
    crate::fuzzrun::golden("json_ser", &mut stats, &mut viol);
    if ctx.tier == vcommon::ev::Tier::Thorough {
        let seeds: Vec<Vec<u8>> = (0..64u8).map(|i| vec![i; 24 + i as usize]).collect();
        crate::fuzzrun::campaign(ctx, "json_ser", crate::fuzzrun::fuzz_secs(240), &seeds, &mut stats, &mut viol);
    }
    Report::new(RULE)
        .exhaustive(false)
        .assume("serde_json::to_vec (compact formatter) is the reference encoding; serde_json accepts bool/float/option keys, so for refused key kinds the oracle is the statement (an error), not serde_json")
        .assume("newtype-struct-wrapped keys of an allowed kind count as that kind (both encoders unwrap them)")
        .extra("exhaustive_sublanes", json!(["unicode-scalars", "escape-pairs-triples", "small-integers", if all_f32 { "all-f32" } else { "(all-f32 only in thorough)" }]))
        .finish(ctx, &stats, &viol, &[])
}

pub fn replay(lane: &str, case: serde_json::Value) -> CaseResult {
    if lane == "fuzz" {
        return crate::fuzzrun::replay(&case);
    }
    let mut buf = vec![0u8; 4096];
    let mut stats = Stats::default();
    if lane == "trees" {
        let case: TreeCase = serde_json::from_value(case).map_err(|e| Fail::new("bad-replay", e.to_string()))?;
        println!("{:?}", case.v);
        return check_tree(&case, &mut stats);
    }
    let o = case.as_object().ok_or_else(|| Fail::new("bad-replay", "not an object"))?;
    let num = |k: &str| o.get(k).and_then(|v| v.as_u64());
    let snum = |k: &str| o.get(k).and_then(|v| v.as_str()).map(|s| s.to_string());
    if let Some(cp) = num("codepoint") {
        let c = char::from_u32(cp as u32).ok_or_else(|| Fail::new("bad-replay", "not a scalar"))?;
        let s = c.to_string();
        same_as_serde_json(s.as_str(), &mut buf, &|| format!("str U+{cp:04X}"))?;
        same_as_serde_json(&c, &mut buf, &|| format!("char U+{cp:04X}"))?;
        return same_as_serde_json(&CharKey(c), &mut buf, &|| format!("char key U+{cp:04X}"));
    }
    if let Some(s) = snum("string") {
        return same_as_serde_json(s.as_str(), &mut buf, &|| format!("string {s:?}"));
    }
    if let (Some(k), Some(v)) = (snum("key"), snum("value")) {
        let mut m = BTreeMap::new();
        m.insert(k.as_str(), v.as_str());
        return same_as_serde_json(&m, &mut buf, &|| format!("map {m:?}"));
    }
    if let Some(b) = num("f32bits") {
        return same_as_serde_json(&f32::from_bits(b as u32), &mut buf, &|| format!("f32 bits {b:#x}"));
    }
    if let Some(b) = num("f64bits") {
        return same_as_serde_json(&f64::from_bits(b), &mut buf, &|| format!("f64 bits {b:#x}"));
    }
    macro_rules! int {
        ($k:literal, $t:ty, $key:expr) => {
            if let Some(v) = o.get($k) {
                let x: $t = match v {
                    serde_json::Value::String(s) => s.parse().map_err(|_| Fail::new("bad-replay", "int"))?,
                    other => other.to_string().parse().map_err(|_| Fail::new("bad-replay", "int"))?,
                };
                return if $key {
                    same_as_serde_json(&IntKey(x), &mut buf, &|| format!("{} {x}", $k))
                } else {
                    same_as_serde_json(&x, &mut buf, &|| format!("{} {x}", $k))
                };
            }
        };
    }
    int!("u8", u8, false);
    int!("i8", i8, false);
    int!("u16", u16, false);
    int!("i16", i16, false);
    int!("u32", u32, false);
    int!("i32", i32, false);
    int!("u64", u64, false);
    int!("i64", i64, false);
    int!("u128", u128, false);
    int!("i128", i128, false);
    int!("u8key", u8, true);
    int!("i8key", i8, true);
    int!("u16key", u16, true);
    int!("i16key", i16, true);
    int!("u32key", u32, true);
    int!("i64key", i64, true);
    int!("u64key", u64, true);
    int!("u128key", u128, true);
    int!("i128key", i128, true);
    Err(Fail::new("bad-replay", "unrecognised C03 case"))
}
