//! C08 — the server answers each call once, in order, on its own connection; oneway gets none.

use serde_json::json;
use vcommon::{
    drv::{par_enumerate, run_shards, CaseResult, Fail},
    ev::{hash_of, Ctx, Report, Stats},
    frames::{resolve_cuts, ChunkPlan},
    srv::*,
    srvgen::{interleavings, scenario_strategy, Features},
};

pub const RULE: &str = "case = 1..4 scripted client connections, each with 0..5 calls (Echo with a \
borrowed string of dialled length / Noop / Fail, plain or oneway, flags before or after `method`), \
its byte stream cut at generated positions, plus a global step list fixing the order of connection \
arrivals, chunk deliveries and polls of Server::run(); each Poll runs the server to quiescence and \
the frames every client has received are compared with a per-connection sequential model (equality \
at every quiescent point), the service log restricted to a connection must equal its calls in \
order, no reply may carry another connection's tag, and the server future stays pending. An \
exhaustive lane enumerates every interleaving of chunk deliveries of 2 connections x 4 chunks and \
3 connections x 2 chunks, with a poll after every delivery or only at the end. Non-trivial = at \
least 2 connections whose deliveries interleave, a burst with >= 2 calls in one chunk and a oneway \
call; distinct by hash of the scenario.";

pub const FEATURES: Features = Features { max_conns: 4, max_calls: 5, oneway: true, subs: false, faults: false };

pub fn classify(sc: &Scenario, stats: &mut Stats) -> bool {
    let conns = sc.conns.len();
    // interleaved: some connection's chunk deliveries are separated by another connection's
    let order: Vec<usize> = sc.steps.iter().filter_map(|s| if let Step::Chunk(c) = s { Some(*c) } else { None }).collect();
    let mut interleaved = false;
    for w in order.windows(3) {
        if w[0] == w[2] && w[0] != w[1] {
            interleaved = true;
        }
    }
    let has_oneway = sc.conns.iter().any(|c| c.frames.iter().any(|f| matches!(f, FrameSpec::Call { oneway: true, .. })));
    // burst: two frame ends within one chunk
    let mut burst = false;
    for (ci, c) in sc.conns.iter().enumerate() {
        let ends = c.frame_ends(ci);
        let mut bounds = vec![0];
        bounds.extend(c.cuts.iter().copied());
        bounds.push(c.stream(ci).len());
        for w in bounds.windows(2) {
            if ends.iter().filter(|&&e| e > w[0] && e <= w[1]).count() >= 2 {
                burst = true;
            }
        }
    }
    let split = sc.conns.iter().enumerate().any(|(ci, c)| {
        let ends = c.frame_ends(ci);
        c.cuts.iter().any(|k| !ends.contains(k))
    });
    if conns >= 2 {
        stats.class("conns>=2");
    }
    if interleaved {
        stats.class("interleaved-deliveries");
    }
    if has_oneway {
        stats.class("has-oneway-call");
    }
    if burst {
        stats.class("pipelined-burst");
    }
    if split {
        stats.class("call-split-across-chunks");
    }
    if sc.steps.iter().filter(|s| matches!(s, Step::Poll)).count() >= 2 {
        stats.class("polls>=2-before-the-end");
    }
    conns >= 2 && interleaved && burst && has_oneway
}

pub fn check_scenario(sc: &Scenario, stats: &mut Stats) -> CaseResult {
    if classify(sc, stats) {
        stats.nontrivial_hash(hash_of(sc));
    }
    stats.sample(|| sample_of(sc));
    let trace = run_scenario(sc);
    stats.class_n("observations", trace.observations.len() as u64);
    judge_trace(sc, &trace)
}

pub fn sample_of(sc: &Scenario) -> serde_json::Value {
    json!({
        "connections": sc.conns.iter().enumerate().map(|(c, s)| json!({
            "stream": vcommon::ev::truncate(&vcommon::ev::show_bytes(&s.stream(c)), 200),
            "cuts": s.cuts, "end": format!("{:?}", s.end), "write_fail_from": s.write_fail_from,
        })).collect::<Vec<_>>(),
        "steps": sc.steps.iter().map(|s| format!("{s:?}")).collect::<Vec<_>>().join(" "),
    })
}

/// Exhaustive lane: fixed small scripts, every interleaving of their chunk deliveries.
pub fn enumerated() -> Vec<Scenario> {
    let call = |kind, id, oneway, pad| FrameSpec::Call { kind, id, oneway, more: false, pad, flags_first: id % 2 == 1 };
    let scripts: Vec<Vec<FrameSpec>> = vec![
        vec![call(CallKind::Echo, 0, false, 3), call(CallKind::Noop, 1, true, 0), call(CallKind::Fail, 2, false, 0)],
        vec![call(CallKind::Fail, 0, false, 0), call(CallKind::Echo, 1, true, 5), call(CallKind::Echo, 2, false, 260)],
        vec![call(CallKind::Noop, 0, true, 0), call(CallKind::Noop, 1, false, 0)],
    ];
    let mk = |c: usize, frames: &Vec<FrameSpec>, chunks: usize| {
        let mut s = ConnScript { frames: frames.clone(), cuts: vec![], end: ConnEnd::Open, truncate_last: false, write_fail_from: None };
        let len = s.stream(c).len();
        // cut into `chunks` pieces at positions that fall inside frames
        let plan = ChunkPlan::Cuts((1..chunks).map(|i| ((i * 65536 / chunks) as u16).saturating_add(977)).collect());
        s.cuts = resolve_cuts(&plan, &s.stream(c));
        assert!(s.cuts.len() + 1 <= chunks && len > 0);
        s
    };
    let mut out = Vec::new();
    let mut add = |conns: Vec<ConnScript>| {
        let counts: Vec<usize> = conns.iter().map(|c| c.cuts.len() + 1).collect();
        for order in interleavings(&counts) {
            for poll_mode in 0..3 {
                for late_arrival in [false, true] {
                    let mut steps = Vec::new();
                    if !late_arrival {
                        for c in 0..conns.len() {
                            steps.push(Step::Arrive(c));
                        }
                        steps.push(Step::Poll);
                    }
                    for (i, &c) in order.iter().enumerate() {
                        steps.push(Step::Chunk(c));
                        if poll_mode == 0 || (poll_mode == 1 && i % 2 == 1) {
                            steps.push(Step::Poll);
                        }
                    }
                    out.push(Scenario { conns: conns.clone(), steps });
                }
            }
        }
    };
    add(vec![mk(0, &scripts[0], 4), mk(1, &scripts[1], 4)]);
    add(vec![mk(0, &scripts[1], 4), mk(1, &scripts[0], 4)]);
    add(vec![mk(0, &scripts[0], 2), mk(1, &scripts[1], 2), mk(2, &scripts[2], 2)]);
    add(vec![mk(0, &scripts[2], 1), mk(1, &scripts[0], 3), mk(2, &scripts[1], 2)]);
    out
}

pub fn run(ctx: &Ctx) -> i32 {
    let (shards, cases) = ctx.tier.pick((16, 8000), (64, 20_000));
    let (mut stats, mut viol) = run_shards(ctx, "random", shards, cases, || scenario_strategy(FEATURES), check_scenario);
    let en = enumerated();
    let (s2, v2) = par_enumerate(ctx, "interleavings", en.len() as u64, |i, stats| {
        let sc = &en[i as usize];
        stats.eval();
        match check_scenario(sc, stats) {
            Ok(()) => vec![],
            Err(f) => vec![(f, serde_json::to_value(sc).unwrap())],
        }
    });
    stats.merge(s2);
    viol.extend(v2);
    crate::fuzzrun::golden("srv_sim", &mut stats, &mut viol);
    if ctx.tier == vcommon::ev::Tier::Thorough {
        std::env::set_var("VERIF_SRV_LANES", "0,7");
        let seeds: Vec<Vec<u8>> = { let mut v = Vec::new(); for l in [0u8, 7] { for i in 0..24u8 { let mut s = vec![l as u8]; s.extend((0..(16 + i as usize * 9)).map(|k| (k as u8).wrapping_mul(37).wrapping_add(i.wrapping_mul(11)))); v.push(s); } } v };
        crate::fuzzrun::campaign(ctx, "srv_sim", crate::fuzzrun::fuzz_secs(180), &seeds, &mut stats, &mut viol);
    }
    Report::new(RULE)
        .assume("the scripted service answers Echo with its parameters, Noop with an empty reply, Fail with an error; what the service decides is the reference, the server only has to deliver it")
        .assume("one Poll = polling Server::run() with a no-op waker until no simulated transport, listener or stream makes progress")
        .extra("enumerated_interleavings", json!(en.len()))
        .finish(ctx, &stats, &viol, &[])
}

pub fn replay(_lane: &str, case: serde_json::Value) -> CaseResult {
    if _lane == "fuzz" {
        return crate::fuzzrun::replay(&case);
    }
    let sc: Scenario = serde_json::from_value(case).map_err(|e| Fail::new("bad-replay", e.to_string()))?;
    println!("{}", serde_json::to_string_pretty(&sample_of(&sc)).unwrap());
    let trace = run_scenario(&sc);
    for o in &trace.observations {
        println!("observation at step {}: out = {:?}", o.step as i64, o.out.iter().map(|f| show_frames(f)).collect::<Vec<_>>());
    }
    println!("service log: {:?}", trace.log);
    judge_trace(&sc, &trace)
}
