//! C19 — end to end over real Unix sockets (tokio and smol) nothing is lost or corrupted.
//!
//! The only check whose schedules belong to the kernel and the runtimes: sizes, directions, pacing
//! and the cancellation point are generated; the interleaving is not owned. Every scenario runs in
//! its own thread under a deadline; an expired deadline is reported as inconclusive, not as a
//! violation.

use std::{
    io::Read,
    os::{fd::OwnedFd, unix::net::UnixStream as StdUnixStream},
    path::PathBuf,
    sync::mpsc,
    time::Duration,
};

use futures_util::future::poll_fn;
use serde::{Deserialize, Serialize};
use serde_json::json;
use vcommon::{
    drv::Fail,
    ev::{hash_of, verif_root, Ctx, Report, Stats, Tier, Violation},
    types::{MethodA, OptParams},
};
use zlink_core::{
    connection::{
        socket::{ReadHalf, Socket, WriteHalf},
        ReadConnection, WriteConnection,
    },
    Call, Connection, Listener, Reply,
};

pub const RULE: &str = "scenario = (runtime: tokio current-thread / tokio multi-thread / smol; \
transport: socketpair or a listener bound in /verif/work (bind / try_from(OwnedFd)) with 1..8 \
concurrent connections; per connection a list of call sizes sent one way and reply sizes sent the \
other way at the same time, sizes from 1 B to 1 MiB with most above the kernel socket buffer in \
the large lane; reader pacing: 0..4 cooperative yields between receives on either side). Oracle: \
the receiver decodes exactly the sent sequence (index, length and every byte of a position-dependent \
pattern), connection ids are pairwise distinct (within a scenario, and across 2..16 threads that construct tens of thousands of connections at the same moment), a listener built from an inherited descriptor (handed over in blocking mode) is non-blocking like a bound one. Cancellation scenario = a call of generated size \
(64 KiB..1 MiB) is sent while the peer does not read, the send future is polled by hand until it is \
Pending, the peer reads a generated number of bytes, the future is polled again and then dropped; \
afterwards a second call is sent normally while the peer reads everything. Oracle: the peer's \
byte stream is exactly frame(A) NUL frame(B) NUL, or frame(B) NUL if nothing of A had been written \
(whole frames only, each at most once). Cancellation history = 2..6 sends on one connection, each \
either driven to completion (the peer drains while it is Pending) or polled 1..4 times with the \
peer reading a generated number of bytes in between and then dropped, the last one completing; \
Abandoned-receive scenario = the peer writes 1..5 frames (1 B..80 KB) in fragments of generated sizes; after each fragment the pending receive_call is polled and, per a generated pattern, dropped and started afresh; oracle: every message arrives once, in order, byte-exact (the transports' read halves must be cancel safe, as the connection assumes). Served scenario = zlink's own Server on a real listener (bound, or built from an inherited descriptor) in its own thread under tokio or smol, serving 1..6 real client connections driven under tokio (current / multi-thread) or smol - also the other runtime than the server's - each working through 1..6 operations {call, call answered by the declared error, oneway call, chain of 1..5 pipelined calls, streaming call with 1..5 items} with parameters of 1 B..530 KB; oracle: every client gets exactly the replies the service gives (ids, sequence numbers, every byte of the position-dependent pattern, continues flags), a oneway call gets nothing, and a final call is still answered. Cancellation-history \
oracle: the peer's stream consists of whole frames that form a subsequence of the sent frames \
(each at most once, in order) and contains every frame whose send completed. Non-trivial = a message larger than 208 KiB in flight \
with traffic in the other direction, or a cancellation after a partial write; distinct by hash of \
the scenario.";

const ALPHABET: &[u8] = b"abcdefghijklmnopqrstuvwxyz0123456789";

fn pattern(idx: usize, len: usize) -> String {
    (0..len).map(|j| ALPHABET[(idx * 7 + j + j / 251) % ALPHABET.len()] as char).collect()
}

async fn yield_now() {
    let mut yielded = false;
    poll_fn(|cx| {
        if yielded {
            std::task::Poll::Ready(())
        } else {
            yielded = true;
            cx.waker().wake_by_ref();
            std::task::Poll::Pending
        }
    })
    .await
}

#[derive(Debug, Clone, PartialEq, Eq, Hash, Serialize, Deserialize)]
pub struct Plan {
    /// sizes of the padded string in the calls sent A -> B
    pub calls: Vec<usize>,
    /// sizes in the replies sent B -> A
    pub replies: Vec<usize>,
    pub a_lag: u8,
    pub b_lag: u8,
}

async fn send_calls<W: WriteHalf>(w: &mut WriteConnection<W>, sizes: &[usize]) -> Result<(), String> {
    for (i, &n) in sizes.iter().enumerate() {
        let s = pattern(i, n);
        let call = Call::new(MethodA::Echo { s: &s, n: i as i64 });
        w.send_call(&call).await.map_err(|e| format!("send_call {i} ({n} bytes): {e:?}"))?;
    }
    Ok(())
}

async fn send_replies<W: WriteHalf>(w: &mut WriteConnection<W>, sizes: &[usize]) -> Result<(), String> {
    for (i, &n) in sizes.iter().enumerate() {
        let r = Reply::new(Some(OptParams { name: Some(pattern(i + 1000, n)), n: Some(i as i64) })).set_continues(Some(i + 1 < sizes.len()));
        w.send_reply(&r).await.map_err(|e| format!("send_reply {i} ({n} bytes): {e:?}"))?;
    }
    Ok(())
}

async fn recv_calls<R: ReadHalf>(r: &mut ReadConnection<R>, sizes: &[usize], lag: u8) -> Result<(), String> {
    for (i, &n) in sizes.iter().enumerate() {
        for _ in 0..lag {
            yield_now().await;
        }
        let call = r.receive_call::<MethodA<'_>>().await.map_err(|e| format!("receive_call {i}: {e:?}"))?;
        match call.method() {
            MethodA::Echo { s, n: idx } => {
                if *idx != i as i64 || s.len() != n || **s != pattern(i, n) {
                    let at = s.bytes().zip(pattern(i, n).bytes()).position(|(a, b)| a != b);
                    return Err(format!("call {i}: expected index {i} with {n} pattern bytes, got index {idx} with {} bytes (first differing byte: {at:?})", s.len()));
                }
            }
            other => return Err(format!("call {i}: got {other:?}")),
        }
    }
    Ok(())
}

async fn recv_replies<R: ReadHalf>(r: &mut ReadConnection<R>, sizes: &[usize], lag: u8) -> Result<(), String> {
    for (i, &n) in sizes.iter().enumerate() {
        for _ in 0..lag {
            yield_now().await;
        }
        let rep = r
            .receive_reply::<OptParams, vcommon::types::ErrA>()
            .await
            .map_err(|e| format!("receive_reply {i}: {e:?}"))?
            .map_err(|e| format!("receive_reply {i}: method error {e:?}"))?;
        let p = rep.parameters().ok_or_else(|| format!("reply {i} without parameters"))?;
        let want = pattern(i + 1000, n);
        if p.n != Some(i as i64) || p.name.as_deref() != Some(want.as_str()) || rep.continues() != Some(i + 1 < sizes.len()) {
            return Err(format!("reply {i}: expected index {i} with {n} pattern bytes, got n={:?} with {:?} bytes, continues {:?}", p.n, p.name.as_ref().map(|s| s.len()), rep.continues()));
        }
    }
    Ok(())
}

async fn side_a<S: Socket>(conn: Connection<S>, plan: &Plan) -> Result<(), String> {
    let (mut r, mut w) = conn.split();
    let (x, y) = futures_util::join!(send_calls(&mut w, &plan.calls), recv_replies(&mut r, &plan.replies, plan.a_lag));
    x.and(y)
}

async fn side_b<S: Socket>(conn: Connection<S>, plan: &Plan) -> Result<(), String> {
    let (mut r, mut w) = conn.split();
    let (x, y) = futures_util::join!(send_replies(&mut w, &plan.replies), recv_calls(&mut r, &plan.calls, plan.b_lag));
    x.and(y)
}

#[derive(Debug, Clone, Copy, PartialEq, Eq, Hash, Serialize, Deserialize)]
pub enum Rt {
    TokioCurrent,
    TokioMulti,
    Smol,
}

#[derive(Debug, Clone, Copy, PartialEq, Eq, Hash, Serialize, Deserialize)]
pub enum Transport {
    Pair,
    Bound,
    FromFd,
}

#[derive(Debug, Clone, PartialEq, Eq, Hash, Serialize, Deserialize)]
pub enum Scenario {
    Transfer { rt: Rt, transport: Transport, plans: Vec<Plan> },
    Cancel { rt: Rt, size: usize, peer_reads: usize, second_size: usize },
    /// `threads` threads, released together, each construct `per_thread` connections (on socket
    /// pairs for the first few, on in-memory transports for the rest): every identifier handed
    /// out in the process during the scenario must be distinct.
    Ids { threads: usize, per_thread: usize },
    /// A history of sends on one connection of which any may be abandoned: every step sends a
    /// call of `size` bytes; `polls = None` drives the send to completion while the peer drains,
    /// `polls = Some(k)` polls the send future at most k times with the peer reading `peer_reads`
    /// bytes in between, then drops it (finished or not). The last step always completes.
    CancelHistory { rt: Rt, steps: Vec<CancelStep> },
    /// Receives abandoned on a real socket: the peer writes the frames of `sizes` in fragments of
    /// the (cycled) lengths `frags`; after each fragment the pending receive is polled a few times
    /// and, where `drops` (cycled) says so, dropped and started afresh.
    RecvCancel { rt: Rt, sizes: Vec<usize>, frags: Vec<usize>, drops: Vec<bool> },
    /// zlink's own `Server` on a real listener (runtime `server_rt`, in its own thread) serving
    /// 1..6 real client connections (runtime `client_rt`, possibly the other one), each working
    /// through a list of operations; every client must get exactly the replies the service gives.
    Served { server_rt: Rt, client_rt: Rt, transport: Transport, clients: Vec<Vec<COp>> },
}

#[derive(Debug, Clone, PartialEq, Eq, Hash, Serialize, Deserialize)]
pub enum COp {
    /// call_method(Echo) with a parameter of this many bytes
    Echo(usize),
    /// a call the service answers with its declared error
    Fail,
    /// an Echo call flagged oneway (no reply), of this many bytes
    Oneway(usize),
    /// a chain of Echo calls (one write), sizes of the parameters
    Batch(Vec<usize>),
    /// a `more` call answered by a stream of `n` replies of `size` bytes each
    Sub { n: u32, size: usize },
}

#[derive(Debug, Clone, PartialEq, Eq, Hash, Serialize, Deserialize)]
pub struct CancelStep {
    pub size: usize,
    pub polls: Option<u8>,
    pub peer_reads: usize,
    /// after this step was abandoned the peer does not read what the send left in the kernel, so
    /// the next step may find the socket still full and make no progress at all
    #[serde(default)]
    pub hold: bool,
}

fn run_ids(threads: usize, per_thread: usize) -> Result<(bool, usize), String> {
    let barrier = std::sync::Barrier::new(threads);
    let all: Vec<Vec<usize>> = std::thread::scope(|s| {
        let hs: Vec<_> = (0..threads)
            .map(|_| {
                s.spawn(|| {
                    let mut ids = Vec::with_capacity(per_thread);
                    barrier.wait();
                    for i in 0..per_thread {
                        if i < 4 {
                            if let Ok((a, b)) = StdUnixStream::pair() {
                                if let (Ok(a), Ok(b)) = (smol::Async::new(a), smol::Async::new(b)) {
                                    ids.push(Connection::new(zlink_smol::unix::Stream::from(a)).id());
                                    ids.push(Connection::new(zlink_smol::unix::Stream::from(b)).id());
                                    continue;
                                }
                            }
                        }
                        let (sock, _h) = vcommon::sim::SimSocket::new();
                        ids.push(Connection::new(sock).id());
                    }
                    ids
                })
            })
            .collect();
        hs.into_iter().map(|h| h.join().unwrap_or_default()).collect()
    });
    let mut flat: Vec<usize> = all.into_iter().flatten().collect();
    let n = flat.len();
    flat.sort_unstable();
    let dups = flat.windows(2).filter(|w| w[0] == w[1]).count();
    if dups > 0 {
        let first = flat.windows(2).find(|w| w[0] == w[1]).map(|w| w[0]).unwrap_or(0);
        return Err(format!("connection ids are not pairwise distinct: {dups} of {n} identifiers handed out by {threads} threads constructing connections at the same time are duplicates (e.g. {first})"));
    }
    Ok((false, n))
}

fn sock_path(tag: u64) -> PathBuf {
    let dir = verif_root().join("work").join("C19");
    let _ = std::fs::create_dir_all(&dir);
    dir.join(format!("s{}-{tag:x}.sock", std::process::id()))
}

/// Is the descriptor in non-blocking mode? (Read from /proc: an async listener built from an
/// inherited descriptor must not leave it blocking, or `accept` would block the executor thread
/// instead of returning Pending.)
fn fd_is_nonblocking(raw: i32) -> Option<bool> {
    let info = std::fs::read_to_string(format!("/proc/self/fdinfo/{raw}")).ok()?;
    let flags = info.lines().find_map(|l| l.strip_prefix("flags:"))?.trim();
    let v = u32::from_str_radix(flags, 8).ok()?;
    Some(v & 0o4000 != 0)
}

fn check_ids(ids: &[usize]) -> Result<(), String> {
    let mut s = ids.to_vec();
    s.sort_unstable();
    s.dedup();
    if s.len() != ids.len() {
        return Err(format!("connection ids are not pairwise distinct: {ids:?}"));
    }
    Ok(())
}

// ---- tokio ----

fn tokio_transfer(multi: bool, transport: Transport, plans: &[Plan], tag: u64) -> Result<(), String> {
    let rt = if multi {
        tokio::runtime::Builder::new_multi_thread().worker_threads(4).enable_all().build()
    } else {
        tokio::runtime::Builder::new_current_thread().enable_all().build()
    }
    .map_err(|e| e.to_string())?;
    let plans = plans.to_vec();
    rt.block_on(async move {
        let mut pairs = Vec::new();
        match transport {
            Transport::Pair => {
                for _ in &plans {
                    let (a, b) = tokio::net::UnixStream::pair().map_err(|e| e.to_string())?;
                    pairs.push((Connection::new(zlink_tokio::unix::Stream::from(a)), Connection::new(zlink_tokio::unix::Stream::from(b))));
                }
            }
            Transport::Bound | Transport::FromFd => {
                let path = sock_path(tag);
                let _ = std::fs::remove_file(&path);
                // With an inherited descriptor (socket activation) a client may well have connected
                // before the process got round to building its listener: it waits in the backlog
                // and must come out of the first accept().
                let mut early: Option<StdUnixStream> = None;
                let mut listener = if transport == Transport::Bound {
                    zlink_tokio::unix::bind(&path).map_err(|e| format!("bind: {e:?}"))?
                } else {
                    let std_l = std::os::unix::net::UnixListener::bind(&path).map_err(|e| e.to_string())?;
                    early = Some(StdUnixStream::connect(&path).map_err(|e| format!("early connect: {e}"))?);
                    let fd: OwnedFd = std_l.into();
                    let raw = std::os::fd::AsRawFd::as_raw_fd(&fd);
                    let l = zlink_tokio::unix::Listener::try_from(fd).map_err(|e| format!("try_from(fd): {e:?}"))?;
                    if fd_is_nonblocking(raw) == Some(false) {
                        return Err("a listener built from an inherited (blocking) descriptor left it in blocking mode: accept() would block the executor thread instead of returning Pending".to_string());
                    }
                    l
                };
                for _ in &plans {
                    if let Some(early) = early.take() {
                        early.set_nonblocking(true).map_err(|e| e.to_string())?;
                        match tokio::time::timeout(Duration::from_secs(10), listener.accept()).await {
                            Ok(server) => {
                                let client = tokio::net::UnixStream::from_std(early).map_err(|e| e.to_string())?;
                                pairs.push((Connection::new(zlink_tokio::unix::Stream::from(client)), server.map_err(|e| format!("accept: {e:?}"))?));
                                continue;
                            }
                            Err(_) => {
                                let mut b = [0u8; 1];
                                return match std::io::Read::read(&mut &early, &mut b) {
                                    Ok(0) => Err("a client that had connected before the listener was built from the inherited descriptor was hung up on (its connection was taken out of the backlog and dropped); accept() never returned it".to_string()),
                                    _ => Err("accept() did not return the client waiting in the backlog within 10 s".to_string()),
                                };
                            }
                        }
                    }
                    let (client, server) = futures_util::join!(zlink_tokio::unix::connect(&path), listener.accept());
                    pairs.push((client.map_err(|e| format!("connect: {e:?}"))?, server.map_err(|e| format!("accept: {e:?}"))?));
                }
                let _ = std::fs::remove_file(&path);
            }
        }
        let ids: Vec<usize> = pairs.iter().flat_map(|(a, b)| [a.id(), b.id()]).collect();
        check_ids(&ids)?;
        if multi {
            let mut handles = Vec::new();
            for ((a, b), plan) in pairs.into_iter().zip(plans.into_iter()) {
                let pa = plan.clone();
                handles.push(tokio::spawn(async move { side_a(a, &pa).await }));
                handles.push(tokio::spawn(async move { side_b(b, &plan).await }));
            }
            for h in handles {
                h.await.map_err(|e| format!("task: {e}"))??;
            }
            Ok(())
        } else {
            let futs = pairs.into_iter().zip(plans.iter()).map(|((a, b), plan)| async move {
                let (x, y) = futures_util::join!(side_a(a, plan), side_b(b, plan));
                x.and(y)
            });
            for r in futures_util::future::join_all(futs).await {
                r?;
            }
            Ok(())
        }
    })
}

// ---- smol ----

fn smol_transfer(transport: Transport, plans: &[Plan], tag: u64) -> Result<(), String> {
    smol::block_on(async {
        let mut pairs = Vec::new();
        match transport {
            Transport::Pair => {
                for _ in plans {
                    let (a, b) = StdUnixStream::pair().map_err(|e| e.to_string())?;
                    let a = smol::Async::new(a).map_err(|e| e.to_string())?;
                    let b = smol::Async::new(b).map_err(|e| e.to_string())?;
                    pairs.push((Connection::new(zlink_smol::unix::Stream::from(a)), Connection::new(zlink_smol::unix::Stream::from(b))));
                }
            }
            Transport::Bound | Transport::FromFd => {
                let path = sock_path(tag);
                let _ = std::fs::remove_file(&path);
                let mut early: Option<StdUnixStream> = None;
                let mut listener = if transport == Transport::Bound {
                    zlink_smol::unix::bind(&path).map_err(|e| format!("bind: {e:?}"))?
                } else {
                    let std_l = std::os::unix::net::UnixListener::bind(&path).map_err(|e| e.to_string())?;
                    early = Some(StdUnixStream::connect(&path).map_err(|e| format!("early connect: {e}"))?);
                    let fd: OwnedFd = std_l.into();
                    let raw = std::os::fd::AsRawFd::as_raw_fd(&fd);
                    let l = zlink_smol::unix::Listener::try_from(fd).map_err(|e| format!("try_from(fd): {e:?}"))?;
                    if fd_is_nonblocking(raw) == Some(false) {
                        return Err("a listener built from an inherited (blocking) descriptor left it in blocking mode: accept() would block the executor thread instead of returning Pending".to_string());
                    }
                    l
                };
                for _ in plans {
                    if let Some(early) = early.take() {
                        let accepted = smol::future::or(async { Some(listener.accept().await) }, async {
                            smol::Timer::after(Duration::from_secs(10)).await;
                            None
                        })
                        .await;
                        match accepted {
                            Some(server) => {
                                let client = smol::Async::new(early).map_err(|e| e.to_string())?;
                                pairs.push((Connection::new(zlink_smol::unix::Stream::from(client)), server.map_err(|e| format!("accept: {e:?}"))?));
                                continue;
                            }
                            None => {
                                early.set_nonblocking(true).map_err(|e| e.to_string())?;
                                let mut b = [0u8; 1];
                                return match std::io::Read::read(&mut &early, &mut b) {
                                    Ok(0) => Err("a client that had connected before the listener was built from the inherited descriptor was hung up on (its connection was taken out of the backlog and dropped); accept() never returned it".to_string()),
                                    _ => Err("accept() did not return the client waiting in the backlog within 10 s".to_string()),
                                };
                            }
                        }
                    }
                    let (client, server) = futures_util::join!(zlink_smol::unix::connect(&path), listener.accept());
                    pairs.push((client.map_err(|e| format!("connect: {e:?}"))?, server.map_err(|e| format!("accept: {e:?}"))?));
                }
                let _ = std::fs::remove_file(&path);
            }
        }
        let ids: Vec<usize> = pairs.iter().flat_map(|(a, b)| [a.id(), b.id()]).collect();
        check_ids(&ids)?;
        let futs = pairs.into_iter().zip(plans.iter()).map(|((a, b), plan)| async move {
            let (x, y) = futures_util::join!(side_a(a, plan), side_b(b, plan));
            x.and(y)
        });
        for r in futures_util::future::join_all(futs).await {
            r?;
        }
        Ok(())
    })
}

// ---- cancellation ----

fn drain_nonblocking(peer: &mut StdUnixStream, limit: usize) -> Vec<u8> {
    peer.set_nonblocking(true).unwrap();
    let mut out = Vec::new();
    let mut buf = vec![0u8; 65536];
    while out.len() < limit {
        let want = (limit - out.len()).min(buf.len());
        match peer.read(&mut buf[..want]) {
            Ok(0) => break,
            Ok(n) => out.extend_from_slice(&buf[..n]),
            Err(e) if e.kind() == std::io::ErrorKind::WouldBlock => break,
            Err(_) => break,
        }
    }
    out
}

/// Returns (bytes the peer received in total, bytes of A on the wire when the send was abandoned).
type Pause = fn() -> std::pin::Pin<Box<dyn std::future::Future<Output = ()>>>;

fn tokio_pause() -> std::pin::Pin<Box<dyn std::future::Future<Output = ()>>> {
    Box::pin(tokio::time::sleep(Duration::from_millis(2)))
}

fn smol_pause() -> std::pin::Pin<Box<dyn std::future::Future<Output = ()>>> {
    Box::pin(async {
        smol::Timer::after(Duration::from_millis(2)).await;
    })
}

/// `pause` gives the runtime's reactor a chance to run between the hand-made polls (tokio reports
/// a fresh socket as writable only after its driver has been turned).
async fn cancel_core<S: Socket>(mut conn: Connection<S>, mut peer: StdUnixStream, size: usize, peer_reads: usize, second_size: usize, pause: Pause) -> Result<(Vec<u8>, usize), String> {
    let sa = pattern(1, size);
    let sb = pattern(2, second_size);
    let call_a = Call::new(MethodA::Echo { s: &sa, n: 1 });
    let call_b = Call::new(MethodA::Echo { s: &sb, n: 2 });
    let mut received = Vec::new();
    {
        let fut = conn.send_call(&call_a);
        let mut fut = std::pin::pin!(fut);
        let mut done = false;
        for round in 0..3 {
            // poll until it is Pending twice in a row (nothing more can be written)
            for _ in 0..4 {
                if futures_util::poll!(fut.as_mut()).is_ready() {
                    done = true;
                    break;
                }
                pause().await;
            }
            if done || round == 2 {
                break;
            }
            if round == 0 {
                received.extend(drain_nonblocking(&mut peer, peer_reads));
            }
        }
        // the future is dropped here, completed or not
        let _ = done;
    }
    // what was written before the send was abandoned
    received.extend(drain_nonblocking(&mut peer, usize::MAX));
    let partial = received.len();
    // the peer now reads everything until the connection is closed
    peer.set_nonblocking(false).map_err(|e| e.to_string())?;
    let reader = std::thread::spawn(move || {
        let mut rest = Vec::new();
        let _ = peer.read_to_end(&mut rest);
        rest
    });
    conn.send_call(&call_b).await.map_err(|e| format!("second send_call: {e:?}"))?;
    drop(conn);
    let rest = reader.join().map_err(|_| "reader thread panicked".to_string())?;
    received.extend(rest);
    Ok((received, partial))
}

fn judge_cancel(size: usize, second_size: usize, received: &[u8], partial: usize) -> Result<(), String> {
    let sa = pattern(1, size);
    let sb = pattern(2, second_size);
    let mut fa = serde_json::to_vec(&Call::new(MethodA::Echo { s: &sa, n: 1 })).unwrap();
    fa.push(0);
    let mut fb = serde_json::to_vec(&Call::new(MethodA::Echo { s: &sb, n: 2 })).unwrap();
    fb.push(0);
    let mut both = fa.clone();
    both.extend_from_slice(&fb);
    let ok = if partial == 0 { received == fb.as_slice() || received == both.as_slice() } else { received == both.as_slice() };
    if ok {
        return Ok(());
    }
    let frames: Vec<usize> = received.split(|&b| b == 0).map(|f| f.len()).collect();
    Err(format!(
        "first call of {} bytes abandoned after {partial} bytes were on the wire, then a call of {} bytes sent: the peer received {} bytes in pieces of lengths {:?} (expected exactly the two frames: {} + {} bytes)",
        fa.len(),
        fb.len(),
        received.len(),
        frames,
        fa.len(),
        fb.len()
    ))
}

/// Returns (everything the peer received, per step: did the send complete, number of steps that
/// were abandoned while part of the connection's buffer was on the wire).
async fn cancel_history_core<S: Socket>(mut conn: Connection<S>, mut peer: StdUnixStream, steps: &[CancelStep], pause: Pause) -> Result<(Vec<u8>, Vec<bool>, usize), String> {
    let mut received = Vec::new();
    let mut completed = Vec::new();
    let mut partial_abandons = 0usize;
    // bytes handed to send operations so far (frames incl. terminators), to recognise a partial write
    let mut submitted = 0usize;
    for (i, st) in steps.iter().enumerate() {
        let s = pattern(i, st.size);
        let call = Call::new(MethodA::Echo { s: &s, n: i as i64 });
        submitted += serde_json::to_vec(&call).map_err(|e| e.to_string())?.len() + 1;
        let fut = conn.send_call(&call);
        let mut fut = std::pin::pin!(fut);
        let mut done = false;
        match st.polls {
            None => {
                // to completion; the peer drains whenever the send is Pending
                for _ in 0..100_000 {
                    match futures_util::poll!(fut.as_mut()) {
                        std::task::Poll::Ready(r) => {
                            r.map_err(|e| format!("send_call {i}: {e:?}"))?;
                            done = true;
                            break;
                        }
                        std::task::Poll::Pending => {
                            received.extend(drain_nonblocking(&mut peer, 1 << 20));
                            pause().await;
                        }
                    }
                }
                if !done {
                    return Err(format!("send_call {i} did not complete although the peer kept reading (inconclusive-looking stall)"));
                }
            }
            Some(k) => {
                for round in 0..k.max(1) {
                    match futures_util::poll!(fut.as_mut()) {
                        std::task::Poll::Ready(r) => {
                            r.map_err(|e| format!("send_call {i}: {e:?}"))?;
                            done = true;
                            break;
                        }
                        std::task::Poll::Pending => {
                            if round == 0 && st.peer_reads > 0 {
                                received.extend(drain_nonblocking(&mut peer, st.peer_reads));
                            }
                            pause().await;
                        }
                    }
                }
            }
        }
        completed.push(done);
        if !done && !st.hold {
            // the future is dropped here; what reached the kernel so far?
            received.extend(drain_nonblocking(&mut peer, usize::MAX));
            if received.len() < submitted && received.last().is_some_and(|&b| b != 0) {
                partial_abandons += 1;
            }
        }
    }
    peer.set_nonblocking(false).map_err(|e| e.to_string())?;
    drop(conn);
    let mut rest = Vec::new();
    peer.read_to_end(&mut rest).map_err(|e| e.to_string())?;
    received.extend(rest);
    Ok((received, completed, partial_abandons))
}

fn judge_cancel_history(steps: &[CancelStep], received: &[u8], completed: &[bool]) -> Result<(), String> {
    let frames: Vec<Vec<u8>> = steps
        .iter()
        .enumerate()
        .map(|(i, st)| {
            let s = pattern(i, st.size);
            serde_json::to_vec(&Call::new(MethodA::Echo { s: &s, n: i as i64 })).unwrap()
        })
        .collect();
    let describe = || {
        let pieces: Vec<usize> = received.split(|&b| b == 0).map(|f| f.len()).collect();
        format!("sent frames of {:?} bytes (completed: {completed:?}); the peer received {} bytes in NUL-separated pieces of {:?} bytes", frames.iter().map(|f| f.len()).collect::<Vec<_>>(), received.len(), pieces)
    };
    if !received.is_empty() && received.last() != Some(&0) {
        return Err(format!("the peer's stream ends inside a frame: {}", describe()));
    }
    let mut got = received.split(|&b| b == 0).collect::<Vec<_>>();
    got.pop(); // the empty piece after the last terminator
    // whole frames only, each at most once, in order: the received pieces are a subsequence of
    // the sent frames; every completed send must be there
    let mut next = 0usize;
    let mut seen = vec![false; frames.len()];
    for (k, piece) in got.iter().enumerate() {
        match (next..frames.len()).find(|&j| frames[j].as_slice() == *piece) {
            Some(j) => {
                seen[j] = true;
                next = j + 1;
            }
            None => return Err(format!("piece {k} ({} bytes) is not one of the frames still to come (corrupted, duplicated or out of order): {}", piece.len(), describe())),
        }
    }
    for (j, c) in completed.iter().enumerate() {
        if *c && !seen[j] {
            return Err(format!("the send of frame {j} completed but the peer never received it: {}", describe()));
        }
    }
    Ok(())
}

fn run_cancel_history(rt: Rt, steps: &[CancelStep]) -> Result<(bool, usize), String> {
    let (a, peer) = StdUnixStream::pair().map_err(|e| e.to_string())?;
    let (received, completed, partial) = match rt {
        Rt::Smol => smol::block_on(async {
            a.set_nonblocking(true).map_err(|e| e.to_string())?;
            let a = smol::Async::new(a).map_err(|e| e.to_string())?;
            cancel_history_core(Connection::new(zlink_smol::unix::Stream::from(a)), peer, steps, smol_pause).await
        })?,
        _ => {
            let rt = tokio::runtime::Builder::new_current_thread().enable_all().build().map_err(|e| e.to_string())?;
            rt.block_on(async {
                a.set_nonblocking(true).map_err(|e| e.to_string())?;
                let a = tokio::net::UnixStream::from_std(a).map_err(|e| e.to_string())?;
                cancel_history_core(Connection::new(zlink_tokio::unix::Stream::from(a)), peer, steps, tokio_pause).await
            })?
        }
    };
    judge_cancel_history(steps, &received, &completed)?;
    Ok((partial > 0, partial))
}

// ---- abandoned receives on a real socket ----

async fn recv_cancel_core<S: Socket>(mut conn: Connection<S>, mut peer: StdUnixStream, sizes: &[usize], frags: &[usize], drops: &[bool], pause: Pause) -> Result<usize, String> {
    use std::io::Write;
    let mut stream = Vec::new();
    for (i, &n) in sizes.iter().enumerate() {
        let s = pattern(i, n);
        stream.extend(serde_json::to_vec(&Call::new(MethodA::Echo { s: &s, n: i as i64 })).map_err(|e| e.to_string())?);
        stream.push(0);
    }
    let mut written = 0usize;
    let mut frag_no = 0usize;
    let mut got = 0usize;
    let mut abandoned_mid_frame = 0usize;
    let mut frame_ends = Vec::new();
    {
        let mut at = 0;
        for (i, &n) in sizes.iter().enumerate() {
            let s = pattern(i, n);
            at += serde_json::to_vec(&Call::new(MethodA::Echo { s: &s, n: i as i64 })).unwrap().len() + 1;
            frame_ends.push(at);
        }
    }
    let mut idle = 0usize;
    'outer: while got < sizes.len() {
        let fut = conn.receive_call::<MethodA<'_>>();
        let mut fut = std::pin::pin!(fut);
        let mut polls = 0usize;
        loop {
            match futures_util::poll!(fut.as_mut()) {
                std::task::Poll::Ready(Ok(call)) => {
                    let n = sizes[got];
                    match call.method() {
                        MethodA::Echo { s, n: idx } if *idx == got as i64 && s.len() == n && **s == pattern(got, n) => {}
                        other => return Err(format!("message {got}: expected index {got} with {n} pattern bytes, got {}", vcommon::ev::truncate(&format!("{other:?}"), 120))),
                    }
                    got += 1;
                    idle = 0;
                    continue 'outer;
                }
                std::task::Poll::Ready(Err(e)) => return Err(format!("receive of message {got} failed: {e:?} ({written} of {} bytes written by the peer, {abandoned_mid_frame} receives abandoned inside a frame)", stream.len())),
                std::task::Poll::Pending => {
                    polls += 1;
                    pause().await;
                    if polls < 2 {
                        continue;
                    }
                    polls = 0;
                    if written < stream.len() {
                        let n = frags[frag_no % frags.len()].max(1).min(stream.len() - written);
                        peer.write_all(&stream[written..written + n]).map_err(|e| e.to_string())?;
                        written += n;
                        let drop_now = !drops.is_empty() && drops[frag_no % drops.len()];
                        frag_no += 1;
                        if drop_now {
                            // let the bytes reach the connection (or not), then abandon the receive
                            let k = 1 + frag_no % 3;
                            for _ in 0..k {
                                if let std::task::Poll::Ready(r) = futures_util::poll!(fut.as_mut()) {
                                    match r {
                                        Ok(call) => {
                                            let n = sizes[got];
                                            match call.method() {
                                                MethodA::Echo { s, n: idx } if *idx == got as i64 && s.len() == n && **s == pattern(got, n) => {}
                                                other => return Err(format!("message {got}: expected index {got} with {n} pattern bytes, got {}", vcommon::ev::truncate(&format!("{other:?}"), 120))),
                                            }
                                            got += 1;
                                            continue 'outer;
                                        }
                                        Err(e) => return Err(format!("receive of message {got} failed: {e:?}")),
                                    }
                                }
                                pause().await;
                            }
                            if !frame_ends.contains(&written) {
                                abandoned_mid_frame += 1;
                            }
                            continue 'outer;
                        }
                    } else {
                        idle += 1;
                        if idle > 400 {
                            return Err(format!("the peer wrote all {} bytes ({} frames) but only {got} messages were received; the receive stays pending ({abandoned_mid_frame} receives abandoned inside a frame)", stream.len(), sizes.len()));
                        }
                    }
                }
            }
        }
    }
    Ok(abandoned_mid_frame)
}

fn run_recv_cancel(rt: Rt, sizes: &[usize], frags: &[usize], drops: &[bool]) -> Result<(bool, usize), String> {
    let (a, peer) = StdUnixStream::pair().map_err(|e| e.to_string())?;
    let n = match rt {
        Rt::Smol => smol::block_on(async {
            a.set_nonblocking(true).map_err(|e| e.to_string())?;
            let a = smol::Async::new(a).map_err(|e| e.to_string())?;
            recv_cancel_core(Connection::new(zlink_smol::unix::Stream::from(a)), peer, sizes, frags, drops, smol_pause).await
        })?,
        _ => {
            let rt = tokio::runtime::Builder::new_current_thread().enable_all().build().map_err(|e| e.to_string())?;
            rt.block_on(async {
                a.set_nonblocking(true).map_err(|e| e.to_string())?;
                let a = tokio::net::UnixStream::from_std(a).map_err(|e| e.to_string())?;
                recv_cancel_core(Connection::new(zlink_tokio::unix::Stream::from(a)), peer, sizes, frags, drops, tokio_pause).await
            })?
        }
    };
    Ok((n > 0, n))
}

// ---- zlink's server on real sockets ----

#[derive(Debug, Serialize, Deserialize)]
#[serde(tag = "method", content = "parameters")]
enum E2eMethod<'a> {
    #[serde(rename = "org.e2e.Echo")]
    Echo { id: u32, pad: &'a str },
    #[serde(rename = "org.e2e.Fail")]
    Fail { id: u32 },
    #[serde(rename = "org.e2e.Sub")]
    Sub { id: u32, n: u32, size: u32 },
}

#[derive(Debug, Clone, PartialEq, Serialize, Deserialize)]
struct E2eReply {
    id: u32,
    seq: u32,
    pad: String,
}

#[derive(Debug, Clone, PartialEq, zlink_core::ReplyError)]
#[zlink(interface = "org.e2e", crate = "zlink_core")]
enum E2eError {
    Failed { id: u32 },
}

struct E2eService;

impl zlink_core::Service for E2eService {
    type MethodCall<'de> = E2eMethod<'de>;
    type ReplyParams<'ser> = E2eReply;
    type ReplyStreamParams = E2eReply;
    type ReplyStream = futures_util::stream::Iter<std::vec::IntoIter<Reply<E2eReply>>>;
    type ReplyError<'ser> = E2eError;

    async fn handle<'ser>(
        &'ser mut self,
        call: Call<Self::MethodCall<'_>>,
    ) -> zlink_core::service::MethodReply<Self::ReplyParams<'ser>, Self::ReplyStream, Self::ReplyError<'ser>> {
        use zlink_core::service::MethodReply;
        match *call.method() {
            E2eMethod::Echo { id, pad } => MethodReply::Single(Some(E2eReply { id, seq: 0, pad: pad.to_string() })),
            E2eMethod::Fail { id } => MethodReply::Error(E2eError::Failed { id }),
            E2eMethod::Sub { id, n, size } => {
                let items: Vec<_> = (0..n).map(|seq| Reply::new(Some(E2eReply { id, seq, pad: pattern(seq as usize + 77, size as usize) })).set_continues(Some(seq + 1 < n))).collect();
                MethodReply::Multi(futures_util::stream::iter(items))
            }
        }
    }
}

fn check_echo(what: &str, r: zlink_core::Result<Result<Reply<E2eReply>, E2eError>>, id: u32, idx: usize, size: usize, cont: Option<bool>) -> Result<(), String> {
    match r {
        Ok(Ok(rep)) => {
            let c = rep.continues();
            match rep.into_parameters() {
                Some(p) if p.id == id && p.pad == pattern(idx, size) && c == cont => Ok(()),
                Some(p) => Err(format!("{what}: expected the reply to call {id} with {size} pattern bytes and continues {cont:?}, got id {} seq {} with {} bytes (equal: {}) continues {c:?}", p.id, p.seq, p.pad.len(), p.pad == pattern(idx, size))),
                None => Err(format!("{what}: reply without parameters")),
            }
        }
        other => Err(format!("{what}: expected a success reply, got {}", vcommon::ev::truncate(&format!("{other:?}"), 200))),
    }
}

async fn served_client<S: Socket>(mut conn: Connection<S>, ops: &[COp]) -> Result<(), String> {
    use futures_util::StreamExt;
    let mut id = 0u32;
    for (k, op) in ops.iter().chain([&COp::Echo(9)]).enumerate() {
        match op {
            COp::Echo(size) => {
                id += 1;
                let pad = pattern(id as usize, *size);
                let call = Call::new(E2eMethod::Echo { id, pad: &pad });
                let r = conn.call_method::<_, E2eReply, E2eError>(&call).await;
                // server replies carry an explicit continues:false
                check_echo(&format!("op {k} Echo"), r, id, id as usize, *size, Some(false))?;
            }
            COp::Fail => {
                id += 1;
                let call = Call::new(E2eMethod::Fail { id });
                match conn.call_method::<_, E2eReply, E2eError>(&call).await {
                    Ok(Err(E2eError::Failed { id: got })) if got == id => {}
                    other => return Err(format!("op {k} Fail: expected the declared error for call {id}, got {}", vcommon::ev::truncate(&format!("{other:?}"), 200))),
                }
            }
            COp::Oneway(size) => {
                id += 1;
                let pad = pattern(id as usize, *size);
                let call = Call::new(E2eMethod::Echo { id, pad: &pad }).set_oneway(true);
                conn.send_call(&call).await.map_err(|e| format!("op {k} Oneway: {e:?}"))?;
            }
            COp::Batch(sizes) => {
                let first = id + 1;
                let pads: Vec<String> = sizes.iter().enumerate().map(|(j, s)| pattern((first as usize) + j, *s)).collect();
                let calls: Vec<_> = pads.iter().enumerate().map(|(j, p)| Call::new(E2eMethod::Echo { id: first + j as u32, pad: p })).collect();
                id += sizes.len() as u32;
                let mut chain = conn.chain_call::<_, E2eReply, E2eError>(&calls[0]).map_err(|e| format!("op {k} Batch: {e:?}"))?;
                for c in &calls[1..] {
                    chain = chain.append(c).map_err(|e| format!("op {k} Batch: {e:?}"))?;
                }
                let stream = chain.send().await.map_err(|e| format!("op {k} Batch send: {e:?}"))?;
                let mut stream = std::pin::pin!(stream);
                for (j, s) in sizes.iter().enumerate() {
                    let item = stream.next().await.ok_or_else(|| format!("op {k} Batch: the reply stream ended after {j} of {} replies", sizes.len()))?;
                    check_echo(&format!("op {k} Batch reply {j}"), item, first + j as u32, first as usize + j, *s, Some(false))?;
                }
                if stream.next().await.is_some() {
                    return Err(format!("op {k} Batch: the reply stream yielded more than {} replies", sizes.len()));
                }
            }
            COp::Sub { n, size } => {
                id += 1;
                let call = Call::new(E2eMethod::Sub { id, n: *n, size: *size as u32 }).set_more(true);
                conn.send_call(&call).await.map_err(|e| format!("op {k} Sub: {e:?}"))?;
                for seq in 0..*n {
                    let r = conn.receive_reply::<E2eReply, E2eError>().await;
                    match r {
                        Ok(Ok(rep)) => {
                            let c = rep.continues();
                            let p = rep.into_parameters().ok_or_else(|| format!("op {k} Sub item {seq}: no parameters"))?;
                            if p.id != id || p.seq != seq || p.pad != pattern(seq as usize + 77, *size) || c != Some(seq + 1 < *n) {
                                return Err(format!("op {k} Sub: expected item {seq} of call {id} ({size} bytes, continues {}), got id {} seq {} with {} bytes continues {c:?}", seq + 1 < *n, p.id, p.seq, p.pad.len()));
                            }
                        }
                        other => return Err(format!("op {k} Sub item {seq}: {}", vcommon::ev::truncate(&format!("{other:?}"), 200))),
                    }
                }
            }
        }
    }
    Ok(())
}

fn run_served(server_rt: Rt, client_rt: Rt, transport: Transport, clients: &[Vec<COp>], tag: u64) -> Result<(bool, usize), String> {
    use std::sync::atomic::{AtomicBool, Ordering};
    let path = sock_path(tag);
    let _ = std::fs::remove_file(&path);
    // the listening socket exists before any client connects
    let std_l = std::os::unix::net::UnixListener::bind(&path).map_err(|e| e.to_string())?;
    let fd: OwnedFd = std_l.into();
    let stop = std::sync::Arc::new(AtomicBool::new(false));
    let stop2 = stop.clone();
    let (ready_tx, ready_rx) = mpsc::channel::<Result<(), String>>();
    let path2 = path.clone();
    let server = std::thread::Builder::new()
        .name("c19-server".into())
        .spawn(move || -> Result<(), String> {
            async fn until_stopped(stop: std::sync::Arc<AtomicBool>, pause: Pause) {
                while !stop.load(Ordering::SeqCst) {
                    pause().await;
                }
            }
            match server_rt {
                Rt::Smol => smol::block_on(async {
                    let listener = if transport == Transport::FromFd {
                        zlink_smol::unix::Listener::try_from(fd).map_err(|e| format!("try_from(fd): {e:?}"))
                    } else {
                        drop(fd);
                        let _ = std::fs::remove_file(&path2);
                        zlink_smol::unix::bind(&path2).map_err(|e| format!("bind: {e:?}"))
                    };
                    let listener = match listener {
                        Ok(l) => {
                            let _ = ready_tx.send(Ok(()));
                            l
                        }
                        Err(e) => {
                            let _ = ready_tx.send(Err(e.clone()));
                            return Err(e);
                        }
                    };
                    let run = zlink_core::Server::new(listener, E2eService).run();
                    match futures_util::future::select(std::pin::pin!(run), std::pin::pin!(until_stopped(stop2, smol_pause))).await {
                        futures_util::future::Either::Left((r, _)) => Err(format!("Server::run returned {r:?}")),
                        futures_util::future::Either::Right(_) => Ok(()),
                    }
                }),
                _ => {
                    let rt = tokio::runtime::Builder::new_current_thread().enable_all().build().map_err(|e| e.to_string())?;
                    rt.block_on(async {
                        let listener = if transport == Transport::FromFd {
                            zlink_tokio::unix::Listener::try_from(fd).map_err(|e| format!("try_from(fd): {e:?}"))
                        } else {
                            drop(fd);
                            let _ = std::fs::remove_file(&path2);
                            zlink_tokio::unix::bind(&path2).map_err(|e| format!("bind: {e:?}"))
                        };
                        let listener = match listener {
                            Ok(l) => {
                                let _ = ready_tx.send(Ok(()));
                                l
                            }
                            Err(e) => {
                                let _ = ready_tx.send(Err(e.clone()));
                                return Err(e);
                            }
                        };
                        let run = zlink_core::Server::new(listener, E2eService).run();
                        match futures_util::future::select(std::pin::pin!(run), std::pin::pin!(until_stopped(stop2, tokio_pause))).await {
                            futures_util::future::Either::Left((r, _)) => Err(format!("Server::run returned {r:?}")),
                            futures_util::future::Either::Right(_) => Ok(()),
                        }
                    })
                }
            }
        })
        .map_err(|e| e.to_string())?;
    let outcome = (|| -> Result<(), String> {
        ready_rx.recv_timeout(Duration::from_secs(20)).map_err(|_| "the server thread did not come up".to_string())??;
        match client_rt {
            Rt::Smol => smol::block_on(async {
                let futs = clients.iter().enumerate().map(|(c, ops)| {
                    let path = path.clone();
                    async move {
                        let conn = zlink_smol::unix::connect(&path).await.map_err(|e| format!("client {c} connect: {e:?}"))?;
                        served_client(conn, ops).await.map_err(|e| format!("client {c}: {e}"))
                    }
                });
                futures_util::future::join_all(futs).await.into_iter().collect::<Result<Vec<()>, String>>().map(|_| ())
            }),
            rt => {
                let rt = if rt == Rt::TokioMulti { tokio::runtime::Builder::new_multi_thread().worker_threads(3).enable_all().build() } else { tokio::runtime::Builder::new_current_thread().enable_all().build() }.map_err(|e| e.to_string())?;
                rt.block_on(async {
                    let futs = clients.iter().enumerate().map(|(c, ops)| {
                        let path = path.clone();
                        async move {
                            let conn = zlink_tokio::unix::connect(&path).await.map_err(|e| format!("client {c} connect: {e:?}"))?;
                            served_client(conn, ops).await.map_err(|e| format!("client {c}: {e}"))
                        }
                    });
                    futures_util::future::join_all(futs).await.into_iter().collect::<Result<Vec<()>, String>>().map(|_| ())
                })
            }
        }
    })();
    stop.store(true, Ordering::SeqCst);
    let srv = server.join().map_err(|_| "server thread panicked".to_string());
    let _ = std::fs::remove_file(&path);
    outcome?;
    srv??;
    Ok((false, 0))
}

fn run_cancel(rt: Rt, size: usize, peer_reads: usize, second_size: usize) -> Result<(bool, usize), String> {
    let (a, peer) = StdUnixStream::pair().map_err(|e| e.to_string())?;
    let (received, partial) = match rt {
        Rt::Smol => smol::block_on(async {
            a.set_nonblocking(true).map_err(|e| e.to_string())?;
            let a = smol::Async::new(a).map_err(|e| e.to_string())?;
            cancel_core(Connection::new(zlink_smol::unix::Stream::from(a)), peer, size, peer_reads, second_size, smol_pause).await
        })?,
        _ => {
            let rt = tokio::runtime::Builder::new_current_thread().enable_all().build().map_err(|e| e.to_string())?;
            rt.block_on(async {
                a.set_nonblocking(true).map_err(|e| e.to_string())?;
                let a = tokio::net::UnixStream::from_std(a).map_err(|e| e.to_string())?;
                cancel_core(Connection::new(zlink_tokio::unix::Stream::from(a)), peer, size, peer_reads, second_size, tokio_pause).await
            })?
        }
    };
    let full = size + 60;
    judge_cancel(size, second_size, &received, partial)?;
    Ok((partial > 0 && partial < full, partial))
}

// ---------------------------------------------------------------------------------------------

fn mix(seed: u64, i: u64) -> u64 {
    let mut z = seed ^ i.wrapping_mul(0x9E3779B97F4A7C15);
    z = (z ^ (z >> 30)).wrapping_mul(0xBF58476D1CE4E5B9);
    z = (z ^ (z >> 27)).wrapping_mul(0x94D049BB133111EB);
    z ^ (z >> 31)
}

fn size_from(r: u64, large: bool) -> usize {
    match (r % 10, large) {
        (0..=2, false) => 1 + (r >> 8) as usize % 300,
        (3..=5, false) => 200 + (r >> 8) as usize % 3000,
        (6..=8, false) => 10_000 + (r >> 8) as usize % 60_000,
        (_, false) => 200_000 + (r >> 8) as usize % 100_000,
        (0..=5, true) => 220_000 + (r >> 8) as usize % 300_000,
        (6..=8, true) => 1 + (r >> 8) as usize % 2000,
        (_, true) => 1 << 20,
    }
}

fn scenarios(ctx: &Ctx) -> Vec<Scenario> {
    let mut v = Vec::new();
    let n_small = ctx.tier.pick(36u64, 600);
    let n_large = ctx.tier.pick(9u64, 120);
    let rts = [Rt::TokioCurrent, Rt::TokioMulti, Rt::Smol];
    let transports = [Transport::Pair, Transport::Bound, Transport::FromFd];
    for i in 0..n_small + n_large {
        let large = i >= n_small;
        let r = mix(ctx.seed, i);
        let rt = rts[(i % 3) as usize];
        let transport = transports[((i / 3) % 3) as usize];
        let conns = if large { 1 + (r % 2) as usize } else { 1 + (r % 8) as usize };
        let plans = (0..conns)
            .map(|c| {
                let r2 = mix(r, c as u64);
                let nc = if large { 1 + (r2 % 3) as usize } else { (r2 % 8) as usize };
                let nr = if large { 1 + ((r2 >> 4) % 3) as usize } else { ((r2 >> 4) % 8) as usize };
                Plan {
                    calls: (0..nc).map(|k| size_from(mix(r2, 100 + k as u64), large)).collect(),
                    replies: (0..nr).map(|k| size_from(mix(r2, 200 + k as u64), large)).collect(),
                    a_lag: ((r2 >> 20) % 5) as u8,
                    b_lag: ((r2 >> 24) % 5) as u8,
                }
            })
            .collect();
        v.push(Scenario::Transfer { rt, transport, plans });
    }
    let n_cancel = ctx.tier.pick(12u64, 200);
    for i in 0..n_cancel {
        let r = mix(ctx.seed ^ 0xC19, i);
        let rt = if i % 2 == 0 { Rt::TokioCurrent } else { Rt::Smol };
        let size = [70_000usize, 250_000, 400_000, 1 << 20][(r % 4) as usize] + (r >> 8) as usize % 5000;
        let peer_reads = [0usize, 1, 4096, 100_000, 300_000][((r >> 4) % 5) as usize];
        let second_size = [5usize, 300, 70_000][((r >> 12) % 3) as usize];
        v.push(Scenario::Cancel { rt, size, peer_reads, second_size });
    }
    let n_hist = ctx.tier.pick(24u64, 400);
    for i in 0..n_hist {
        let r = mix(ctx.seed ^ 0xC19C, i);
        let rt = if i % 2 == 0 { Rt::TokioCurrent } else { Rt::Smol };
        let n = 2 + (r % 5) as usize;
        let mut steps: Vec<CancelStep> = (0..n)
            .map(|k| {
                let q = mix(r, 10 + k as u64);
                let size = match q % 8 {
                    0 | 1 => 1 + (q >> 8) as usize % 400,
                    2 => 60_000 + (q >> 8) as usize % 20_000,
                    3..=5 => 230_000 + (q >> 8) as usize % 200_000,
                    6 => 450_000 + (q >> 8) as usize % 300_000,
                    _ => 120_000 + (q >> 8) as usize % 60_000,
                };
                let polls = if (q >> 40) % 3 == 0 { None } else { Some(1 + ((q >> 44) % 4) as u8) };
                let peer_reads = [0usize, 0, 1, 4096, 70_000, 250_000][((q >> 48) % 6) as usize];
                CancelStep { size, polls, peer_reads, hold: (q >> 52) % 2 == 0 }
            })
            .collect();
        steps.last_mut().unwrap().polls = None;
        v.push(Scenario::CancelHistory { rt, steps });
    }
    // directed: a send abandoned after a partial write, then one or two more abandoned while the
    // socket is still full (no byte goes out), then a send that completes
    for (i, rt) in [Rt::TokioCurrent, Rt::Smol].into_iter().enumerate() {
        for (k, (first, second, again)) in [(400_000usize, 5usize, false), (700_000, 300_000, false), (300_000, 40, true), (1 << 20, 70_000, true)].into_iter().enumerate() {
            let r = mix(ctx.seed ^ 0xD1EC, (i * 8 + k) as u64);
            let mut steps = vec![
                CancelStep { size: first + (r % 3000) as usize, polls: Some(1 + (r >> 8) as u8 % 3), peer_reads: 0, hold: true },
                CancelStep { size: second + (r >> 16) as usize % 7, polls: Some(1 + (r >> 24) as u8 % 3), peer_reads: 0, hold: true },
            ];
            if again {
                steps.push(CancelStep { size: 9 + (r >> 32) as usize % 500, polls: Some(1), peer_reads: 0, hold: k % 2 == 0 });
            }
            steps.push(CancelStep { size: 5 + (r >> 40) as usize % 100, polls: None, peer_reads: 0, hold: false });
            v.push(Scenario::CancelHistory { rt, steps });
        }
    }
    let n_rc = ctx.tier.pick(16u64, 300);
    for i in 0..n_rc {
        let r = mix(ctx.seed ^ 0x7ECC, i);
        let rt = if i % 2 == 0 { Rt::TokioCurrent } else { Rt::Smol };
        let sizes: Vec<usize> = (0..1 + (r % 5) as usize)
            .map(|k| {
                let q = mix(r, 20 + k as u64);
                match q % 4 {
                    0 => 1 + (q >> 8) as usize % 200,
                    1 => 200 + (q >> 8) as usize % 600,
                    2 => 1000 + (q >> 8) as usize % 9000,
                    _ => 20_000 + (q >> 8) as usize % 60_000,
                }
            })
            .collect();
        let frags: Vec<usize> = (0..1 + ((r >> 8) % 4) as usize)
            .map(|k| {
                let q = mix(r, 40 + k as u64);
                match q % 4 {
                    0 => 1 + (q >> 8) as usize % 20,
                    1 => 100 + (q >> 8) as usize % 400,
                    2 => 256 * (1 + (q >> 8) as usize % 8),
                    _ => 3000 + (q >> 8) as usize % 30_000,
                }
            })
            .collect();
        let drops: Vec<bool> = (0..1 + ((r >> 16) % 5) as usize).map(|k| mix(r, 60 + k as u64) % 3 != 0).collect();
        // bound the number of fragments (each costs a few reactor turns)
        let total: usize = sizes.iter().sum::<usize>() + 60 * sizes.len();
        let avg = (frags.iter().sum::<usize>() / frags.len()).max(1);
        let frags = if total / avg > 150 { frags.iter().map(|f| f * (total / avg / 150 + 1)).collect() } else { frags };
        v.push(Scenario::RecvCancel { rt, sizes, frags, drops });
    }
    let n_served = ctx.tier.pick(24u64, 400);
    for i in 0..n_served {
        let r = mix(ctx.seed ^ 0x5E12, i);
        let server_rt = if i % 2 == 0 { Rt::TokioCurrent } else { Rt::Smol };
        let client_rt = [Rt::TokioCurrent, Rt::Smol, Rt::TokioMulti][((i / 2) % 3) as usize];
        let transport = if (i / 6) % 2 == 0 { Transport::Bound } else { Transport::FromFd };
        let n_clients = 1 + (r % 6) as usize;
        let clients = (0..n_clients)
            .map(|c| {
                let r2 = mix(r, 50 + c as u64);
                (0..1 + (r2 % 6) as usize)
                    .map(|k| {
                        let q = mix(r2, 300 + k as u64);
                        let size = match (q >> 8) % 6 {
                            0 | 1 => 1 + (q >> 16) as usize % 500,
                            2 | 3 => 1000 + (q >> 16) as usize % 30_000,
                            4 => 100_000 + (q >> 16) as usize % 100_000,
                            _ => 230_000 + (q >> 16) as usize % 300_000,
                        };
                        match q % 8 {
                            0..=2 => COp::Echo(size),
                            3 => COp::Fail,
                            4 => COp::Oneway(size.min(60_000)),
                            5 | 6 => COp::Batch((0..1 + (q >> 40) as usize % 5).map(|j| 1 + (mix(q, j as u64) as usize) % 6000).collect()),
                            _ => COp::Sub { n: 1 + ((q >> 44) % 5) as u32, size: size.min(120_000) },
                        }
                    })
                    .collect()
            })
            .collect();
        v.push(Scenario::Served { server_rt, client_rt, transport, clients });
    }
    for (threads, per_thread) in [(2usize, 40_000usize), (8, 25_000), (16, 10_000)] {
        v.push(Scenario::Ids { threads, per_thread: ctx.tier.pick(per_thread, per_thread * 4) });
    }
    v
}

/// Runs one scenario under a deadline. Ok(None) = deadline expired (inconclusive).
fn run_scenario(sc: &Scenario, tag: u64, deadline: Duration) -> Option<Result<(bool, usize), String>> {
    let (tx, rx) = mpsc::channel();
    let sc2 = sc.clone();
    std::thread::Builder::new()
        .name("c19-scenario".into())
        .spawn(move || {
            let r = std::panic::catch_unwind(|| match &sc2 {
                Scenario::Transfer { rt, transport, plans } => match rt {
                    Rt::TokioCurrent => tokio_transfer(false, *transport, plans, tag),
                    Rt::TokioMulti => tokio_transfer(true, *transport, plans, tag),
                    Rt::Smol => smol_transfer(*transport, plans, tag),
                }
                .map(|()| (false, 0)),
                Scenario::Cancel { rt, size, peer_reads, second_size } => run_cancel(*rt, *size, *peer_reads, *second_size),
                Scenario::Ids { threads, per_thread } => run_ids(*threads, *per_thread),
                Scenario::CancelHistory { rt, steps } => run_cancel_history(*rt, steps),
                Scenario::RecvCancel { rt, sizes, frags, drops } => run_recv_cancel(*rt, sizes, frags, drops),
                Scenario::Served { server_rt, client_rt, transport, clients } => run_served(*server_rt, *client_rt, *transport, clients, tag),
            });
            let _ = tx.send(match r {
                Ok(r) => r,
                Err(_) => Err(format!("panic: {}", vcommon::drv::take_last_panic().unwrap_or_default())),
            });
        })
        .ok()?;
    rx.recv_timeout(deadline).ok()
}

fn classify(sc: &Scenario, stats: &mut Stats) -> bool {
    match sc {
        Scenario::Transfer { rt, transport, plans } => {
            stats.class(&format!("transfer:{rt:?}"));
            stats.class(&format!("transport:{transport:?}"));
            if plans.len() >= 2 {
                stats.class("concurrent-connections>=2");
            }
            let big = |p: &Plan| p.calls.iter().chain(&p.replies).any(|&s| s > 212_992);
            let both = |p: &Plan| !p.calls.is_empty() && !p.replies.is_empty();
            let nt = plans.iter().any(|p| big(p) && both(p));
            if nt {
                stats.class("message>208KiB-with-traffic-both-ways");
            }
            if plans.iter().any(|p| p.calls.iter().chain(&p.replies).any(|&s| s >= 1 << 20)) {
                stats.class("message>=1MiB");
            }
            nt
        }
        Scenario::Cancel { rt, .. } => {
            stats.class(&format!("cancel:{rt:?}"));
            false
        }
        Scenario::Ids { threads, .. } => {
            stats.class("ids:connections-constructed-on-several-threads-at-once");
            *threads >= 2
        }
        Scenario::RecvCancel { rt, .. } => {
            stats.class(&format!("recv-cancel:{rt:?}"));
            false
        }
        Scenario::Served { server_rt, client_rt, transport, clients } => {
            stats.class(&format!("served:server={server_rt:?},clients={client_rt:?}"));
            stats.class(&format!("served:listener={transport:?}"));
            if clients.len() >= 2 {
                stats.class("served:>=2-clients");
            }
            let ops = || clients.iter().flatten();
            if ops().any(|o| matches!(o, COp::Sub { .. })) {
                stats.class("served:has-streaming-call");
            }
            if ops().any(|o| matches!(o, COp::Batch(b) if b.len() >= 2)) {
                stats.class("served:has-pipelined-batch");
            }
            if ops().any(|o| matches!(o, COp::Oneway(_))) {
                stats.class("served:has-oneway");
            }
            let big = ops().any(|o| matches!(o, COp::Echo(s) if *s > 212_992));
            if big {
                stats.class("served:call>208KiB");
            }
            clients.len() >= 2 && (big || ops().any(|o| matches!(o, COp::Sub { .. } | COp::Batch(_))))
        }
        Scenario::CancelHistory { rt, steps } => {
            stats.class(&format!("cancel-history:{rt:?}"));
            if steps.iter().filter(|s| s.polls.is_some()).count() >= 2 {
                stats.class("cancel-history:>=2-abandoned-sends");
            }
            false
        }
    }
}

pub fn run(ctx: &Ctx) -> i32 {
    let scs = scenarios(ctx);
    let mut stats = Stats::default();
    let mut viol: Vec<Violation> = Vec::new();
    let mut inconclusive = 0;
    let deadline = Duration::from_secs(if ctx.tier == Tier::Quick { 60 } else { 120 });
    // run a few scenarios at a time
    let chunk = std::env::var("VERIF_C19_PARALLEL").ok().and_then(|s| s.parse().ok()).unwrap_or(ctx.tier.pick(4usize, 8));
    for (base, group) in scs.chunks(chunk).enumerate() {
        let results: Vec<_> = std::thread::scope(|s| {
            let hs: Vec<_> = group
                .iter()
                .enumerate()
                .map(|(k, sc)| {
                    let tag = (base * chunk + k) as u64;
                    s.spawn(move || run_scenario(sc, tag, deadline))
                })
                .collect();
            hs.into_iter().map(|h| h.join().unwrap_or(None)).collect()
        });
        for (sc, r) in group.iter().zip(results) {
            stats.eval();
            let mut nt = classify(sc, &mut stats);
            stats.sample(|| serde_json::to_value(sc).unwrap());
            match r {
                None => {
                    inconclusive += 1;
                    stats.class("deadline-expired(inconclusive)");
                }
                Some(Ok((partial_cancel, partial))) => {
                    if partial_cancel && matches!(sc, Scenario::RecvCancel { .. }) {
                        stats.class("recv-cancel:receive-abandoned-inside-a-frame");
                        nt = true;
                    } else if partial_cancel && matches!(sc, Scenario::CancelHistory { .. }) {
                        stats.class("cancel-history:abandoned-after-a-partial-write");
                        if partial >= 2 {
                            stats.class("cancel-history:>=2-abandons-after-partial-writes");
                        }
                        nt = true;
                    } else if partial_cancel {
                        stats.class("cancelled-after-a-partial-write");
                        nt = true;
                    } else if let Scenario::Cancel { rt, size, .. } = sc {
                        stats.class(&format!("{}:{rt:?}:size={size}", if partial == 0 { "cancelled-before-any-byte" } else { "send-completed-before-cancel" }));
                    }
                }
                Some(Err(msg)) => {
                    let sig = match sc {
                        Scenario::Cancel { .. } | Scenario::CancelHistory { .. } => "send-cancelled-after-partial-write",
                        Scenario::Ids { .. } => "connection-ids-not-distinct",
                        Scenario::Transfer { .. } if msg.contains("ids are not") => "connection-ids-not-distinct",
                        Scenario::Transfer { .. } if msg.contains("blocking mode") => "inherited-listener-left-blocking",
                        Scenario::Transfer { .. } => "transfer-lost-or-corrupted",
                        Scenario::Served { .. } => "served-exchange-lost-or-corrupted",
                        Scenario::RecvCancel { .. } => "receive-abandoned-on-real-socket",
                    };
                    viol.push(Violation { sig: sig.into(), lane: "scenario".into(), case: serde_json::to_value(sc).unwrap(), message: msg });
                }
            }
            if nt {
                stats.nontrivial_hash(hash_of(sc));
            }
        }
    }
    let _ = std::fs::remove_dir_all(verif_root().join("work").join("C19"));
    let code = Report::new(RULE)
        .assume("the interleaving of the two ends is decided by the kernel and the runtimes, not by the harness; a run is one sample of it per scenario (violations are re-run 5 times on replay)")
        .assume("a scenario that exceeds its deadline is reported as inconclusive (exit 2), never as a violation")
        .extra("scenarios", json!(scs.len()))
        .extra("inconclusive", json!(inconclusive))
        .finish(ctx, &stats, &viol, &[]);
    if code == 0 && inconclusive > 0 {
        eprintln!("C19: {inconclusive} scenario(s) exceeded the deadline; inconclusive");
        return 2;
    }
    code
}

pub fn replay(_lane: &str, case: serde_json::Value) -> Result<(), Fail> {
    let sc: Scenario = serde_json::from_value(case).map_err(|e| Fail::new("bad-replay", e.to_string()))?;
    println!("{sc:?}");
    for round in 0..5 {
        match run_scenario(&sc, 0xEE00 + round, Duration::from_secs(120)) {
            None => println!("round {round}: deadline expired"),
            Some(Ok(info)) => println!("round {round}: ok {info:?}"),
            Some(Err(m)) => {
                let sig = match sc {
                    Scenario::Cancel { .. } | Scenario::CancelHistory { .. } => "send-cancelled-after-partial-write",
                    Scenario::Ids { .. } => "connection-ids-not-distinct",
                    Scenario::Served { .. } => "served-exchange-lost-or-corrupted",
                    Scenario::RecvCancel { .. } => "receive-abandoned-on-real-socket",
                    _ => "transfer-lost-or-corrupted",
                };
                return Err(Fail::new(sig, format!("round {round}: {m}")));
            }
        }
    }
    Ok(())
}
