//! C15 — generated code speaks exactly the interface described by the IDL.
//!
//! IDL trees are generated, rendered, parsed by zlink and handed to `zlink_codegen` (as a library);
//! each generated module plus a driver written by the harness goes into the `corp15` crate, which is
//! compiled against /repo and run. Expectations are computed from the IDL tree.

use std::{
    collections::{BTreeMap, BTreeSet},
    process::Command,
};

use heck::{ToPascalCase, ToSnakeCase};
use serde_json::{json, Map, Value};
use vcommon::{
    drv::Fail,
    ev::{hash_of, load_known, truncate, Ctx, Known, Report, Stats, Violation},
    idl::{render, Body, Fld, Iface, Layout, Member, Ty, Var},
};

use crate::c12::{build_corpus, restore_stub, target_dir, write_corpus, Rng};

pub const RULE: &str = "corpus = K generated interfaces (quick 90, thorough 400): 0..3 custom types \
(structs with fields over every type constructor to depth 2, enums), 1..4 methods with 0..3 inputs \
and outputs, 0..3 errors; non-recursive, names collision-free after snake / Pascal conversion, \
drawn from pools that contain acronyms (GetURL), digits (Get2FA), camelCase / snake_case / kebab \
spellings and Rust keywords (type, self, move, match, try). plus systematic interfaces (every wrapper shape over every base type as the only input, only output and only field; every Rust keyword as field / input / output / error parameter / enum value and, capitalised, as method name). Each interface text is parsed by zlink, \
turned into a Rust module by zlink_codegen::generate_interface, compiled with a harness-written \
driver and run against a scripted socket. Oracle: the module compiles; for every method the frame \
sent equals {method: '<interface>.<IDL name>', parameters: {IDL parameter names: JSON of the \
declared shape}} as JSON; a scripted reply with the IDL output names decodes and re-encodes to the \
same JSON; each IDL error sent as {error: '<interface>.<IDL name>', parameters: ..} comes back as \
the method's error and re-encodes to the same JSON; every custom type and enum value spelled as in \
the IDL decodes and re-encodes identically. String values in scripted replies are escape-free \
(borrowed output fields cannot hold escaped strings - a value-level limitation outside this \
property). Non-trivial = an interface with a name that is not a fixed point of snake -> Pascal \
conversion, a keyword, or a nested array / map / optional; distinct by hash of the IDL text.";

const SIG_ERRNAME: &str = "error-name-not-heck-fixpoint";

// ---------------------------------------------------------------------------------------------
// IDL generation

const TYPE_NAMES: &[&str] = &["Info", "Item", "URLInfo", "IPAddr", "Point2D", "State", "Mode", "HTTPReply", "UserRecord", "Kind"];
const METHOD_NAMES: &[&str] = &["Get", "GetURL", "Get2FA", "ListAll", "Move", "Type", "Ping", "SetValue", "DoIt", "Try", "GetInfo", "X", "Loop", "ReloadHTTPConfig", "Sha256sum", "Get2fa", "Ipv4addr", "Md5Sum", "GetX509cert", "V2", "Utf8Decode"];
const ERROR_NAMES: &[&str] = &["NotFound", "NotOK", "Failed", "IOError", "Bad2", "PermissionDenied", "E", "TooManyURLs"];
const FIELD_NAMES: &[&str] = &["name", "value", "userId", "user_id", "type", "self", "URL", "x2", "fooBar", "match", "id", "items", "async", "try", "is_ok", "super", "box", "count", "a_b_c", "fn", "sha_256", "utf_8", "arg_0", "x_2", "a1b2", "url", "foo_bar", "HTTPCode", "http_code", "isOk",
    // names the proxy / derive expansions are likely to use for their own locals
    "method", "parameters", "params", "call", "reply", "result", "conn", "connection", "stream", "chain", "error", "out", "args", "this", "request", "item", "more", "oneway"];
const VARIANT_NAMES: &[&str] = &["one", "two", "camelCase", "IPv6", "snake_case", "UPPER", "a1", "off", "on", "type", "self", "tls_1_3", "sha_256", "v2_beta", "x_y", "ipv6", "rc_1a", "level_1", "a_1b", "HTTP2", "utf8"];
/// IDL spellings that become the same Rust identifier: different members of one interface may use
/// different spellings, and each must keep its own on the wire.
const TWINS: &[(&str, &str)] = &[("userId", "user_id"), ("URL", "url"), ("fooBar", "foo_bar"), ("isOk", "is_ok"), ("HTTPCode", "http_code"), ("x2", "x_2")];
const LAST_SEGMENTS: &[&str] = &["Svc", "svc", "my-svc", "svc2", "a1", "Manager", "IO", "v1beta", "2fa", "x-1"];

fn is_fixpoint_name(kind: u8, name: &str) -> bool {
    match kind {
        // method / type / error names: Pascal(snake(name)) == name with the proxy macro's conversion
        0 => {
            let snake = name.to_snake_case();
            let back: String = snake
                .split('_')
                .map(|w| {
                    let mut c = w.chars();
                    c.next().map(|f| f.to_uppercase().collect::<String>() + &c.as_str().to_lowercase()).unwrap_or_default()
                })
                .collect();
            back == name
        }
        _ => name.to_snake_case() == name,
    }
}

fn pick_unique(rng: &mut Rng, pool: &[&str], used: &mut BTreeSet<String>, key: impl Fn(&str) -> String) -> Option<String> {
    for _ in 0..40 {
        let c = *rng.pick(pool);
        if used.insert(key(c)) {
            return Some(c.to_string());
        }
    }
    None
}

fn gen_ty(rng: &mut Rng, depth: u32, customs: &[String]) -> Ty {
    // base types: primitives, custom types (weighted up when there are any), inline struct / enum
    fn base(rng: &mut Rng, customs: &[String]) -> Ty {
        match rng.below(14) {
            0 => Ty::Bool,
            1 | 2 => Ty::Int,
            3 => Ty::Float,
            4 | 5 => Ty::Str,
            6 => Ty::Object,
            7..=9 if !customs.is_empty() => Ty::Custom(rng.pick(customs).clone()),
            10 | 11 => {
                let mut used = BTreeSet::new();
                let n = 1 + rng.below(3);
                let mut v = Vec::new();
                for _ in 0..n {
                    if let Some(name) = pick_unique(rng, VARIANT_NAMES, &mut used, |s| s.to_pascal_case()) {
                        v.push(Var { name, comments: vec![] });
                    }
                }
                Ty::Enum(v)
            }
            12 => {
                let mut used = BTreeSet::new();
                let n = 1 + rng.below(2);
                let mut f = Vec::new();
                for _ in 0..n {
                    if let Some(name) = pick_unique(rng, FIELD_NAMES, &mut used, |s| s.to_snake_case()) {
                        let ty = match rng.below(4) {
                            0 => Ty::Int,
                            1 => Ty::Str,
                            2 => Ty::Bool,
                            _ => Ty::Float,
                        };
                        f.push(Fld { name, ty, comments: vec![] });
                    }
                }
                Ty::Struct(f)
            }
            _ => Ty::Str,
        }
    }
    if depth == 0 {
        return base(rng, customs);
    }
    match rng.below(10) {
        0..=3 => base(rng, customs),
        4 | 5 => {
            let inner = gen_ty(rng, depth - 1, customs);
            if matches!(inner, Ty::Opt(_)) {
                inner
            } else {
                Ty::Opt(Box::new(inner))
            }
        }
        6 | 7 => Ty::Arr(Box::new(gen_ty(rng, depth - 1, customs))),
        8 => Ty::Map(Box::new(gen_ty(rng, depth - 1, customs))),
        _ => base(rng, customs),
    }
}

fn gen_fields(rng: &mut Rng, max: usize, customs: &[String]) -> Vec<Fld> {
    gen_fields_with(rng, max, customs, None)
}

/// `forced`: a field name that must be among the fields (one spelling of a twin pair).
fn gen_fields_with(rng: &mut Rng, max: usize, customs: &[String], forced: Option<&str>) -> Vec<Fld> {
    let n = rng.below(max + 1);
    let mut used = BTreeSet::new();
    let mut out = Vec::new();
    if let Some(name) = forced {
        used.insert(name.to_snake_case());
        let ty = match rng.below(3) {
            0 => Ty::Int,
            1 => Ty::Str,
            _ => Ty::Opt(Box::new(Ty::Int)),
        };
        out.push(Fld { name: name.to_string(), ty, comments: vec![] });
    }
    for _ in 0..n {
        if let Some(name) = pick_unique(rng, FIELD_NAMES, &mut used, |s| s.to_snake_case()) {
            let depth = if rng.chance(20) { 3 } else { 2 };
            out.push(Fld { name, ty: gen_ty(rng, depth, customs), comments: if rng.chance(15) { vec!["a field".into()] } else { vec![] } });
        }
    }
    out
}

pub fn gen_iface(idx: usize, rng: &mut Rng) -> Iface {
    let last = *rng.pick(LAST_SEGMENTS);
    let name = format!("org.gen.t{idx}.{last}");
    let mut members = Vec::new();
    let mut type_names = BTreeSet::new();
    // the trait and its error enum take these names
    let trait_name = last.to_pascal_case();
    type_names.insert(trait_name.clone());
    type_names.insert(format!("{trait_name}Error"));
    let mut customs: Vec<String> = Vec::new();
    // one interface in two uses both spellings of a twin pair, alternating between its members
    let twin: Option<(&str, &str)> = if rng.chance(50) { Some(*rng.pick(TWINS)) } else { None };
    let mut twin_turn = rng.below(2);
    let mut next_twin = |rng: &mut Rng| -> Option<&'static str> {
        let (a, b) = twin?;
        if !rng.chance(70) {
            return None;
        }
        twin_turn += 1;
        Some(if twin_turn % 2 == 0 { a } else { b })
    };
    for _ in 0..rng.below(4) {
        let Some(tn) = pick_unique(rng, TYPE_NAMES, &mut type_names, |s| s.to_pascal_case()) else { continue };
        if rng.chance(35) {
            let mut used = BTreeSet::new();
            let mut v = Vec::new();
            for _ in 0..1 + rng.below(4) {
                if let Some(n) = pick_unique(rng, VARIANT_NAMES, &mut used, |s| s.to_pascal_case()) {
                    v.push(Var { name: n, comments: vec![] });
                }
            }
            members.push(Member::Type { name: tn.clone(), body: Body::Enum(v), comments: vec![] });
        } else {
            let t = next_twin(rng);
            let f = gen_fields_with(rng, 4, &customs, t);
            members.push(Member::Type { name: tn.clone(), body: Body::Struct(f), comments: if rng.chance(20) { vec!["a type".into()] } else { vec![] } });
        }
        customs.push(tn);
    }
    let mut method_names = BTreeSet::new();
    for _ in 0..1 + rng.below(4) {
        let Some(mn) = pick_unique(rng, METHOD_NAMES, &mut method_names, |s| s.to_snake_case()) else { continue };
        // the output struct `<Pascal>Output` must not collide with a type
        if !type_names.insert(format!("{}Output", mn.to_pascal_case())) {
            continue;
        }
        let t = next_twin(rng);
        let inputs = gen_fields_with(rng, 3, &customs, t);
        let t = next_twin(rng);
        let outputs = gen_fields_with(rng, 3, &customs, t);
        members.push(Member::Method { name: mn, inputs, outputs, comments: if rng.chance(20) { vec!["a method".into()] } else { vec![] } });
    }
    let mut error_names = BTreeSet::new();
    for _ in 0..rng.below(4) {
        let Some(en) = pick_unique(rng, ERROR_NAMES, &mut error_names, |s| s.to_pascal_case()) else { continue };
        let t = next_twin(rng);
        let mut fields = gen_fields_with(rng, 2, &customs, t);
        // error fields are owned (String etc.): fine for any type
        for f in &mut fields {
            f.comments.clear();
        }
        members.push(Member::Error { name: en, fields, comments: vec![] });
    }
    Iface { name, members, comments: vec![] }
}

/// Systematic interfaces: every wrapper shape (none, ?, [], [string], ?[], [][], [string][], []?,
/// [][string]) over every base type (string, int, object, inline enum, inline struct, custom
/// struct, custom enum with non-snake values) as the *only* input of a method, the *only* output
/// of a method, and the only field of a custom type - shapes whose handling (borrowing, lifetimes,
/// renames) can depend on nothing else being in the same struct.
pub fn systematic_ifaces(first_idx: usize) -> Vec<(usize, Iface)> {
    let bases: Vec<(&str, Ty)> = vec![
        ("Str", Ty::Str),
        ("Int", Ty::Int),
        ("Obj", Ty::Object),
        ("Enum", Ty::Enum(vec![Var { name: "ro".into(), comments: vec![] }, Var { name: "readWrite".into(), comments: vec![] }])),
        ("Struct", Ty::Struct(vec![Fld { name: "type".into(), ty: Ty::Str, comments: vec![] }, Fld { name: "maxLen".into(), ty: Ty::Int, comments: vec![] }])),
        ("Custom", Ty::Custom("URLEntry".into())),
        ("CustomEnum", Ty::Custom("IPKind".into())),
    ];
    let wrappers: Vec<(&str, fn(Ty) -> Ty)> = vec![
        ("Plain", |t| t),
        ("Opt", |t| Ty::Opt(Box::new(t))),
        ("Arr", |t| Ty::Arr(Box::new(t))),
        ("Map", |t| Ty::Map(Box::new(t))),
        ("OptArr", |t| Ty::Opt(Box::new(Ty::Arr(Box::new(t))))),
        ("ArrArr", |t| Ty::Arr(Box::new(Ty::Arr(Box::new(t))))),
        ("MapArr", |t| Ty::Map(Box::new(Ty::Arr(Box::new(t))))),
        ("ArrOpt", |t| Ty::Arr(Box::new(Ty::Opt(Box::new(t))))),
        ("ArrMap", |t| Ty::Arr(Box::new(Ty::Map(Box::new(t))))),
        // three levels
        ("ArrArrArr", |t| Ty::Arr(Box::new(Ty::Arr(Box::new(Ty::Arr(Box::new(t))))))),
        ("ArrArrOpt", |t| Ty::Arr(Box::new(Ty::Arr(Box::new(Ty::Opt(Box::new(t))))))),
        ("ArrArrMap", |t| Ty::Arr(Box::new(Ty::Arr(Box::new(Ty::Map(Box::new(t))))))),
        ("MapArrMap", |t| Ty::Map(Box::new(Ty::Arr(Box::new(Ty::Map(Box::new(t))))))),
        ("OptMapArr", |t| Ty::Opt(Box::new(Ty::Map(Box::new(Ty::Arr(Box::new(t))))))),
    ];
    let mut out = Vec::new();
    for (wi, (wname, w)) in wrappers.iter().enumerate() {
        let mut members = vec![
            Member::Type {
                name: "URLEntry".into(),
                body: Body::Struct(vec![Fld { name: "URL".into(), ty: Ty::Str, comments: vec![] }, Fld { name: "self".into(), ty: Ty::Opt(Box::new(Ty::Int)), comments: vec![] }]),
                comments: vec![],
            },
            Member::Type { name: "IPKind".into(), body: Body::Enum(vec![Var { name: "IPv4".into(), comments: vec![] }, Var { name: "v6_only".into(), comments: vec![] }]), comments: vec![] },
        ];
        for (bname, b) in &bases {
            let t = w(b.clone());
            members.push(Member::Type { name: format!("Holder{bname}"), body: Body::Struct(vec![Fld { name: "theValue".into(), ty: t.clone(), comments: vec![] }]), comments: vec![] });
            members.push(Member::Method { name: format!("In{bname}"), inputs: vec![Fld { name: "theValue".into(), ty: t.clone(), comments: vec![] }], outputs: vec![], comments: vec![] });
            members.push(Member::Method { name: format!("Out{bname}"), inputs: vec![], outputs: vec![Fld { name: "theValue".into(), ty: t.clone(), comments: vec![] }], comments: vec![] });
        }
        members.push(Member::Error { name: "Failed".into(), fields: vec![Fld { name: "theValue".into(), ty: w(Ty::Str), comments: vec![] }], comments: vec![] });
        out.push((first_idx + wi, Iface { name: format!("org.gen.sys.{wname}"), members, comments: vec![] }));
    }
    // Every Rust keyword (strict, reserved, weak) as a field of a custom type, as a method input and
    // output, as an error parameter and as an enum value, nine per interface; and, capitalised, as
    // method names (`Continue` -> `fn r#continue`).
    let base = first_idx + out.len();
    for (ki, chunk) in KEYWORDS.chunks(9).enumerate() {
        let flds = |ty: fn(usize) -> Ty| -> Vec<Fld> { chunk.iter().enumerate().map(|(i, k)| Fld { name: k.to_string(), ty: ty(i), comments: vec![] }).collect() };
        let mut members = vec![
            Member::Type { name: "Holder".into(), body: Body::Struct(flds(|i| if i % 2 == 0 { Ty::Str } else { Ty::Opt(Box::new(Ty::Int)) })), comments: vec![] },
            Member::Type { name: "Choice".into(), body: Body::Enum(chunk.iter().map(|k| Var { name: k.to_string(), comments: vec![] }).collect()), comments: vec![] },
            Member::Method { name: "Take".into(), inputs: flds(|i| if i % 3 == 0 { Ty::Int } else { Ty::Str }), outputs: vec![], comments: vec![] },
            Member::Method { name: "Give".into(), inputs: vec![], outputs: flds(|i| if i % 3 == 1 { Ty::Int } else { Ty::Str }), comments: vec![] },
            Member::Method { name: "Pick".into(), inputs: vec![Fld { name: "choice".into(), ty: Ty::Custom("Choice".into()), comments: vec![] }], outputs: vec![Fld { name: "holder".into(), ty: Ty::Custom("Holder".into()), comments: vec![] }], comments: vec![] },
            Member::Error { name: "Failed".into(), fields: flds(|_| Ty::Str), comments: vec![] },
        ];
        for k in chunk {
            let mn = k.to_pascal_case();
            if !["Self", "Take", "Give", "Pick"].contains(&mn.as_str()) && !members.iter().any(|m| matches!(m, Member::Method { name, .. } if *name == mn)) {
                members.push(Member::Method { name: mn, inputs: vec![], outputs: vec![], comments: vec![] });
            }
        }
        out.push((base + ki, Iface { name: format!("org.gen.kw.k{ki}"), members, comments: vec![] }));
    }
    out
}

// ---------------------------------------------------------------------------------------------
// values of IDL types: JSON and Rust literal (parameter position)

struct Env<'a> {
    iface: &'a Iface,
}

impl Env<'_> {
    fn custom(&self, name: &str) -> Option<&Body> {
        self.iface.members.iter().find_map(|m| match m {
            Member::Type { name: n, body, .. } if n == name => Some(body),
            _ => None,
        })
    }
    /// A JSON value of the declared shape. `k` varies the choice.
    fn value(&self, t: &Ty, k: usize) -> Value {
        match t {
            Ty::Bool => json!(k % 2 == 0),
            Ty::Int => json!(40 + k as i64),
            Ty::Float => json!(1.5 + k as f64),
            Ty::Str => json!(format!("s{k}")),
            Ty::Object => json!({"any": [k, "thing"]}),
            Ty::Custom(n) => match self.custom(n) {
                Some(Body::Struct(f)) => self.object(f, k),
                Some(Body::Enum(v)) => json!(v[k % v.len()].name),
                None => Value::Null,
            },
            Ty::Opt(i) => {
                if k % 3 == 2 {
                    Value::Null
                } else {
                    self.value(i, k)
                }
            }
            Ty::Arr(i) => json!([self.value(i, k), self.value(i, k + 1)]),
            Ty::Map(i) => json!({"k1": self.value(i, k), "k2": self.value(i, k + 1)}),
            Ty::Struct(f) => self.object(f, k),
            Ty::Enum(v) => json!(v[k % v.len()].name),
        }
    }
    fn object(&self, f: &[Fld], k: usize) -> Value {
        let mut o = Map::new();
        for (i, fld) in f.iter().enumerate() {
            o.insert(fld.name.clone(), self.value(&fld.ty, k + i));
        }
        Value::Object(o)
    }
    /// Rust type name of a custom type as codegen spells it.
    fn rust_type_name(n: &str) -> String {
        n.to_pascal_case()
    }
    /// Literal for a value in *element* position of a parameter (owned element types).
    fn elem_lit(&self, t: &Ty, v: &Value) -> String {
        match t {
            Ty::Bool => v.to_string(),
            Ty::Int => format!("{}i64", v),
            Ty::Float => format!("{:?}f64", v.as_f64().unwrap()),
            Ty::Str | Ty::Enum(_) => format!("{}", v),
            Ty::Object | Ty::Struct(_) => format!("json!({v})"),
            Ty::Custom(n) => format!("from_json::<{}>(json!({v}))", Self::rust_type_name(n)),
            Ty::Opt(i) => {
                if v.is_null() {
                    "None".into()
                } else {
                    format!("Some({})", self.elem_lit(i, v))
                }
            }
            Ty::Arr(i) => format!("vec![{}]", v.as_array().unwrap().iter().map(|x| self.elem_lit(i, x)).collect::<Vec<_>>().join(", ")),
            Ty::Map(i) => format!(
                "HashMap::from([{}])",
                v.as_object().unwrap().iter().map(|(k, x)| format!("({:?}, {})", k, self.elem_lit(i, x))).collect::<Vec<_>>().join(", ")
            ),
        }
    }
    /// Literal for a value in parameter position.
    fn param_lit(&self, t: &Ty, v: &Value) -> String {
        match t {
            Ty::Bool | Ty::Int | Ty::Float | Ty::Str | Ty::Enum(_) => self.elem_lit(t, v),
            Ty::Object | Ty::Struct(_) => format!("&json!({v})"),
            Ty::Custom(_) => format!("&{}", self.elem_lit(t, v)),
            Ty::Opt(i) => {
                if v.is_null() {
                    "None".into()
                } else {
                    format!("Some({})", self.param_lit(i, v))
                }
            }
            Ty::Arr(i) => format!("&[{}]", v.as_array().unwrap().iter().map(|x| self.elem_lit(i, x)).collect::<Vec<_>>().join(", ")),
            Ty::Map(_) => format!("&{}", self.elem_lit(t, v)),
        }
    }
}

const KEYWORDS: &[&str] = &[
    "as", "async", "await", "break", "const", "continue", "crate", "dyn", "else", "enum", "extern", "false", "fn", "for", "if", "impl", "in", "let", "loop", "match", "mod", "move", "mut",
    "pub", "ref", "return", "self", "Self", "static", "struct", "super", "trait", "true", "type", "unsafe", "use", "where", "while", "abstract", "become", "box", "do", "final", "gen", "macro",
    "override", "priv", "try", "typeof", "unsized", "virtual", "yield",
];

/// The identifier under which the driver calls a generated proxy method.
fn method_ident(idl_name: &str) -> String {
    let s = idl_name.to_snake_case();
    if ["self", "super", "crate"].contains(&s.as_str()) {
        format!("{s}_")
    } else if KEYWORDS.contains(&s.as_str()) {
        format!("r#{s}")
    } else {
        s
    }
}

struct Unit {
    idx: usize,
    iface: Iface,
    text: String,
    module: String,
    /// key -> (kind, expected)
    expect: BTreeMap<String, (String, Value)>,
    interesting: bool,
    has_nonfix_error: bool,
}

fn gen_unit(idx: usize, rng: &mut Rng) -> Result<Unit, String> {
    build_unit(idx, gen_iface(idx, rng))
}

/// Everything that is derived from the IDL tree: text, generated module + driver, expectations.
fn build_unit(idx: usize, iface: Iface) -> Result<Unit, String> {
    // one interface in three carries comments of its own in front of the `interface` line
    let mut iface = iface;
    if idx % 3 == 1 && iface.comments.is_empty() {
        iface.comments = vec!["The interface under test.".into(), "Second line; with (punctuation): #1".into()];
    }
    let text = render(&iface, &Layout(vec![]));
    let parsed = zlink_core::idl::Interface::try_from(text.as_str()).map_err(|e| format!("generated IDL does not parse: {e}\n{text}"))?;
    // one interface in four goes through the multi-interface entry point (what the command line
    // tool and build scripts use), together with a small commented companion whose item names
    // cannot collide with anything generated here
    let code = if idx % 4 == 2 {
        let companion_text = format!("# A companion interface.\n# It shares the generated file.\ninterface org.gen.pair{idx}.ZzPair\n\n# ping\nmethod ZzPing(zz_token: string) -> (zz_ok: bool)\n");
        let companion = zlink_core::idl::Interface::try_from(companion_text.as_str()).map_err(|e| format!("companion IDL does not parse: {e}"))?;
        let both = if idx % 8 == 2 { [parsed.clone(), companion] } else { [companion, parsed.clone()] };
        zlink_codegen::generate_interfaces(&both).map_err(|e| format!("codegen (two interfaces) failed: {e}"))?
    } else {
        zlink_codegen::generate_interface(&parsed).map_err(|e| format!("codegen failed: {e}"))?
    };
    let env = Env { iface: &iface };
    let mut expect = BTreeMap::new();
    let mut driver = String::from("\n// ---- driver written by the verification harness ----\nuse crate::prelude::*;\n\npub fn run(out: &mut Vec<Record>) {\n");
    let errors: Vec<(&String, &Vec<Fld>)> = iface.members.iter().filter_map(|m| if let Member::Error { name, fields, .. } = m { Some((name, fields)) } else { None }).collect();
    let mut interesting = false;
    let mut first_method = true;
    for m in &iface.members {
        match m {
            Member::Type { name, body, .. } => {
                interesting |= !is_fixpoint_name(0, name);
                let n_vals = match body {
                    Body::Enum(v) => v.len(),
                    _ => 3,
                };
                for k in 0..n_vals {
                    let v = env.value(&Ty::Custom(name.clone()), k);
                    let key = format!("t{idx}.type.{name}.{k}");
                    driver.push_str(&format!("    out.push(Record {{ key: {key:?}.into(), frames: vec![], result: round::<{}>(json!({v})) }});\n", Env::rust_type_name(name)));
                    expect.insert(key, ("type".to_string(), json!({"ok": strip_nulls_none(&v)})));
                }
            }
            Member::Method { name, inputs, outputs, .. } => {
                interesting |= !is_fixpoint_name(0, name) || KEYWORDS.contains(&name.to_snake_case().as_str());
                interesting |= inputs.iter().chain(outputs).any(|f| !is_fixpoint_name(1, &f.name) || KEYWORDS.contains(&f.name.as_str()) || matches!(f.ty, Ty::Arr(_) | Ty::Map(_) | Ty::Opt(_)));
                for k in 0..2 {
                    let mut params = Map::new();
                    let mut args = Vec::new();
                    for (i, f) in inputs.iter().enumerate() {
                        let v = env.value(&f.ty, k + i);
                        args.push(env.param_lit(&f.ty, &v));
                        if !v.is_null() {
                            params.insert(f.name.clone(), v);
                        }
                    }
                    let mut call = Map::new();
                    call.insert("method".into(), json!(format!("{}.{name}", iface.name)));
                    if !inputs.is_empty() {
                        call.insert("parameters".into(), Value::Object(params));
                    }
                    // success reply
                    let out_v = env.object(outputs, k + 5);
                    let reply = if outputs.is_empty() { json!({}) } else { json!({"parameters": out_v}) };
                    let key = format!("t{idx}.method.{name}.{k}");
                    driver.push_str(&format!(
                        "    {{ let (mut conn, h) = new_conn(&[r#\"{reply}\"#]); let r = fmt_result(block(conn.{}({}))); out.push(Record {{ key: {key:?}.into(), frames: frames_of(&h), result: r }}); }}\n",
                        method_ident(name),
                        args.join(", ")
                    ));
                    let want_result = if outputs.is_empty() { json!({"ok": null}) } else { json!({"ok": strip_nulls_none(&out_v)}) };
                    expect.insert(key, ("method".to_string(), json!({"frames": [Value::Object(call.clone())], "result": want_result})));
                }
                if first_method {
                    first_method = false;
                    // every error through the first method
                    let args: Vec<String> = inputs.iter().enumerate().map(|(i, f)| env.param_lit(&f.ty, &env.value(&f.ty, i))).collect();
                    for (en, ef) in &errors {
                        let mut frame = Map::new();
                        frame.insert("error".into(), json!(format!("{}.{en}", iface.name)));
                        if !ef.is_empty() {
                            frame.insert("parameters".into(), env.object(ef, 1));
                        }
                        let frame = Value::Object(frame);
                        let key = format!("t{idx}.error.{en}");
                        driver.push_str(&format!(
                            "    {{ let (mut conn, h) = new_conn(&[r#\"{frame}\"#]); let r = fmt_result(block(conn.{}({}))); out.push(Record {{ key: {key:?}.into(), frames: vec![], result: r }}); }}\n",
                            method_ident(name),
                            args.join(", ")
                        ));
                        expect.insert(key, ("error".to_string(), json!({"err": strip_nulls_none(&frame)})));
                    }
                }
            }
            Member::Error { name, .. } => interesting |= !is_fixpoint_name(0, name),
        }
    }
    driver.push_str("}\n");
    let has_nonfix_error = errors.iter().any(|(n, _)| n.to_pascal_case() != **n);
    Ok(Unit { idx, iface, text, module: format!("{code}\n{driver}"), expect, interesting, has_nonfix_error })
}

/// Generated structs serialize `None` as null; expectations are compared modulo null members.
fn strip_nulls_none(v: &Value) -> Value {
    match v {
        Value::Object(o) => Value::Object(o.iter().filter(|(_, v)| !v.is_null()).map(|(k, v)| (k.clone(), strip_nulls_none(v))).collect()),
        Value::Array(a) => Value::Array(a.iter().map(strip_nulls_none).collect()),
        other => other.clone(),
    }
}

pub fn run(ctx: &Ctx) -> i32 {
    let n = ctx.tier.pick(90usize, 400);
    let mut rng = Rng::new(ctx.subseed("corpus15", 0));
    let mut stats = Stats::default();
    let mut viol: Vec<Violation> = Vec::new();
    let mut units = Vec::new();
    for i in 0..n {
        match gen_unit(i, &mut rng) {
            Ok(u) => units.push(u),
            Err(e) => viol.push(Violation { sig: "codegen-or-parse-failed".into(), lane: "generate".into(), case: json!({"kind": "generate", "error": e}), message: e }),
        }
    }
    for (idx, iface) in systematic_ifaces(n) {
        stats.class("systematic-interface");
        match build_unit(idx, iface) {
            Ok(u) => units.push(u),
            Err(e) => viol.push(Violation { sig: "codegen-or-parse-failed".into(), lane: "generate".into(), case: json!({"kind": "generate", "error": e}), message: e }),
        }
    }
    let sources: BTreeMap<usize, String> = units.iter().map(|u| (u.idx, u.module.clone())).collect();
    let mut skip = BTreeSet::new();
    let mut built = false;
    for round in 0..8 {
        write_corpus("corp15", &sources, &skip);
        let b = build_corpus("corp15");
        if b.ok {
            built = true;
            break;
        }
        if b.errors.is_empty() {
            eprintln!("C15: the corpus crate failed to build for a reason that is not in a generated module (round {round}):");
            for m in b.unmapped.iter().take(5) {
                eprintln!("  {m}");
            }
            restore_stub("corp15");
            return 2;
        }
        for (i, msg) in b.errors {
            skip.insert(i);
            stats.class("module-does-not-compile");
            let code = msg.split_whitespace().next().unwrap_or("").to_string();
            let words: Vec<String> = msg.chars().filter(|c| c.is_ascii_alphanumeric() || *c == ' ').collect::<String>().split_whitespace().skip(1).take(5).map(String::from).collect();
            let u = units.iter().find(|u| u.idx == i).unwrap();
            viol.push(Violation {
                sig: format!("does-not-compile:{code}:{}", words.join("-")),
                lane: "compile".into(),
                case: json!({"kind": "compile", "idx": i, "idl": u.text, "iface": u.iface, "error": msg}),
                message: format!("the code generated for this interface does not compile ({msg}):\n{}", u.text),
            });
        }
    }
    if !built {
        restore_stub("corp15");
        eprintln!("C15: corpus does not build; inconclusive");
        return 2;
    }
    let out = Command::new(target_dir().join("release").join("corp15")).output();
    restore_stub("corp15");
    let Ok(out) = out else { return 2 };
    if !out.status.success() {
        viol.push(Violation {
            sig: "corpus-run-crashed".into(),
            lane: "run".into(),
            case: json!({"stderr": truncate(&String::from_utf8_lossy(&out.stderr), 2000)}),
            message: format!("the corpus binary exited with {:?}: {}", out.status.code(), truncate(&String::from_utf8_lossy(&out.stderr), 400)),
        });
    }
    let mut records: BTreeMap<String, Value> = BTreeMap::new();
    for line in String::from_utf8_lossy(&out.stdout).lines() {
        if let Ok(v) = serde_json::from_str::<Value>(line) {
            if let Some(k) = v["key"].as_str() {
                records.insert(k.to_string(), v.clone());
            }
        }
    }
    let known: Vec<Known> = load_known("C15");
    let errname_known = known.iter().find(|k| k.sig == SIG_ERRNAME).cloned();
    let mut errname_witness: Option<String> = None;
    let mut by_sig: BTreeMap<String, usize> = BTreeMap::new();
    for u in &units {
        if skip.contains(&u.idx) {
            continue;
        }
        stats.class("interfaces-compiled");
        if u.interesting {
            stats.nontrivial_hash(hash_of(&u.text));
        }
        for (key, (kind, want)) in &u.expect {
            stats.eval();
            stats.class(&format!("checked:{kind}"));
            let Some(rec) = records.get(key) else {
                viol.push(Violation { sig: "record-missing".into(), lane: "run".into(), case: json!({"kind": "record", "idx": u.idx, "idl": u.text, "iface": u.iface, "key": key}), message: format!("no record {key}") });
                continue;
            };
            let got_result = strip_nulls_none(&rec["result"]);
            let (ok, what) = match kind.as_str() {
                "method" => {
                    let frames_ok = rec["frames"] == want["frames"];
                    let res_ok = got_result == strip_nulls_none(&want["result"]);
                    (frames_ok && res_ok, if !frames_ok { "call-frame" } else { "reply-decoding" })
                }
                "error" => (got_result == strip_nulls_none(want), "error-mapping"),
                _ => (got_result == strip_nulls_none(want), "custom-type-value"),
            };
            if ok {
                continue;
            }
            // known finding: error names that PascalCase conversion changes
            if kind == "error" {
                let en = key.rsplit('.').next().unwrap_or("");
                if en.to_pascal_case() != en {
                    stats.excluded(SIG_ERRNAME);
                    errname_witness.get_or_insert(format!("IDL error `{en}` (generated as variant `{}`): a reply {} is not mapped to the error; got {}", en.to_pascal_case(), want["err"], rec["result"]));
                    continue;
                }
            }
            let sig = format!("generated-code-differs:{what}");
            let c = by_sig.entry(sig.clone()).or_insert(0);
            *c += 1;
            if *c <= 3 {
                viol.push(Violation {
                    sig,
                    lane: "wire".into(),
                    case: json!({"kind": "record", "idx": u.idx, "idl": u.text, "iface": u.iface, "key": key, "check": kind}),
                    message: format!("{key}: expected {want}, got frames {} result {}\n{}", rec["frames"], rec["result"], u.text),
                });
            }
        }
    }
    let mut hits = Vec::new();
    if let Some(w) = errname_witness {
        match errname_known {
            Some(k) => hits.push((k, w)),
            None => viol.push(Violation { sig: SIG_ERRNAME.into(), lane: "wire".into(), case: json!({"kind": "witness"}), message: w }),
        }
    }
    for u in units.iter().take(2) {
        stats.samples.push(json!({"idl": truncate(&u.text, 900)}));
    }
    let _ = units.iter().any(|u| u.has_nonfix_error || u.iface.members.is_empty());
    Report::new(RULE)
        .assume("the driver calls a generated method under heck's snake_case of the IDL name (r# for keywords, a trailing underscore for self / super / crate) and names custom types by heck's PascalCase: the Rust identifiers are not part of the property, the JSON spellings are")
        .assume("expected JSON is compared modulo null members (generated structs encode an absent optional as null)")
        .extra("interfaces", json!(n))
        .extra("interfaces_not_compiling", json!(skip.len()))
        .finish(ctx, &stats, &viol, &hits)
}

pub fn replay(_lane: &str, case: Value) -> Result<(), Fail> {
    if case["kind"] == "witness" || case["kind"] == "generate" {
        return Err(Fail::new("replay-needs-full-run", "re-run ./check C15 with the recorded seed"));
    }
    // The case carries the IDL tree: code generation, driver and expectations are redone from it.
    let iface: Iface = serde_json::from_value(case["iface"].clone()).map_err(|e| Fail::new("bad-replay", e.to_string()))?;
    let idx = case["idx"].as_u64().unwrap_or(0) as usize;
    let u = build_unit(idx, iface).map_err(|e| Fail::new("codegen-or-parse-failed", e))?;
    println!("{}", u.text);
    let mut modules = BTreeMap::new();
    modules.insert(idx, u.module.clone());
    write_corpus("corp15", &modules, &BTreeSet::new());
    let b = build_corpus("corp15");
    if !b.ok {
        restore_stub("corp15");
        let msg = b.errors.values().next().cloned().or(b.unmapped.first().cloned()).unwrap_or_default();
        return Err(Fail::new("does-not-compile", format!("the generated module does not compile: {msg}")));
    }
    let out = Command::new(target_dir().join("release").join("corp15")).output();
    restore_stub("corp15");
    let out = out.map_err(|e| Fail::new("infra", e.to_string()))?;
    if case["kind"] == "compile" {
        println!("(the generated module compiles)");
        return Ok(());
    }
    let key = case["key"].as_str().unwrap_or("");
    let rec = String::from_utf8_lossy(&out.stdout)
        .lines()
        .filter_map(|l| serde_json::from_str::<Value>(l).ok())
        .find(|v| v["key"] == key)
        .ok_or_else(|| Fail::new("record-missing", format!("no record {key}")))?;
    println!("record: {rec}");
    let (kind, want) = u.expect.get(key).ok_or_else(|| Fail::new("bad-replay", "unknown key"))?;
    let got_result = strip_nulls_none(&rec["result"]);
    let ok = match kind.as_str() {
        "method" => rec["frames"] == want["frames"] && got_result == strip_nulls_none(&want["result"]),
        _ => got_result == strip_nulls_none(want),
    };
    if ok {
        Ok(())
    } else {
        Err(Fail::new("generated-code-differs", format!("expected {want}, got {rec}")))
    }
}
