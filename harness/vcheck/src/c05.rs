//! C05 — call, reply and error envelopes follow the Varlink schema and round-trip.

use std::{borrow::Cow, fmt::Debug};

use proptest::prelude::*;
use serde::{Deserialize, Serialize};
use serde_json::{json, Map, Value};
use vcommon::{
    drv::{par_enumerate, run_shards, CaseResult, Fail},
    ev::{hash_of, Ctx, Report, Stats},
    exec::run_until_ready,
    rx::{classify_reply, Outcome},
    sim::{ReadEv, SimSocket},
    types::*,
};
use zlink_core::{varlink_service, Call, Connection, Reply};

pub const RULE: &str = "A generated corpus of error enums (0..5 variants; unit and struct variants of 1..4 fields over \
integers, bool, float, String, &str, Option, Vec, map and a nested struct; #[zlink(rename)] on fields, raw-identifier fields, \
field names such as `error` / `parameters` / `method`; interface names with dashes and digits) is compiled with the \
ReplyError derive and, for two values per variant: encoded by serde_json and by zlink's send_error, decoded from 4..8 \
spellings (either member order, fields reversed, None as null or omitted, unknown members inside `parameters` and at top \
level, absent / null / {} parameters for field-less variants) and received through receive_reply. Then: \
lanes: (call-decode) call objects built from 9 method templates (adjacently \
tagged enum with unit / struct variants and borrowed / owned fields, strict struct, a catch-all \
type that records every member it is shown, the library's org.varlink.service method type with \
parameters absent / null / {} for GetInfo) x all 8 flag sets x explicit `false` for unset flags x \
0..2 unknown members (fixed names; in a sampled lane names generated from ASCII and 2-4-byte characters, 1..60 bytes, raw or \\u-escaped) x every permutation of the members (every 7th permutation for 7 members), \
decoded from text as Call<M>: flags as written (absent = false), the method value equal to the \
reference decode of M from the same object without the flag members; (call-encode) Call values x \
8 flag sets through serde_json and through zlink's own serializer on the send path: the method \
type's own members plus exactly the set flags; round trip; (errors) values of 4 derived ReplyError \
enums and the standard service errors: encoding equals a hand-written expectation ({error: \
'<interface>.<Variant>'} + parameters under wire names exactly when the variant has fields), \
decoding from every member order of the envelope and of the parameters, round trip, and for \
field-less variants parameters absent / null / {} - directly and through receive_reply; (reply) \
Reply<T> with parameters / continues present or absent: only present members are encoded, decoded \
from both orders, round trip; (proxy-unit) unit-output proxy methods answered with parameters \
absent / null / {} (+ continues), and a streaming (`more`) unit-output proxy method whose 1..4 items use any sequence of the three spellings. Non-trivial = a permutation in which a flag precedes `method` or \
`parameters` precedes the tag, or a {} / null spelling of 'no parameters'; distinct by hash of \
(lane, text).";

// ---------------------------------------------------------------------------------------------
// helpers

fn permutations(n: usize) -> Vec<Vec<usize>> {
    fn rec(cur: &mut Vec<usize>, used: &mut Vec<bool>, out: &mut Vec<Vec<usize>>) {
        if cur.len() == used.len() {
            out.push(cur.clone());
            return;
        }
        for i in 0..used.len() {
            if !used[i] {
                used[i] = true;
                cur.push(i);
                rec(cur, used, out);
                cur.pop();
                used[i] = false;
            }
        }
    }
    let mut out = Vec::new();
    rec(&mut Vec::new(), &mut vec![false; n], &mut out);
    out
}

fn object_text(members: &[(String, String)], order: &[usize]) -> String {
    let parts: Vec<String> = order.iter().map(|&i| format!("{}:{}", serde_json::to_string(&members[i].0).unwrap(), members[i].1)).collect();
    format!("{{{}}}", parts.join(","))
}

// ---------------------------------------------------------------------------------------------
// call-decode lane

#[derive(Debug, Clone, Copy, PartialEq, Eq, Hash, Serialize, Deserialize)]
pub enum Tmpl {
    EnumEcho,
    EnumPing,
    EnumPingNull,
    EnumPut,
    Strict,
    SeenAll,
    SvcGetInfo,
    SvcGetInfoNull,
    SvcGetInfoEmpty,
    SvcGetDesc,
    /// method types that read the object generically (`next_entry`): a JSON value, serde_json's
    /// map, a BTreeMap, and a type that ignores everything
    AnyValue,
    AnyMap,
    AnyBTree,
    Ignored,
}

pub const TMPLS: [Tmpl; 14] = [
    Tmpl::AnyValue,
    Tmpl::AnyMap,
    Tmpl::AnyBTree,
    Tmpl::Ignored,
    Tmpl::EnumEcho,
    Tmpl::EnumPing,
    Tmpl::EnumPingNull,
    Tmpl::EnumPut,
    Tmpl::Strict,
    Tmpl::SeenAll,
    Tmpl::SvcGetInfo,
    Tmpl::SvcGetInfoNull,
    Tmpl::SvcGetInfoEmpty,
    Tmpl::SvcGetDesc,
];

impl Tmpl {
    /// (method name, parameters text or None)
    fn members(self) -> (&'static str, Option<&'static str>) {
        match self {
            Tmpl::EnumEcho => ("org.example.Echo", Some(r#"{"s":"hello","n":-5}"#)),
            Tmpl::EnumPing => ("org.example.Ping", None),
            Tmpl::EnumPingNull => ("org.example.Ping", Some("null")),
            Tmpl::EnumPut => ("org.example.Put", Some(r#"{"tag":"t","val":[1,2],"key":"ké"}"#)),
            Tmpl::Strict => ("org.example.Whatever", Some(r#"{"a":[1,{"b":null}]}"#)),
            Tmpl::SeenAll => ("org.example.Seen", Some(r#"{"x":1}"#)),
            Tmpl::SvcGetInfo => ("org.varlink.service.GetInfo", None),
            Tmpl::SvcGetInfoNull => ("org.varlink.service.GetInfo", Some("null")),
            Tmpl::SvcGetInfoEmpty => ("org.varlink.service.GetInfo", Some("{}")),
            Tmpl::SvcGetDesc => ("org.varlink.service.GetInterfaceDescription", Some(r#"{"interface":"org.example.x"}"#)),
            Tmpl::AnyValue | Tmpl::AnyMap | Tmpl::AnyBTree | Tmpl::Ignored => ("org.example.Any", Some(r#"{"k":[1,{"more":true}],"oneway":"not a flag here"}"#)),
        }
    }
}

#[derive(Debug, Clone, Serialize, Deserialize)]
pub struct CallText {
    pub tmpl: Tmpl,
    /// bit i set: flag i (oneway, more, upgrade) is true
    pub flags: u8,
    /// unset flags are written as `false` (true) or omitted (false)
    pub explicit_false: bool,
    pub unknown: u8,
    pub order: Vec<usize>,
    /// 0: the unknown members are called `x-unknown<i>`; otherwise the seed of generated member
    /// names of about `ulen` bytes mixing ASCII with 2-, 3- and 4-byte characters
    #[serde(default)]
    pub uname: u16,
    #[serde(default)]
    pub ulen: u8,
}

const FLAG_NAMES: [&str; 3] = ["oneway", "more", "upgrade"];

impl CallText {
    fn members(&self) -> Vec<(String, String)> {
        let (m, p) = self.tmpl.members();
        let mut v = vec![("method".to_string(), format!("\"{m}\""))];
        if let Some(p) = p {
            v.push(("parameters".to_string(), p.to_string()));
        }
        for (i, f) in FLAG_NAMES.iter().enumerate() {
            if self.flags & (1 << i) != 0 {
                v.push((f.to_string(), "true".into()));
            } else if self.explicit_false {
                v.push((f.to_string(), "false".into()));
            }
        }
        for i in 0..self.unknown {
            v.push((self.unknown_name(i), if i == 0 { "[1,2]".into() } else { "\"u\"".into() }));
        }
        v
    }
    pub fn unknown_name(&self, i: u8) -> String {
        if self.uname == 0 {
            return format!("x-unknown{i}");
        }
        let bytes = vcommon::srv::soup_content(self.uname.wrapping_add(i as u16 * 7919), self.ulen.max(1) as usize, false);
        let s = String::from_utf8(bytes).unwrap_or_default();
        if s.is_empty() { format!("x-unknown{i}") } else { s }
    }
    /// Both texts with every member re-spelled the same way (escapes / white space inside members).
    fn spelled(&self, choices: &[u8], strip: bool) -> String {
        let members = self.members();
        let parts: Vec<String> = self
            .order
            .iter()
            .filter(|&&i| !(strip && FLAG_NAMES.contains(&members[i].0.as_str())))
            .map(|&i| {
                let rot: Vec<u8> = if choices.is_empty() { vec![] } else { choices.iter().cycle().skip(i * 3).take(choices.len()).copied().collect() };
                let m = format!("{}:{}", serde_json::to_string(&members[i].0).unwrap(), members[i].1);
                crate::c04::respell(&m, &rot)
            })
            .collect();
        format!("{{{}}}", parts.join(","))
    }
    pub fn text_spelled(&self, choices: &[u8]) -> String {
        self.spelled(choices, false)
    }
    pub fn stripped_spelled(&self, choices: &[u8]) -> String {
        self.spelled(choices, true)
    }
    pub fn n_members(&self) -> usize {
        self.members().len()
    }
    pub fn text(&self) -> String {
        object_text(&self.members(), &self.order)
    }
    /// The same object without the flag members (same relative order).
    pub fn stripped(&self) -> String {
        let members = self.members();
        let order: Vec<usize> = self.order.iter().copied().filter(|&i| !FLAG_NAMES.contains(&members[i].0.as_str())).collect();
        object_text(&members, &order)
    }
}

fn decode_call<'a, M: Deserialize<'a> + Debug>(text: &'a str, stripped: &'a str, flags: u8) -> Result<(), String> {
    let got = serde_json::from_str::<Call<M>>(text);
    let reference = serde_json::from_str::<M>(stripped);
    match (got, reference) {
        (Ok(c), Ok(m)) => {
            let gf = (c.oneway() as u8) | ((c.more() as u8) << 1) | ((c.upgrade() as u8) << 2);
            if gf != flags {
                return Err(format!("flags decoded as {gf:03b}, written {flags:03b}"));
            }
            let (a, b) = (format!("{:?}", c.method()), format!("{m:?}"));
            if a != b {
                return Err(format!("method decoded as {a}, the method type alone decodes the same members as {b}"));
            }
            Ok(())
        }
        (Err(_), Err(_)) => Ok(()),
        (Ok(c), Err(e)) => Err(format!("Call decoded ({:?}) although the method type rejects the members it should be shown: {e}", c.method())),
        (Err(e), Ok(m)) => Err(format!("Call rejected ({e}) although the method type accepts the remaining members as {m:?}")),
    }
}

pub fn check_call_text(ct: &CallText, stats: &mut Stats) -> CaseResult {
    check_call_text_spelled(ct, &[], stats)
}

/// `choices` re-spells the text (and the reference text) with \\uXXXX escapes / white space.
pub fn check_call_text_spelled(ct: &CallText, choices: &[u8], stats: &mut Stats) -> CaseResult {
    let text = ct.text_spelled(choices);
    let stripped = ct.stripped_spelled(choices);
    if text.contains("\\u") {
        stats.class("call:respelled-with-escapes");
    }
    let members = ct.members();
    let pos = |name: &str| ct.order.iter().position(|&i| members[i].0 == name);
    let flag_before_method = FLAG_NAMES.iter().any(|f| matches!((pos(f), pos("method")), (Some(a), Some(b)) if a < b));
    let params_before_method = matches!((pos("parameters"), pos("method")), (Some(a), Some(b)) if a < b);
    let empty_spelling = matches!(ct.tmpl, Tmpl::SvcGetInfoNull | Tmpl::SvcGetInfoEmpty | Tmpl::EnumPingNull);
    if flag_before_method {
        stats.class("call:flag-before-method");
    }
    if params_before_method {
        stats.class("call:parameters-before-method");
    }
    if flag_before_method || params_before_method || empty_spelling {
        stats.nontrivial_hash(hash_of(&("call", &text)));
    }
    let r = match ct.tmpl {
        Tmpl::EnumEcho | Tmpl::EnumPing | Tmpl::EnumPingNull | Tmpl::EnumPut => decode_call::<MethodA<'_>>(&text, &stripped, ct.flags),
        Tmpl::Strict => decode_call::<StrictCall>(&text, &stripped, ct.flags),
        Tmpl::SeenAll => decode_call::<SeenAll>(&text, &stripped, ct.flags),
        Tmpl::AnyValue => decode_call::<Value>(&text, &stripped, ct.flags),
        Tmpl::AnyMap => decode_call::<serde_json::Map<String, Value>>(&text, &stripped, ct.flags),
        Tmpl::AnyBTree => decode_call::<std::collections::BTreeMap<String, Value>>(&text, &stripped, ct.flags),
        Tmpl::Ignored => decode_call::<serde::de::IgnoredAny>(&text, &stripped, ct.flags),
        Tmpl::SvcGetInfo | Tmpl::SvcGetInfoNull | Tmpl::SvcGetInfoEmpty | Tmpl::SvcGetDesc => {
            decode_call::<varlink_service::Method<'_>>(&text, &stripped, ct.flags)
        }
    };
    if let Err(e) = r {
        return Err(Fail::new("call-decode-differs-from-method-type", format!("{text}: {e}")));
    }
    // The standard service methods must be recognised with every spelling of 'no parameters'.
    if matches!(ct.tmpl, Tmpl::SvcGetInfo | Tmpl::SvcGetInfoNull | Tmpl::SvcGetInfoEmpty) {
        stats.class("call:service-method-without-parameters");
        match serde_json::from_str::<Call<varlink_service::Method<'_>>>(&text) {
            Ok(c) if matches!(c.method(), varlink_service::Method::GetInfo) => {}
            other => {
                let sig = if ct.tmpl == Tmpl::SvcGetInfoEmpty { "service-method-empty-object-params" } else { "service-method-no-params" };
                return Err(Fail::new(sig, format!("{text}: expected GetInfo, got {:?}", other.map(|c| format!("{:?}", c.method())))));
            }
        }
    }
    // SeenAll must not have been shown a flag
    if ct.tmpl == Tmpl::SeenAll {
        if let Ok(c) = serde_json::from_str::<Call<SeenAll>>(&text) {
            if FLAG_NAMES.iter().any(|f| c.method().rest.contains_key(*f)) {
                return Err(Fail::new("flag-visible-to-method-type", format!("{text}: the method type saw {:?}", c.method().rest.keys().collect::<Vec<_>>())));
            }
            for i in 0..ct.unknown {
                if !c.method().rest.contains_key(&ct.unknown_name(i)) {
                    return Err(Fail::new("member-not-passed-through", format!("{text}: the method type was not shown {:?}", ct.unknown_name(i))));
                }
            }
        }
    }
    Ok(())
}

fn all_call_texts() -> Vec<CallText> {
    let mut out = Vec::new();
    for tmpl in TMPLS {
        for flags in 0..8u8 {
            for explicit_false in [false, true] {
                for unknown in 0..=2u8 {
                    let base = CallText { tmpl, flags, explicit_false, unknown, order: vec![], uname: 0, ulen: 0 };
                    let n = base.n_members();
                    let perms = permutations(n);
                    let stride = if n >= 7 { 7 } else { 1 };
                    for (k, order) in perms.into_iter().enumerate() {
                        if k % stride == 0 {
                            out.push(CallText { order, ..base.clone() });
                        }
                    }
                }
            }
        }
    }
    out
}

// ---------------------------------------------------------------------------------------------
// call-encode lane

fn send_path_value<M: Serialize + Debug>(call: &Call<M>) -> Result<Value, String> {
    let (sock, handle) = SimSocket::new();
    let mut conn = Connection::new(sock);
    match run_until_ready(conn.send_call(call), 8) {
        Some(Ok(())) => {}
        other => return Err(format!("send_call gave {other:?}")),
    }
    let bytes = handle.written();
    if bytes.last() != Some(&0) {
        return Err("no terminator".into());
    }
    serde_json::from_slice(&bytes[..bytes.len() - 1]).map_err(|e| e.to_string())
}

fn check_call_encode<M>(m: M, flags: u8, stats: &mut Stats) -> CaseResult
where
    M: Serialize + Debug + Clone,
    for<'a> M: Deserialize<'a>,
{
    stats.eval();
    let call = Call::new(m.clone()).set_oneway(flags & 1 != 0).set_more(flags & 2 != 0).set_upgrade(flags & 4 != 0);
    let mut expect = match serde_json::to_value(&m).unwrap() {
        Value::Object(o) => o,
        other => return Err(Fail::new("harness", format!("method type encodes as {other}"))),
    };
    for (i, f) in FLAG_NAMES.iter().enumerate() {
        if flags & (1 << i) != 0 {
            expect.insert(f.to_string(), json!(true));
        }
    }
    let expect = Value::Object(expect);
    let got = serde_json::to_value(&call).map_err(|e| Fail::new("call-encode-failed", e.to_string()))?;
    if got != expect {
        return Err(Fail::new("call-encode", format!("Call encodes as {got}, expected {expect}")));
    }
    let wire = send_path_value(&call).map_err(|e| Fail::new("call-encode-wire", e))?;
    if wire != expect {
        return Err(Fail::new("call-encode-wire", format!("on the wire {wire}, expected {expect}")));
    }
    // round trip
    let text = serde_json::to_string(&call).unwrap();
    let back: Call<M> = serde_json::from_str(&text).map_err(|e| Fail::new("call-round-trip", format!("{text}: {e}")))?;
    if format!("{back:?}") != format!("{call:?}") {
        return Err(Fail::new("call-round-trip", format!("{call:?} came back as {back:?}")));
    }
    Ok(())
}

#[derive(Debug, Clone, Serialize, Deserialize)]
pub struct EncCase {
    pub variant: u8,
    pub flags: u8,
    pub s: String,
    pub n: i64,
    pub val: Option<Vec<i64>>,
}

fn check_enc_case(c: &EncCase, stats: &mut Stats) -> CaseResult {
    // owned mirror of MethodA (borrowed fields cannot be `for<'a> Deserialize<'a>`): use SeenAll / StrictCall / owned enum
    #[derive(Debug, Clone, PartialEq, Serialize, Deserialize)]
    #[serde(tag = "method", content = "parameters")]
    enum Owned {
        #[serde(rename = "org.example.Echo")]
        Echo { s: String, n: i64 },
        #[serde(rename = "org.example.Ping")]
        Ping,
        #[serde(rename = "org.example.Put")]
        Put { key: String, val: Option<Vec<i64>>, tag: String },
    }
    // plain structs with other numbers of own members than two (the statement speaks of "the
    // method type's own members", whatever they are)
    #[derive(Debug, Clone, PartialEq, Serialize, Deserialize)]
    struct MethodOnly {
        method: String,
    }
    #[derive(Debug, Clone, PartialEq, Serialize, Deserialize)]
    struct Wide3 {
        method: String,
        #[serde(default, skip_serializing_if = "Option::is_none")]
        parameters: Option<Vec<i64>>,
        trace_id: String,
    }
    #[derive(Debug, Clone, PartialEq, Serialize, Deserialize)]
    struct Wide5 {
        method: String,
        parameters: std::collections::BTreeMap<String, i64>,
        trace_id: String,
        deadline: i64,
        tags: Vec<String>,
    }
    match c.variant % 9 {
        6 => check_call_encode(MethodOnly { method: c.s.clone() }, c.flags & 7, stats),
        7 => check_call_encode(Wide3 { method: c.s.clone(), parameters: c.val.clone(), trace_id: format!("t{}", c.n) }, c.flags & 7, stats),
        8 => check_call_encode(
            Wide5 { method: c.s.clone(), parameters: [(c.s.clone(), c.n)].into_iter().collect(), trace_id: c.s.clone(), deadline: c.n, tags: vec![c.s.clone(); (c.n.unsigned_abs() % 3) as usize] },
            c.flags & 7,
            stats,
        ),
        0 => check_call_encode(Owned::Echo { s: c.s.clone(), n: c.n }, c.flags & 7, stats),
        1 => check_call_encode(Owned::Ping, c.flags & 7, stats),
        2 => check_call_encode(Owned::Put { key: c.s.clone(), val: c.val.clone(), tag: "t".into() }, c.flags & 7, stats),
        3 => check_call_encode(StrictCall { method: c.s.clone(), parameters: c.val.as_ref().map(|v| json!({"v": v})) }, c.flags & 7, stats),
        4 => {
            let mut rest = std::collections::BTreeMap::new();
            rest.insert("parameters".to_string(), json!({"n": c.n}));
            rest.insert(format!("k{}", c.n), json!(c.s));
            check_call_encode(SeenAll { method: c.s.clone(), rest }, c.flags & 7, stats)
        }
        _ => {
            // borrowed enum + service method: encode only (no owned round trip type)
            stats.eval();
            let call = Call::new(MethodA::Put { key: c.s.clone(), val: c.val.clone(), tag: Cow::Borrowed(&c.s) })
                .set_oneway(c.flags & 1 != 0)
                .set_more(c.flags & 2 != 0)
                .set_upgrade(c.flags & 4 != 0);
            let mut expect = json!({"method": "org.example.Put", "parameters": {"key": c.s, "val": c.val, "tag": c.s}});
            for (i, f) in FLAG_NAMES.iter().enumerate() {
                if c.flags & (1 << i) != 0 {
                    expect[*f] = json!(true);
                }
            }
            let got = serde_json::to_value(&call).unwrap();
            let wire = send_path_value(&call).map_err(|e| Fail::new("call-encode-wire", e))?;
            if got != expect || wire != expect {
                return Err(Fail::new("call-encode", format!("Call encodes as {got} / on the wire {wire}, expected {expect}")));
            }
            let text = serde_json::to_string(&call).unwrap();
            let back: Call<MethodA<'_>> = serde_json::from_str(&text).map_err(|e| Fail::new("call-round-trip", format!("{text}: {e}")))?;
            // a borrowed &str cannot hold an escaped string, Cow can: Put only uses Cow/String
            if format!("{back:?}") != format!("{call:?}") {
                return Err(Fail::new("call-round-trip", format!("{call:?} came back as {back:?}")));
            }
            let svc = Call::new(varlink_service::Method::GetInterfaceDescription { interface: &c.s }).set_more(c.flags & 2 != 0);
            let mut expect = json!({"method": "org.varlink.service.GetInterfaceDescription", "parameters": {"interface": c.s}});
            if c.flags & 2 != 0 {
                expect["more"] = json!(true);
            }
            if serde_json::to_value(&svc).unwrap() != expect {
                return Err(Fail::new("call-encode", format!("service call encodes as {}", serde_json::to_value(&svc).unwrap())));
            }
            let svc = Call::new(varlink_service::Method::GetInfo);
            if serde_json::to_value(&svc).unwrap() != json!({"method": "org.varlink.service.GetInfo"}) {
                return Err(Fail::new("call-encode", format!("GetInfo encodes as {}", serde_json::to_value(&svc).unwrap())));
            }
            Ok(())
        }
    }
}

// ---------------------------------------------------------------------------------------------
// errors lane

/// One error value: its expected encoding and a closure-free way to check decode results.
#[derive(Debug, Clone, Serialize, Deserialize)]
pub struct ErrCase {
    pub which: u8,
    pub a: i64,
    pub s: String,
    pub opt: Option<i64>,
    /// permutation seeds
    pub order: u16,
    pub spelling: u8,
}

fn simple_str(s: &str) -> String {
    // borrowed &str fields cannot be decoded from escaped JSON strings; keep those escape-free
    s.chars().filter(|c| c.is_ascii_alphanumeric() || *c == ' ' || *c == '-').collect()
}

/// Texts of `{"error":..,"parameters":..}` in both member orders, with the parameter members
/// rotated by `order`.
fn error_texts(expect: &Value, order: u16, extra_spellings: bool) -> Vec<String> {
    let name = serde_json::to_string(&expect["error"]).unwrap();
    let mut param_texts: Vec<Option<String>> = Vec::new();
    match expect.get("parameters") {
        Some(Value::Object(o)) => {
            let members: Vec<(String, String)> = o.iter().map(|(k, v)| (k.clone(), v.to_string())).collect();
            let perms = permutations(members.len());
            let p = &perms[order as usize % perms.len()];
            param_texts.push(Some(object_text(&members, p)));
            let q = &perms[(order as usize / 7 + 1) % perms.len()];
            param_texts.push(Some(object_text(&members, q)));
        }
        _ => {
            param_texts.push(None);
            if extra_spellings {
                param_texts.push(Some("null".into()));
                param_texts.push(Some("{}".into()));
            }
        }
    }
    let mut out = Vec::new();
    for p in param_texts {
        match p {
            None => out.push(format!("{{\"error\":{name}}}")),
            Some(p) => {
                out.push(format!("{{\"error\":{name},\"parameters\":{p}}}"));
                out.push(format!("{{\"parameters\":{p},\"error\":{name}}}"));
            }
        }
    }
    out
}

fn check_error_value<'a, E>(value: &E, expect: &Value, texts: &'a [String], fieldless: bool, stats: &mut Stats) -> CaseResult
where
    E: Serialize + Deserialize<'a> + Debug + PartialEq,
{
    let got = serde_json::to_value(value).map_err(|e| Fail::new("error-encode-failed", e.to_string()))?;
    if &got != expect {
        return Err(Fail::new("error-encode", format!("{value:?} encodes as {got}, expected {expect}")));
    }
    for t in texts {
        stats.eval();
        let spelled_empty = fieldless && t.contains("parameters");
        if spelled_empty {
            stats.class("error:fieldless-with-null-or-{}");
        }
        if t.starts_with("{\"parameters\"") || spelled_empty {
            stats.nontrivial_hash(hash_of(&("error", t)));
        }
        match serde_json::from_str::<E>(t) {
            Ok(back) if &back == value => {}
            other => {
                let sig = if spelled_empty && t.contains("{}") { "unit-variant-empty-object-params" } else if spelled_empty { "unit-variant-null-params" } else { "error-decode" };
                return Err(Fail::new(sig, format!("{t} should decode as {value:?}, got {:?}", other.map(|e| format!("{e:?}")).map_err(|e| e.to_string()))));
            }
        }
    }
    Ok(())
}

/// The same texts through `receive_reply::<(), E>` (zlink's buffered untagged path).
fn check_error_through_receive<E>(value_dbg: &str, texts: &[String], fieldless: bool, service: bool) -> CaseResult
where
    E: for<'x> Deserialize<'x> + Debug,
{
    for t in texts {
        let mut data = t.as_bytes().to_vec();
        data.push(0);
        let (sock, _h) = SimSocket::with_script([ReadEv::Data(data), ReadEv::Eof]);
        let mut conn = Connection::new(sock);
        let got = match run_until_ready(conn.receive_reply::<(), E>(), 16) {
            Some(r) => classify_reply(r),
            None => Outcome::Pending,
        };
        let want = if service { format!("service-error {value_dbg}") } else { format!("method-error {value_dbg}") };
        if got != Outcome::Msg(want.clone()) {
            let spelled_empty = fieldless && t.contains("parameters");
            let sig = if spelled_empty && t.contains("{}") { "unit-variant-empty-object-params" } else if spelled_empty { "unit-variant-null-params" } else { "error-decode-through-receive" };
            return Err(Fail::new(sig, format!("receive_reply of {t}: expected {want}, got {got:?}")));
        }
    }
    Ok(())
}

fn check_err_case(c: &ErrCase, stats: &mut Stats) -> CaseResult {
    let s = simple_str(&c.s);
    macro_rules! go {
        ($ty:ty, $val:expr, $expect:expr, $fieldless:expr, owned) => {{
            let v: $ty = $val;
            let expect: Value = $expect;
            let texts = error_texts(&expect, c.order, true);
            check_error_value::<$ty>(&v, &expect, &texts, $fieldless, stats)?;
            check_error_through_receive::<$ty>(&format!("{v:?}"), &texts, $fieldless, false)
        }};
    }
    match c.which % 14 {
        0 => go!(ErrA, ErrA::Bad, json!({"error": "org.example.Bad"}), true, owned),
        1 => go!(ErrA, ErrA::Worse { code: c.a, msg: c.s.clone() }, json!({"error": "org.example.Worse", "parameters": {"code": c.a, "msg": c.s}}), false, owned),
        2 => {
            let mut p = Map::new();
            p.insert("theKey".into(), json!(c.s));
            // Option fields are encoded as null when None (serde default for the derive's output)
            let v = ErrA::Renamed { the_key: c.s.clone(), opt: c.opt };
            let got = serde_json::to_value(&v).unwrap();
            // accept either omission or null for None (the statement does not fix it) but nothing else
            let mut with_opt = p.clone();
            with_opt.insert("opt".into(), json!(c.opt));
            let e1 = json!({"error": "org.example.Renamed", "parameters": with_opt});
            let e2 = json!({"error": "org.example.Renamed", "parameters": p});
            let expect = if got == e2 && c.opt.is_none() { e2 } else { e1 };
            let texts = error_texts(&expect, c.order, true);
            check_error_value::<ErrA>(&v, &expect, &texts, false, stats)?;
            check_error_through_receive::<ErrA>(&format!("{v:?}"), &texts, false, false)
        }
        3 => {
            let v = ErrB::Worse { code: c.a, msg: &s };
            let expect = json!({"error": "org.example.Worse", "parameters": {"code": c.a, "msg": s}});
            let texts = error_texts(&expect, c.order, true);
            check_error_value::<ErrB<'_>>(&v, &expect, &texts, false, stats)
        }
        4 => {
            let v = ErrB::Bad;
            let expect = json!({"error": "org.example.Bad"});
            let texts = error_texts(&expect, c.order, true);
            check_error_value::<ErrB<'_>>(&v, &expect, &texts, true, stats)
        }
        5 => {
            let v = ErrC::Quota { max_bytes: c.a.unsigned_abs(), user_name: &s, hint: if c.opt.is_some() { Some(&s) } else { None } };
            let got = serde_json::to_value(&v).unwrap();
            let mut p = Map::new();
            p.insert("maxBytes".into(), json!(c.a.unsigned_abs()));
            p.insert("user-name".into(), json!(s));
            let mut with_hint = p.clone();
            with_hint.insert("hint".into(), if c.opt.is_some() { json!(s) } else { Value::Null });
            let e1 = json!({"error": "com.example.deep.iface.Quota", "parameters": with_hint});
            let e2 = json!({"error": "com.example.deep.iface.Quota", "parameters": p});
            let expect = if got == e2 && c.opt.is_none() { e2 } else { e1 };
            let texts = error_texts(&expect, c.order, true);
            check_error_value::<ErrC<'_>>(&v, &expect, &texts, false, stats)
        }
        6 => {
            let v = ErrC::Many { items: vec![c.s.clone(), s.clone()], nested: StrictParams { name: c.s.clone(), n: c.a }, ratio: 0.5, flag: c.opt.is_some() };
            let expect = json!({"error": "com.example.deep.iface.Many", "parameters": {"items": [c.s, s], "nested": {"name": c.s, "n": c.a}, "ratio": 0.5, "flag": c.opt.is_some()}});
            let texts = error_texts(&expect, c.order, true);
            check_error_value::<ErrC<'_>>(&v, &expect, &texts, false, stats)
        }
        7 => {
            let v = if c.a % 2 == 0 { ErrC::Gone } else { ErrC::AlsoGone };
            let expect = json!({"error": if c.a % 2 == 0 { "com.example.deep.iface.Gone" } else { "com.example.deep.iface.AlsoGone" }});
            let texts = error_texts(&expect, c.order, true);
            check_error_value::<ErrC<'_>>(&v, &expect, &texts, true, stats)
        }
        // standard service errors
        k => {
            use varlink_service::Error as SE;
            let (v, expect, fieldless) = match k {
                8 => (SE::InterfaceNotFound { interface: c.s.clone() }, json!({"error": "org.varlink.service.InterfaceNotFound", "parameters": {"interface": c.s}}), false),
                9 => (SE::MethodNotFound { method: c.s.clone() }, json!({"error": "org.varlink.service.MethodNotFound", "parameters": {"method": c.s}}), false),
                10 => (SE::MethodNotImplemented { method: c.s.clone() }, json!({"error": "org.varlink.service.MethodNotImplemented", "parameters": {"method": c.s}}), false),
                11 => (SE::InvalidParameter { parameter: c.s.clone() }, json!({"error": "org.varlink.service.InvalidParameter", "parameters": {"parameter": c.s}}), false),
                12 => (SE::PermissionDenied, json!({"error": "org.varlink.service.PermissionDenied"}), true),
                _ => (SE::ExpectedMore, json!({"error": "org.varlink.service.ExpectedMore"}), true),
            };
            let texts = error_texts(&expect, c.order, true);
            check_error_value::<SE>(&v, &expect, &texts, fieldless, stats)?;
            check_error_through_receive::<ErrNone>(&format!("{v:?}"), &texts, fieldless, true)
        }
    }
}

// ---------------------------------------------------------------------------------------------
// reply lane

fn check_reply<T>(params: Option<T>, continues: Option<bool>, stats: &mut Stats) -> CaseResult
where
    T: Serialize + for<'a> Deserialize<'a> + Debug + Clone + PartialEq,
{
    stats.eval();
    let r = Reply::new(params.clone()).set_continues(continues);
    let mut expect = Map::new();
    if let Some(p) = &params {
        expect.insert("parameters".into(), serde_json::to_value(p).unwrap());
    }
    if let Some(c) = continues {
        expect.insert("continues".into(), json!(c));
    }
    let expect = Value::Object(expect);
    let got = serde_json::to_value(&r).unwrap();
    if got != expect {
        return Err(Fail::new("reply-encode", format!("{r:?} encodes as {got}, expected {expect}")));
    }
    // wire path
    let (sock, handle) = SimSocket::new();
    let mut conn = Connection::new(sock);
    if !matches!(run_until_ready(conn.send_reply(&r), 8), Some(Ok(()))) {
        return Err(Fail::new("reply-encode-wire", "send_reply failed".to_string()));
    }
    let bytes = handle.written();
    let wire: Value = serde_json::from_slice(&bytes[..bytes.len() - 1]).map_err(|e| Fail::new("reply-encode-wire", e.to_string()))?;
    if wire != expect {
        return Err(Fail::new("reply-encode-wire", format!("on the wire {wire}, expected {expect}")));
    }
    // decode from both member orders
    let members: Vec<(String, String)> = expect.as_object().unwrap().iter().map(|(k, v)| (k.clone(), v.to_string())).collect();
    for order in permutations(members.len()) {
        let t = object_text(&members, &order);
        let back: Reply<T> = serde_json::from_str(&t).map_err(|e| Fail::new("reply-decode", format!("{t}: {e}")))?;
        if back.parameters() != params.as_ref() || back.continues() != continues {
            return Err(Fail::new("reply-round-trip", format!("{t} decoded as {back:?}")));
        }
    }
    Ok(())
}

// ---------------------------------------------------------------------------------------------
// proxy-unit lane

fn proxy_unit_frames() -> Vec<(&'static str, bool)> {
    // (frame, is a {} / null spelling)
    vec![
        ("{}", false),
        (r#"{"continues":false}"#, false),
        (r#"{"parameters":null}"#, true),
        (r#"{"parameters":{}}"#, true),
        (r#"{"parameters":{},"continues":false}"#, true),
        (r#"{"continues":false,"parameters":{}}"#, true),
        (r#"{"parameters":null,"continues":false}"#, true),
    ]
}

/// A streaming (`more`) proxy method with unit items: every item may spell 'no parameters' in any of
/// the three ways. `spellings[i]` selects the spelling of item i; the last item ends the stream.
fn check_proxy_unit_stream(spellings: &[u8], stats: &mut Stats) -> CaseResult {
    use futures_util::StreamExt;
    stats.eval();
    let n = spellings.len();
    let mut script = Vec::new();
    let mut data = Vec::new();
    for (i, sp) in spellings.iter().enumerate() {
        let last = i == n - 1;
        let params = match sp % 3 {
            0 => None,
            1 => Some("null"),
            _ => Some("{}"),
        };
        let mut members = Vec::new();
        if let Some(p) = params {
            members.push(format!("\"parameters\":{p}"));
        }
        if !last {
            members.push("\"continues\":true".to_string());
        } else if sp % 2 == 0 {
            members.push("\"continues\":false".to_string());
        }
        if sp % 5 == 0 {
            members.reverse();
        }
        data.extend(format!("{{{}}}", members.join(",")).into_bytes());
        data.push(0);
    }
    script.push(ReadEv::Data(data.clone()));
    let (sock, handle) = SimSocket::with_script(script);
    let mut conn = Connection::new(sock);
    let stream = match run_until_ready(conn.watch(), 8) {
        Some(Ok(s)) => s,
        other => return Err(Fail::new("proxy-stream", format!("watch(): {:?}", other.map(|r| r.map(|_| ())))),),
    };
    let mut stream = std::pin::pin!(stream);
    let mut got = Vec::new();
    for _ in 0..n + 1 {
        match run_until_ready(stream.next(), 8) {
            Some(Some(item)) => got.push(format!("{item:?}")),
            Some(None) => break,
            None => {
                got.push("<pending>".into());
                break;
            }
        }
    }
    let sent = handle.written();
    let sent: Value = serde_json::from_slice(&sent[..sent.len().saturating_sub(1)]).unwrap_or(Value::Null);
    if sent != json!({"method": "org.example.Px.Watch", "more": true}) {
        return Err(Fail::new("proxy-call-wire", format!("streaming proxy sent {sent}")));
    }
    let want: Vec<String> = (0..n).map(|_| "Ok(Ok(()))".to_string()).collect();
    if got != want {
        let sig = if String::from_utf8_lossy(&data).contains("{}") { "unit-output-empty-object-params" } else { "unit-output-reply" };
        return Err(Fail::new(
            sig,
            format!("streaming unit-output proxy method answered with {}: expected {n} x Ok(Ok(())) then the end, got {got:?}", vcommon::ev::show_bytes(&data)),
        ));
    }
    Ok(())
}

fn check_proxy_unit(frame: &str, which: u8, stats: &mut Stats) -> CaseResult {
    stats.eval();
    let mut data = frame.as_bytes().to_vec();
    data.push(0);
    let (sock, handle) = SimSocket::with_script([ReadEv::Data(data), ReadEv::Eof]);
    let mut conn = Connection::new(sock);
    let (got, want_call) = match which {
        0 => (run_until_ready(conn.ping(), 16).map(|r| format!("{r:?}")), json!({"method": "org.example.Px.Ping"})),
        _ => (run_until_ready(conn.touch("k"), 16).map(|r| format!("{r:?}")), json!({"method": "org.example.Px.Touch", "parameters": {"key": "k"}})),
    };
    let sent = handle.written();
    let sent: Value = serde_json::from_slice(&sent[..sent.len().saturating_sub(1)]).unwrap_or(Value::Null);
    if sent != want_call {
        return Err(Fail::new("proxy-call-wire", format!("proxy sent {sent}, expected {want_call}")));
    }
    if got.as_deref() != Some("Ok(Ok(()))") {
        let sig = if frame.contains("{}}") || frame.contains("{},") { "unit-output-empty-object-params" } else { "unit-output-reply" };
        return Err(Fail::new(sig, format!("unit-output proxy method answered with {frame}: expected Ok(Ok(())), got {got:?}")));
    }
    Ok(())
}

// ---------------------------------------------------------------------------------------------

pub fn run(ctx: &Ctx) -> i32 {
    let texts = all_call_texts();
    let (mut stats, mut viol) = par_enumerate(ctx, "call-decode", texts.len() as u64, |i, stats| {
        let ct = &texts[i as usize];
        stats.eval();
        if i % 50_021 == 3 {
            stats.sample(|| json!({"lane": "call-decode", "text": ct.text()}));
        }
        match check_call_text(ct, stats) {
            Ok(()) => vec![],
            Err(f) => vec![(f, serde_json::to_value(ct).unwrap())],
        }
    });
    let (shards, cases) = ctx.tier.pick((16, 6000), (32, 30_000));
    let texts_ref = &texts;
    let (s6, v6) = run_shards(
        ctx,
        "call-respelled",
        shards,
        cases,
        || (any::<u32>(), prop::collection::vec(any::<u8>(), 1..24)),
        |(fi, choices), stats| {
            let idx = ((*fi as u64 * texts_ref.len() as u64) >> 32) as usize;
            stats.sample(|| json!({"lane": "call-respelled", "text": texts_ref[idx].text_spelled(choices)}));
            check_call_text_spelled(&texts_ref[idx], choices, stats)
        },
    );
    stats.merge(s6);
    viol.extend(v6);
    // unknown members with generated names: 1..60 bytes of ASCII and multi-byte characters, written
    // raw or with \\uXXXX escapes, in any position
    let (s7, v7) = run_shards(
        ctx,
        "call-unknown-names",
        shards,
        cases,
        || (any::<u32>(), 1u16..u16::MAX, 1u8..60, prop::collection::vec(any::<u8>(), 0..24)),
        |(fi, uname, ulen, choices), stats| {
            let idx = ((*fi as u64 * texts_ref.len() as u64) >> 32) as usize;
            let mut ct = texts_ref[idx].clone();
            ct.uname = *uname;
            ct.ulen = *ulen;
            if ct.unknown > 0 {
                stats.class("call:generated-unknown-member-name");
                let n = ct.unknown_name(0);
                if !n.is_ascii() && n.chars().count() <= 32 && n.len() > 32 {
                    stats.class("call:unknown-name<=32-chars->32-bytes");
                }
            }
            stats.sample(|| json!({"lane": "call-unknown-names", "text": ct.text_spelled(choices)}));
            check_call_text_spelled(&ct, choices, stats)
        },
    );
    stats.merge(s7);
    viol.extend(v7);
    let (s2, v2) = run_shards(
        ctx,
        "call-encode",
        shards,
        cases,
        || {
            (any::<u8>(), any::<u8>(), ".{0,12}", any::<i64>(), prop::option::of(prop::collection::vec(any::<i64>(), 0..4)))
                .prop_map(|(variant, flags, s, n, val)| EncCase { variant, flags, s, n, val })
        },
        |c, stats| {
            stats.sample(|| json!({"lane": "call-encode", "case": c}));
            check_enc_case(c, stats)
        },
    );
    stats.merge(s2);
    viol.extend(v2);
    let (s3, v3) = run_shards(
        ctx,
        "errors",
        shards,
        cases,
        || {
            (any::<u8>(), any::<i64>(), ".{0,10}", prop::option::of(any::<i64>()), any::<u16>(), any::<u8>())
                .prop_map(|(which, a, s, opt, order, spelling)| ErrCase { which, a, s, opt, order, spelling })
        },
        |c, stats| {
            stats.sample(|| json!({"lane": "errors", "case": c}));
            check_err_case(c, stats)
        },
    );
    stats.merge(s3);
    viol.extend(v3);
    let (s4, v4) = run_shards(
        ctx,
        "reply",
        shards,
        cases / 2,
        || (any::<u8>(), prop::option::of(".{0,10}"), prop::option::of(any::<i64>()), prop::option::of(any::<bool>())),
        |(sel, name, n, continues), stats| match sel % 3 {
            0 => check_reply::<OptParams>(if sel % 2 == 0 { Some(OptParams { name: name.clone(), n: *n }) } else { None }, *continues, stats),
            1 => check_reply::<StrictParams>(name.clone().map(|name| StrictParams { name, n: n.unwrap_or(0) }), *continues, stats),
            _ => check_reply::<Value>(name.clone().map(|s| json!({"k": [s, n], "deep": {"x": n}})), *continues, stats),
        },
    );
    stats.merge(s4);
    viol.extend(v4);
    let frames = proxy_unit_frames();
    let (s5, v5) = par_enumerate(ctx, "proxy-unit", (frames.len() * 2) as u64, |i, stats| {
        let (frame, spelled) = frames[i as usize / 2];
        if spelled {
            stats.nontrivial_hash(hash_of(&("proxy-unit", frame, i % 2)));
            stats.class("proxy-unit:null-or-{}-spelling");
        }
        match check_proxy_unit(frame, (i % 2) as u8, stats) {
            Ok(()) => vec![],
            Err(f) => vec![(f, json!({"frame": frame, "which": i % 2}))],
        }
    });
    stats.merge(s5);
    viol.extend(v5);
    // streaming unit-output method: all spelling sequences of length 1..=4 (3 spellings x order/flag variants)
    let mut seqs: Vec<Vec<u8>> = Vec::new();
    for len in 1..=4usize {
        let count = 30usize.pow(len as u32).min(4000);
        for k in 0..count {
            let mut v = Vec::new();
            let mut x = k * 7919 + len;
            for _ in 0..len {
                v.push((x % 30) as u8);
                x /= 30;
            }
            seqs.push(v);
        }
    }
    let (s7, v7) = par_enumerate(ctx, "proxy-unit-stream", seqs.len() as u64, |i, stats| {
        let sp = &seqs[i as usize];
        stats.class("proxy-unit-stream");
        if sp.iter().any(|s| s % 3 != 0) {
            stats.nontrivial_hash(hash_of(&("proxy-unit-stream", sp)));
        }
        match check_proxy_unit_stream(sp, stats) {
            Ok(()) => vec![],
            Err(f) => vec![(f, json!({"spellings": sp}))],
        }
    });
    stats.merge(s7);
    viol.extend(v7);
    // generated corpus of ReplyError derives, compiled against /repo
    if let Err(code) = crate::c05gen::run_corpus(ctx, &mut stats, &mut viol) {
        eprintln!("C05: the generated corpus of error enums could not be built or run (inconclusive)");
        return code;
    }
    Report::new(RULE)
        .assume("derive corpus: the expected wire name is <interface>.<variant identifier>, parameter names are the #[zlink(rename)] value or the field identifier without r#, values come from a fixed literal table per field type; programs are generated from the seed, not shrunk - the reported unit is one enum with its source")
        .assume("decoding is always from JSON text (serde_json::from_str / the receive path), as on the wire; the reference decode of a user-defined method type is that type's own Deserialize applied to the object without the flag members")
        .assume("expected encodings of the error enums are written by hand next to each value; for Option fields of error variants both null and omission are accepted on encode (the statement does not fix it)")
        .extra("call_texts_enumerated", json!(texts.len()))
        .finish(ctx, &stats, &viol, &[])
}

pub fn replay(lane: &str, case: Value) -> CaseResult {
    let mut stats = Stats::default();
    let bad = |e: serde_json::Error| Fail::new("bad-replay", e.to_string());
    match lane {
        "derive-corpus" => {
            println!("{}", case["enum"].as_str().unwrap_or(""));
            Err(Fail::new("bad-replay", format!("a corpus case (key {}) is replayed by re-running the check with the same seed: the enum above has to be compiled", case["key"])))
        }
        "call-decode" => {
            let ct: CallText = serde_json::from_value(case).map_err(bad)?;
            println!("text: {}", ct.text());
            check_call_text(&ct, &mut stats)
        }
        "call-respelled" => {
            let texts = all_call_texts();
            let fi = case[0].as_u64().unwrap_or(0);
            let choices: Vec<u8> = serde_json::from_value(case[1].clone()).map_err(bad)?;
            let idx = ((fi * texts.len() as u64) >> 32) as usize;
            println!("text: {}", texts[idx].text_spelled(&choices));
            check_call_text_spelled(&texts[idx], &choices, &mut stats)
        }
        "call-unknown-names" => {
            let texts = all_call_texts();
            let fi = case[0].as_u64().unwrap_or(0);
            let choices: Vec<u8> = serde_json::from_value(case[3].clone()).map_err(bad)?;
            let idx = ((fi * texts.len() as u64) >> 32) as usize;
            let mut ct = texts[idx].clone();
            ct.uname = case[1].as_u64().unwrap_or(0) as u16;
            ct.ulen = case[2].as_u64().unwrap_or(0) as u8;
            println!("text: {}", ct.text_spelled(&choices));
            check_call_text_spelled(&ct, &choices, &mut stats)
        }
        "call-encode" => check_enc_case(&serde_json::from_value(case).map_err(bad)?, &mut stats),
        "errors" => check_err_case(&serde_json::from_value(case).map_err(bad)?, &mut stats),
        "reply" => {
            let (sel, name, n, continues): (u8, Option<String>, Option<i64>, Option<bool>) = serde_json::from_value(case).map_err(bad)?;
            match sel % 3 {
                0 => check_reply::<OptParams>(if sel % 2 == 0 { Some(OptParams { name, n }) } else { None }, continues, &mut stats),
                1 => check_reply::<StrictParams>(name.map(|name| StrictParams { name, n: n.unwrap_or(0) }), continues, &mut stats),
                _ => check_reply::<Value>(name.map(|s| json!({"k": [s, n], "deep": {"x": n}})), continues, &mut stats),
            }
        }
        "proxy-unit-stream" => {
            let sp: Vec<u8> = serde_json::from_value(case["spellings"].clone()).map_err(bad)?;
            check_proxy_unit_stream(&sp, &mut stats)
        }
        "proxy-unit" => {
            let frame = case["frame"].as_str().unwrap_or("{}").to_string();
            check_proxy_unit(&frame, case["which"].as_u64().unwrap_or(0) as u8, &mut stats)
        }
        other => Err(Fail::new("bad-replay", format!("unknown lane {other}"))),
    }
}
