//! C10 — streaming replies are delivered in order and the connection resumes afterwards.

use serde_json::json;
use vcommon::{
    drv::{par_enumerate, run_shards, CaseResult, Fail},
    ev::{hash_of, Ctx, Report, Stats},
    frames::{resolve_cuts, ChunkPlan},
    srv::*,
    srvgen::{interleavings, scenario_strategy, Features},
};

use crate::c08::sample_of;

pub const RULE: &str = "case = a C08 scenario on 1..3 connections in which calls may be `Sub` \
(the service answers with a harness-controlled stream): the global step list additionally contains \
Push(c,id,continues in {absent,false,true}) and End(c,id) events for those streams, placed anywhere \
(before the Sub call is even delivered, between other clients' calls, after pipelined calls behind \
it arrived), streams of 0..4 and more items, ending or left open; transport write failure at the \
k-th write of a connection. Oracle = the sequential model extended with streams: at every quiescent \
point a client has received, for each of its calls in order, the reply - or for a Sub every item \
pushed so far, in push order, carrying exactly the pushed continues flag - and nothing of the calls \
behind a Sub whose stream is still open; after End the pipelined calls behind it are answered in \
order; other connections equal their own model throughout; after a write failure only that \
connection stops receiving (the others stay equal to their model, the server stays pending). \
Exhaustive lane: every interleaving of {stream pushes/end of connection 0} with {chunk deliveries \
of connection 1} for a burst `Echo, Sub, Echo, Fail` on connection 0. A further lane: one subscriber's stream always has its next item ready while its transport needs \
1..3 polls per write; 1..2 other clients deliver 1..3 calls at some poll and must have their replies \
after 80 polls of the server. Non-trivial = a burst in \
which calls follow a Sub in the same connection, and another connection is served while that stream \
is open; distinct by hash of the scenario.";

pub const FEATURES: Features = Features { max_conns: 3, max_calls: 5, oneway: true, subs: true, faults: false };

fn classify(sc: &Scenario, stats: &mut Stats) -> bool {
    let mut behind = false;
    let mut subs = 0;
    for c in &sc.conns {
        let mut seen_sub = false;
        for f in &c.frames {
            if let FrameSpec::Call { kind, .. } = f {
                if seen_sub {
                    behind = true;
                }
                if *kind == CallKind::Sub {
                    seen_sub = true;
                    subs += 1;
                }
            }
        }
    }
    if subs > 0 {
        stats.class("has-sub-call");
    }
    if subs >= 2 {
        stats.class("sub-calls>=2");
    }
    if behind {
        stats.class("calls-pipelined-behind-a-sub");
    }
    if sc.conns.iter().any(|c| c.write_fail_from.is_some()) {
        stats.class("write-failure");
    }
    let pushes = sc.steps.iter().filter(|s| matches!(s, Step::Push { .. })).count();
    if pushes >= 3 {
        stats.class("stream-items>=3");
    }
    // another connection's chunk delivered between a push and the end of some stream
    let mut open = false;
    let mut other_served = false;
    let mut sub_conn = usize::MAX;
    for s in &sc.steps {
        match s {
            Step::Push { c, .. } => {
                open = true;
                sub_conn = *c;
            }
            Step::Chunk(c) if open && *c != sub_conn && !sc.conns[*c].frames.is_empty() => other_served = true,
            _ => {}
        }
    }
    if other_served {
        stats.class("other-connection-active-while-streaming");
    }
    behind && other_served && sc.conns.len() >= 2
}

pub fn check_scenario(sc: &Scenario, stats: &mut Stats) -> CaseResult {
    if classify(sc, stats) {
        stats.nontrivial_hash(hash_of(sc));
    }
    stats.sample(|| sample_of(sc));
    let trace = run_scenario(sc);
    if trace.observations.iter().any(|o| o.streams.values().any(|(items, _)| !items.is_empty())) {
        stats.class("stream-items-observed");
    }
    judge_trace(sc, &trace)
}

fn enumerated() -> Vec<Scenario> {
    let call = |kind, id, pad| FrameSpec::Call { kind, id, oneway: false, more: kind == CallKind::Sub, pad, flags_first: false };
    let mk = |c: usize, frames: Vec<FrameSpec>, plan: ChunkPlan, wf| {
        let mut s = ConnScript { frames, cuts: vec![], end: ConnEnd::Open, truncate_last: false, write_fail_from: wf };
        s.cuts = resolve_cuts(&plan, &s.stream(c));
        s
    };
    let mut out = Vec::new();
    for wf in [None, Some(0usize), Some(1), Some(2), Some(3), Some(4)] {
        for burst_plan in [ChunkPlan::One, ChunkPlan::AtNuls(0)] {
            let c0 = mk(0, vec![call(CallKind::Echo, 0, 2), call(CallKind::Sub, 1, 0), call(CallKind::Echo, 2, 3), call(CallKind::Fail, 3, 0)], burst_plan.clone(), wf);
            let c1 = mk(1, vec![call(CallKind::Echo, 0, 1), call(CallKind::Noop, 1, 0), call(CallKind::Sub, 2, 0), call(CallKind::Echo, 3, 0)], ChunkPlan::AtNuls(0), None);
            // stream events of connection 0: push, push(continues false), push, end ; connection 1's sub: push, end
            let ev0 = vec![
                Step::Push { c: 0, id: 1, continues: Some(true) },
                Step::Push { c: 0, id: 1, continues: Some(false) },
                Step::Push { c: 0, id: 1, continues: None },
                Step::End { c: 0, id: 1 },
            ];
            let n1 = c1.cuts.len() + 1;
            for order in interleavings(&[ev0.len(), n1]) {
                for deliver_first in [true, false] {
                    let mut steps = Vec::new();
                    if deliver_first {
                        for _ in 0..c0.cuts.len() + 1 {
                            steps.push(Step::Chunk(0));
                        }
                        steps.push(Step::Poll);
                    }
                    let mut i0 = 0;
                    for &who in &order {
                        if who == 0 {
                            steps.push(ev0[i0].clone());
                            i0 += 1;
                        } else {
                            steps.push(Step::Chunk(1));
                        }
                        steps.push(Step::Poll);
                    }
                    if !deliver_first {
                        for _ in 0..c0.cuts.len() + 1 {
                            steps.push(Step::Chunk(0));
                            steps.push(Step::Poll);
                        }
                    }
                    steps.push(Step::Push { c: 1, id: 2, continues: Some(true) });
                    steps.push(Step::Poll);
                    steps.push(Step::End { c: 1, id: 2 });
                    out.push(Scenario { conns: vec![c0.clone(), c1.clone()], steps });
                }
            }
        }
    }
    out
}

// ---------------------------------------------------------------------------------------------
// A stream that always has its next item ready, towards a subscriber that takes a while per item:
// the other clients must still be served while it is open.

#[derive(Debug, Clone, serde::Serialize, serde::Deserialize)]
pub struct EndlessCase {
    /// Pending polls before each write to the subscriber completes (1..=3)
    pub throttle: u8,
    /// the other clients (1..=2), each: (poll index at which its calls are delivered 0..=9, number of calls 1..=3, delivered in two pieces)
    pub others: Vec<(u8, u8, bool)>,
    /// calls pipelined by the subscriber in front of its Sub (0..=2)
    pub before_sub: u8,
}

pub fn check_endless(case: &EndlessCase, stats: &mut Stats) -> CaseResult {
    use std::{cell::RefCell, future::Future, pin::Pin, rc::Rc};
    use vcommon::{exec::poll_once, sim::SimListener};
    const POLLS: usize = 80;
    stats.class("lane:endless-stream");
    stats.nontrivial_hash(hash_of(&(case.throttle, &case.others, case.before_sub)));
    let listener = SimListener::new();
    let state = Rc::new(RefCell::new(SvcState::default()));
    let server = zlink_core::Server::new(listener.clone(), SimService(state.clone()));
    let mut fut: Pin<Box<dyn Future<Output = zlink_core::Result<()>>>> = Box::pin(server.run());
    let call = |kind, id| FrameSpec::Call { kind, id, oneway: false, more: kind == CallKind::Sub, pad: (id % 4) as u16, flags_first: id % 2 == 1 };
    // the subscriber
    let sub_id = case.before_sub as u32;
    let ha = listener.connect();
    {
        let mut w = ha.write.borrow_mut();
        for _ in 0..20_000 {
            w.pending_script.push_back(case.throttle.clamp(1, 3) as u32);
        }
    }
    state.borrow_mut().stream(0, sub_id).borrow_mut().endless = Some((0, sub_id));
    let mut a_bytes = Vec::new();
    for id in 0..sub_id {
        a_bytes.extend(call(CallKind::Echo, id).render(0));
        a_bytes.push(0);
    }
    a_bytes.extend(call(CallKind::Sub, sub_id).render(0));
    a_bytes.push(0);
    ha.push_data(&a_bytes);
    // the others
    let mut others = Vec::new();
    for (k, (at, n, split)) in case.others.iter().enumerate() {
        let c = k + 1;
        let h = listener.connect();
        let mut bytes = Vec::new();
        for id in 0..(*n).clamp(1, 3) as u32 {
            bytes.extend(call(if id % 2 == 0 { CallKind::Echo } else { CallKind::Fail }, id).render(c));
            bytes.push(0);
        }
        others.push((h, bytes, (*at % 10) as usize, *split, (*n).clamp(1, 3) as usize));
    }
    for p in 0..POLLS {
        for (h, bytes, at, split, _) in &others {
            if p == *at {
                let cut = if *split { bytes.len() / 2 } else { bytes.len() };
                h.push_data(&bytes[..cut]);
            }
            if p == *at + 2 && *split {
                h.push_data(&bytes[bytes.len() / 2..]);
            }
        }
        if let std::task::Poll::Ready(r) = poll_once(fut.as_mut()) {
            return Err(Fail::new("server-stopped", format!("Server::run() returned {r:?}")));
        }
    }
    let items = ha.written().split(|&b| b == 0).filter(|f| !f.is_empty()).count();
    if items < 3 {
        return Err(Fail::new("harness", format!("the subscriber received only {items} frames in {POLLS} polls")));
    }
    for (k, (h, _, at, _, n)) in others.iter().enumerate() {
        let got: Vec<serde_json::Value> = h.written().split(|&b| b == 0).filter(|f| !f.is_empty()).filter_map(|f| serde_json::from_slice(f).ok()).collect();
        let ok = got.len() == *n && got.iter().enumerate().all(|(id, v)| v["parameters"]["c"] == json!(k + 1) && v["parameters"]["id"] == json!(id));
        if !ok {
            return Err(Fail::new(
                "client-not-served-while-a-stream-is-open",
                format!(
                    "connection 0 holds a stream that always has its next item ready (its transport needs {} polls per write; it received {items} frames); connection {} delivered {n} call(s) at poll {at} of {POLLS} and received {} repl(y/ies): {}",
                    case.throttle,
                    k + 1,
                    got.len(),
                    got.iter().map(|v| v.to_string()).collect::<Vec<_>>().join(" | ")
                ),
            ));
        }
    }
    Ok(())
}

fn endless_strategy() -> impl proptest::strategy::Strategy<Value = EndlessCase> {
    use proptest::prelude::*;
    (1u8..=3, prop::collection::vec((0u8..10, 1u8..=3, any::<bool>()), 1..=2), 0u8..=2).prop_map(|(throttle, others, before_sub)| EndlessCase { throttle, others, before_sub })
}

pub fn run(ctx: &Ctx) -> i32 {
    let (shards, cases) = ctx.tier.pick((16, 8000), (64, 20_000));
    let (mut stats, mut viol) = run_shards(ctx, "random", shards, cases, || scenario_strategy(FEATURES), check_scenario);
    // with write failures
    let wf = Features { faults: true, ..FEATURES };
    let (s3, v3) = run_shards(ctx, "random-with-faults", shards, cases / 2, || scenario_strategy(wf), check_scenario);
    stats.merge(s3);
    viol.extend(v3);
    let (s4, v4) = run_shards(ctx, "endless-stream", 4, ctx.tier.pick(400, 4000), endless_strategy, check_endless);
    stats.merge(s4);
    viol.extend(v4);
    let en = enumerated();
    let (s2, v2) = par_enumerate(ctx, "stream-interleavings", en.len() as u64, |i, stats| {
        let sc = &en[i as usize];
        stats.eval();
        match check_scenario(sc, stats) {
            Ok(()) => vec![],
            Err(f) => vec![(f, serde_json::to_value(sc).unwrap())],
        }
    });
    stats.merge(s2);
    viol.extend(v2);
    crate::fuzzrun::golden("srv_sim", &mut stats, &mut viol);
    if ctx.tier == vcommon::ev::Tier::Thorough {
        std::env::set_var("VERIF_SRV_LANES", "3,4,7");
        let seeds: Vec<Vec<u8>> = { let mut v = Vec::new(); for l in [3u8, 4, 7] { for i in 0..24u8 { let mut s = vec![l as u8]; s.extend((0..(16 + i as usize * 9)).map(|k| (k as u8).wrapping_mul(37).wrapping_add(i.wrapping_mul(11)))); v.push(s); } } v };
        crate::fuzzrun::campaign(ctx, "srv_sim", crate::fuzzrun::fuzz_secs(180), &seeds, &mut stats, &mut viol);
    }
    Report::new(RULE)
        .assume("the service's stream is a harness-controlled queue: an item exists from the Push step on, the stream ends at the End step; items pushed after End are ignored")
        .assume("as in C08: equality with the model is demanded whenever a connection's delivered bytes end at a frame boundary, a prefix otherwise")
        .extra("enumerated_stream_interleavings", json!(en.len()))
        .finish(ctx, &stats, &viol, &[])
}

pub fn replay(_lane: &str, case: serde_json::Value) -> CaseResult {
    if _lane == "fuzz" {
        return crate::fuzzrun::replay(&case);
    }
    if _lane == "endless-stream" {
        let c: EndlessCase = serde_json::from_value(case).map_err(|e| Fail::new("bad-replay", e.to_string()))?;
        println!("{c:?}");
        return check_endless(&c, &mut Stats::default());
    }
    let sc: Scenario = serde_json::from_value(case).map_err(|e| Fail::new("bad-replay", e.to_string()))?;
    println!("{}", serde_json::to_string_pretty(&sample_of(&sc)).unwrap());
    let trace = run_scenario(&sc);
    for o in &trace.observations {
        println!("observation at step {}: out = {:?}", o.step as i64, o.out.iter().map(|f| show_frames(f)).collect::<Vec<_>>());
    }
    println!("service log: {:?}; server ended: {:?}", trace.log, trace.server_ended);
    judge_trace(&sc, &trace)
}
