//! C17 — buffers are bounded: oversized traffic is refused, smaller traffic accepted.
//!
//! Two builds take part. The *small-limit* build (`--cfg zlink_verif_small_buf`, limit = 83 * 256,
//! deliberately not a power of two) sweeps every size around every growth step and the limit in both
//! directions; the *production* build (limit 100 MiB) runs the inbound overflow and near-limit
//! cases. The parent process (production build) starts the small-limit binary as a child and merges
//! its counters.

use std::{cell::RefCell, future::poll_fn, rc::Rc, task::Poll};

use serde::{Deserialize, Serialize};
use serde_json::json;
use vcommon::{
    drv::{par_enumerate, CaseResult, Fail},
    ev::{hash_of, verif_root, Ctx, Report, Stats, Tier, Violation},
    exec::run_until_ready,
    sim::{ReadEv, SimSocket},
    tx::{Msg, MsgKind, SendOp},
    types::ErrNone,
};
use zlink_core::{
    connection::socket::{ReadHalf, Socket, WriteHalf},
    Connection,
};

pub const RULE: &str = "inbound case = (frame payload size s, chunk size c, optional prefix of small \
frames, terminated or not); the stream occupies T = prefix + s + 1 bytes of the receive buffer. \
outbound case = (fill position p reached by one enqueued message, message of encoded length n, \
total = p + n + 1). Oracle: T < limit (total < limit) => delivered / written intact; a single \
frame with T > limit (total > limit) => Error::BufferOverflow, for outbound nothing of it reaches \
the transport, the earlier enqueued message is flushed intact and a later small message is sent \
intact; == limit is recorded, not judged (the statement leaves the exact boundary open); the \
receive buffer, inferred from what the read half is offered, never exceeds the limit (no transport write is longer than the limit either); a refused send has written nothing at the moment it is refused, also when it is a send_* behind enqueued messages; an \
unterminated stream that stops short of the limit and then closes gives UnexpectedEof. \
Non-trivial = size within 2 bytes of a multiple of 256, or within 600 bytes of the limit, or \
refused; distinct by hash of the case.";

const STEP: usize = 256;
const PROD_LIMIT: usize = 100 * 1024 * 1024;

fn limit() -> usize {
    zlink_core::__verif::MAX_BUFFER_SIZE
}

// ---------------------------------------------------------------------------------------------
// Inbound

#[derive(Debug, Clone, Serialize, Deserialize)]
pub struct InCase {
    /// "small" or "prod": which build the case belongs to.
    pub build: String,
    /// Payload bytes of the frame under test (terminator not counted).
    pub size: usize,
    /// The transport delivers at most this many bytes per read.
    pub chunk: usize,
    /// Number of `{}` frames pipelined in front of it (same burst, no read ends between frames).
    pub prefix_frames: usize,
    /// false: the stream has no terminator (then Pending forever, or EOF if `eof`).
    pub terminated: bool,
    pub eof: bool,
    /// The transport reports Pending once when this many bytes have been read, and the pending
    /// receive is abandoned there (dropped and started anew): the limit bookkeeping must survive.
    #[serde(default)]
    pub abandon_at: Option<usize>,
}

/// A frame of exactly `size` bytes that decodes as `Reply<serde_json::Value>` when size >= 2.
fn frame_of(size: usize) -> Vec<u8> {
    const HEAD: &[u8] = b"{\"parameters\":\"";
    const TAIL: &[u8] = b"\"}";
    if size >= HEAD.len() + TAIL.len() {
        let mut v = Vec::with_capacity(size);
        v.extend_from_slice(HEAD);
        v.resize(size - TAIL.len(), b'a');
        v.extend_from_slice(TAIL);
        v
    } else if size >= 2 {
        let mut v = b"{}".to_vec();
        v.resize(size, b' ');
        v
    } else {
        vec![b'1'; size]
    }
}

/// Bulk read half: serves a byte vector in chunks without re-copying the remainder.
#[derive(Debug, Default)]
struct BulkState {
    data: Vec<u8>,
    pos: usize,
    chunk: usize,
    eof: bool,
    reads: u64,
    max_extent: usize,
    pause_at: Option<usize>,
    /// set by the poll that reported the pause
    paused_now: bool,
}
#[derive(Debug, Clone)]
struct BulkRead(Rc<RefCell<BulkState>>);
#[derive(Debug)]
struct NullWrite;
#[derive(Debug)]
struct BulkSocket(BulkRead);

impl ReadHalf for BulkRead {
    fn read(&mut self, buf: &mut [u8]) -> impl std::future::Future<Output = zlink_core::Result<usize>> {
        let st = self.0.clone();
        poll_fn(move |_| {
            let mut st = st.borrow_mut();
            let extent = st.pos + buf.len();
            if extent > st.max_extent {
                st.max_extent = extent;
            }
            let left = st.data.len() - st.pos;
            if left == 0 {
                return if st.eof { Poll::Ready(Ok(0)) } else { Poll::Pending };
            }
            if st.pause_at.is_some_and(|p| st.pos >= p) {
                st.pause_at = None;
                st.paused_now = true;
                return Poll::Pending;
            }
            let n = left.min(buf.len()).min(st.chunk);
            if n == 0 {
                return Poll::Ready(Ok(0));
            }
            let pos = st.pos;
            buf[..n].copy_from_slice(&st.data[pos..pos + n]);
            st.pos += n;
            st.reads += 1;
            Poll::Ready(Ok(n))
        })
    }
}
impl WriteHalf for NullWrite {
    async fn write(&mut self, _buf: &[u8]) -> zlink_core::Result<()> {
        Ok(())
    }
}
impl Socket for BulkSocket {
    type ReadHalf = BulkRead;
    type WriteHalf = NullWrite;
    fn split(self) -> (BulkRead, NullWrite) {
        (self.0, NullWrite)
    }
}

#[derive(Debug)]
enum RxOutcome {
    Value(Option<usize>), // length of the decoded string parameter, None = no parameters
    Overflow,
    Eof,
    DecodeErr,
    Pending,
    Other(String),
}

fn run_in(case: &InCase) -> (Vec<RxOutcome>, usize, usize) {
    let mut data = Vec::new();
    for _ in 0..case.prefix_frames {
        data.extend_from_slice(b"{}\0");
    }
    data.extend_from_slice(&frame_of(case.size));
    if case.terminated {
        data.push(0);
    }
    let st = Rc::new(RefCell::new(BulkState {
        data,
        chunk: case.chunk.max(1),
        eof: case.eof,
        pause_at: case.abandon_at,
        ..Default::default()
    }));
    let conn = Connection::new(BulkSocket(BulkRead(st.clone())));
    let (mut rc, _wc) = conn.split();
    let mut out = Vec::new();
    let budget = 64;
    // The buffer length is only inferable until the first result: afterwards the connection may
    // have reset its cursors.
    let mut extent_first = 0;
    for round in 0..case.prefix_frames + 2 {
        if round == 1 {
            extent_first = st.borrow().max_extent;
        }
        let mut r = run_until_ready(rc.receive_reply::<serde_json::Value, ErrNone>(), if case.abandon_at.is_some() { 1 } else { budget });
        if r.is_none() && case.abandon_at.is_some() {
            // the future was dropped at the pause (or at any other Pending): start a new receive
            st.borrow_mut().paused_now = false;
            r = run_until_ready(rc.receive_reply::<serde_json::Value, ErrNone>(), budget);
        }
        let o = match r {
            None => RxOutcome::Pending,
            Some(Ok(Ok(rep))) => RxOutcome::Value(match rep.parameters() {
                Some(serde_json::Value::String(s)) if s.bytes().all(|b| b == b'a') => Some(s.len()),
                Some(other) => {
                    out.push(RxOutcome::Other(format!("corrupted parameters {}", vcommon::ev::truncate(&other.to_string(), 80))));
                    break;
                }
                None => None,
            }),
            Some(Ok(Err(e))) => RxOutcome::Other(format!("method error {e:?}")),
            Some(Err(zlink_core::Error::BufferOverflow)) => RxOutcome::Overflow,
            Some(Err(zlink_core::Error::UnexpectedEof)) => RxOutcome::Eof,
            Some(Err(zlink_core::Error::Json(_))) => RxOutcome::DecodeErr,
            Some(Err(e)) => RxOutcome::Other(format!("{e:?}")),
        };
        let stop = !matches!(o, RxOutcome::Value(_) | RxOutcome::DecodeErr);
        out.push(o);
        if stop {
            break;
        }
    }
    let st = st.borrow();
    if out.len() <= 1 {
        extent_first = st.max_extent;
    }
    (out, st.pos, if case.prefix_frames == 0 { extent_first } else { 0 })
}

fn judge_in(case: &InCase, stats: &mut Stats) -> CaseResult {
    let l = limit();
    let occupied = case.prefix_frames * 3 + case.size + case.terminated as usize;
    let near_step = {
        let r = (case.size + 1) % STEP;
        r <= 2 || r >= STEP - 2
    };
    let near_limit = occupied + 600 >= l && occupied <= l + 600;
    if near_step || near_limit || occupied > l {
        stats.nontrivial_hash(hash_of(&("in", case.size, case.chunk, case.prefix_frames, case.terminated, case.eof)));
    }
    if near_step {
        stats.class("in:size-within-2-of-a-256-step");
    }
    if near_limit {
        stats.class("in:within-600-of-limit");
    }
    if case.prefix_frames > 0 {
        stats.class("in:behind-pipelined-prefix");
    }
    if case.abandon_at.is_some() {
        stats.class("in:receive-abandoned-mid-frame");
    }
    let (out, consumed, extent) = run_in(case);
    let fail = |sig: &str, msg: String| {
        Err(Fail::new(sig, format!("limit {l}, {case:?}: {msg}; results {out:?}, consumed {consumed} bytes, buffer extent {extent}")))
    };
    // the limit is "the upper bound on either buffer" (anchor of the property)
    if extent > l {
        return fail("in-buffer-exceeds-limit", format!("receive buffer grew to {extent} > limit"));
    }
    let expect_value = |i: usize| -> Option<usize> {
        if i < case.prefix_frames {
            None
        } else if case.size >= 17 {
            Some(case.size - 17)
        } else {
            None
        }
    };
    if !case.terminated {
        // Unterminated stream: never a message for the last frame.
        let last = out.last();
        if occupied > l {
            stats.class("in:unterminated-over-limit");
            return match last {
                Some(RxOutcome::Overflow) => Ok(()),
                _ => fail("in-unterminated-not-refused", "an unterminated stream beyond the limit must give BufferOverflow".into()),
            };
        }
        if occupied < l {
            stats.class("in:unterminated-under-limit");
            let want_eof = case.eof;
            return match last {
                Some(RxOutcome::Eof) if want_eof => Ok(()),
                Some(RxOutcome::Pending) if !want_eof => Ok(()),
                _ => fail("in-unterminated-under-limit", "an unterminated stream below the limit must wait (or report end-of-stream when the peer closed)".into()),
            };
        }
        stats.class("in:unterminated-at-limit(not judged)");
        return Ok(());
    }
    if occupied < l {
        stats.class("in:under-limit");
        // every frame delivered intact, in order
        let n = case.prefix_frames + 1;
        if out.len() < n {
            return fail("in-under-limit-refused", format!("{} of {n} frames delivered", out.len()));
        }
        for i in 0..n {
            let ok = match (&out[i], case.size) {
                (RxOutcome::DecodeErr, 0..=1) if i == case.prefix_frames => true,
                (RxOutcome::Value(v), _) => *v == expect_value(i),
                _ => false,
            };
            if !ok {
                return fail("in-under-limit-refused", format!("result {i} is {:?}", out[i]));
            }
        }
        return Ok(());
    }
    if occupied == l {
        stats.class(match out.last() {
            Some(RxOutcome::Overflow) => "in:at-limit->overflow(not judged)",
            _ => "in:at-limit->accepted(not judged)",
        });
        return Ok(());
    }
    // occupied > l
    if case.prefix_frames == 0 {
        stats.class("in:over-limit");
        return match out.first() {
            Some(RxOutcome::Overflow) => Ok(()),
            _ => fail("in-over-limit-accepted", "a single frame larger than the limit must give BufferOverflow".into()),
        };
    }
    stats.class("in:burst-over-limit(not judged)");
    Ok(())
}

// ---------------------------------------------------------------------------------------------
// Outbound

#[derive(Debug, Clone, Serialize, Deserialize)]
pub struct OutCase {
    pub build: String,
    /// Fill position when the message under test is enqueued (0 = empty queue).
    pub fill: usize,
    /// Encoded length of the message under test.
    pub len: usize,
    pub kind: MsgKind,
    /// the message under test is handed to send_* (enqueue + flush) although a message is already
    /// enqueued in front of it; otherwise it is enqueued behind it (calls) / sent (empty queue)
    #[serde(default)]
    pub send: bool,
    /// encoded lengths of messages that were sent (and flushed) on the same connection before the
    /// case proper: a used connection must enforce the same limit as a fresh one
    #[serde(default)]
    pub history: Vec<usize>,
}

const BASE_FLAGS: u8 = 0;

fn msg_of_len(kind: MsgKind, len: usize) -> Option<Msg> {
    // ReplyShapes with a 200-byte serialize_bytes payload (an encoder that over-estimates such a
    // value asks for room the frame does not need)
    let flags = if kind == MsgKind::ReplyShapes { 15 } else { BASE_FLAGS };
    let base = Msg::Ok { kind, flags, pad: 0 }.encoded_len()?;
    if len < base {
        return None;
    }
    Some(Msg::Ok { kind, flags, pad: len - base })
}

fn op_for(kind: MsgKind, enqueue: bool) -> SendOp {
    let ops = kind.ops();
    if enqueue && ops.contains(&SendOp::Enqueue) {
        SendOp::Enqueue
    } else {
        *ops.last().unwrap()
    }
}

fn judge_out(case: &OutCase, stats: &mut Stats) -> CaseResult {
    let l = limit();
    let total = case.fill + case.len + 1;
    let near_step = {
        let r = total % STEP;
        r <= 2 || r >= STEP - 2
    };
    let near_limit = total + 600 >= l && total <= l + 600;
    if near_step || near_limit || total > l {
        stats.nontrivial_hash(hash_of(&("out", case.fill, case.len, case.kind)));
    }
    if near_step {
        stats.class("out:end-within-2-of-a-256-step");
    }
    if near_limit {
        stats.class("out:within-600-of-limit");
    }
    if case.fill > 0 {
        stats.class("out:behind-enqueued-message");
    }
    if case.fill + 2 * STEP + 40 >= l && case.fill > 0 {
        stats.class("out:queue-already-within-two-steps-of-the-limit");
    }
    let Some(msg) = msg_of_len(case.kind, case.len) else {
        return Ok(());
    };
    let first = if case.fill > 0 {
        match msg_of_len(MsgKind::CallEcho, case.fill - 1) {
            Some(m) => Some(m),
            None => return Ok(()),
        }
    } else {
        None
    };
    let (sock, handle) = SimSocket::new();
    let mut conn = Connection::new(sock);
    let fail = |sig: &str, m: String| Err(Fail::new(sig, format!("limit {l}, {case:?} (total {total}): {m}")));
    let wc = conn.write_mut();
    for (i, &h) in case.history.iter().enumerate() {
        let Some(m) = msg_of_len(MsgKind::CallEcho, h) else { return Ok(()) };
        match run_until_ready(m.submit(wc, SendOp::SendCall), 4) {
            Some(Ok(())) => {}
            other => return fail("out-setup", format!("sending message {i} of the history gave {other:?}")),
        }
    }
    let history_writes = handle.writes().len();
    if !case.history.is_empty() {
        stats.class("out:used-connection(history of sends)");
    }
    if let Some(f) = &first {
        match run_until_ready(f.submit(wc, SendOp::Enqueue), 4) {
            Some(Ok(())) => {}
            other => return fail("out-setup", format!("enqueueing the first message gave {other:?}")),
        }
    }
    // The message under test is enqueued when there is something in front of it (so both leave in
    // one write), otherwise sent directly.
    let op = op_for(case.kind, first.is_some() && !case.send);
    if first.is_some() && case.send {
        stats.class("out:send-behind-enqueued-message");
    }
    let r = run_until_ready(msg.submit(wc, op), 4);
    let r = match r {
        Some(r) => r,
        None => return fail("out-pending", "send stayed pending on an always-ready transport".into()),
    };
    // a refused message "sends nothing": not its own bytes, and not what was queued in front of it
    let writes_at_refusal = handle.writes().len() - history_writes;
    if r.is_err() && writes_at_refusal > 0 {
        return fail("out-refusal-wrote-to-the-transport", format!("the refused send returned {r:?} after {writes_at_refusal} transport write(s)"));
    }
    let flushed = run_until_ready(wc.flush(), 4);
    if !matches!(flushed, Some(Ok(()))) {
        return fail("out-flush", format!("flush gave {flushed:?}"));
    }
    let small = Msg::Ok { kind: MsgKind::CallPing, flags: 2, pad: 0 };
    let after = run_until_ready(small.submit(wc, SendOp::SendCall), 4);
    let writes = handle.writes()[history_writes..].to_vec();
    if writes.iter().any(|w| w.len() > l) {
        return fail("out-write-exceeds-limit", format!("a transport write of {} bytes", writes.iter().map(|w| w.len()).max().unwrap()));
    }
    let mut expect_accept: Vec<Vec<u8>> = Vec::new();
    let mut expect_refuse: Vec<Vec<u8>> = Vec::new();
    {
        let mut w = Vec::new();
        if let Some(f) = &first {
            w.extend(f.expected().unwrap());
            w.push(0);
        }
        if !w.is_empty() {
            expect_refuse.push(w.clone());
        }
        w.extend(msg.expected().unwrap());
        w.push(0);
        expect_accept.push(w);
        let mut s = small.expected().unwrap();
        s.push(0);
        expect_accept.push(s.clone());
        expect_refuse.push(s);
    }
    let accepted_ok = matches!(r, Ok(())) && matches!(after, Some(Ok(()))) && writes == expect_accept;
    let refused_ok = matches!(r, Err(zlink_core::Error::BufferOverflow))
        && matches!(after, Some(Ok(())))
        && writes == expect_refuse;
    let describe = || {
        format!(
            "send result {r:?}, later small send {after:?}, {} transport writes of lengths {:?}",
            writes.len(),
            writes.iter().map(|w| w.len()).collect::<Vec<_>>()
        )
    };
    if total < l {
        stats.class("out:under-limit");
        if !accepted_ok {
            return fail("out-under-limit-refused-or-corrupted", describe());
        }
    } else if total > l {
        stats.class("out:over-limit");
        if !refused_ok {
            return fail("out-over-limit-not-cleanly-refused", describe());
        }
    } else {
        stats.class(if accepted_ok { "out:at-limit->accepted(not judged)" } else { "out:at-limit->refused(not judged)" });
        if !accepted_ok && !refused_ok {
            return fail("out-at-limit-corrupted", describe());
        }
    }
    Ok(())
}

// ---------------------------------------------------------------------------------------------
// Case lists

#[derive(Debug, Clone, Serialize, Deserialize)]
pub enum Case {
    In(InCase),
    Out(OutCase),
}

fn judge(case: &Case, stats: &mut Stats) -> CaseResult {
    stats.eval();
    match case {
        Case::In(c) => judge_in(c, stats),
        Case::Out(c) => judge_out(c, stats),
    }
}

/// A deterministic pseudo-random stream for "random elsewhere" sizes (pure function of the seed).
fn mix(seed: u64, i: u64) -> u64 {
    let mut z = seed ^ i.wrapping_mul(0x9E3779B97F4A7C15);
    z = (z ^ (z >> 30)).wrapping_mul(0xBF58476D1CE4E5B9);
    z = (z ^ (z >> 27)).wrapping_mul(0x94D049BB133111EB);
    z ^ (z >> 31)
}

fn small_cases(ctx: &Ctx) -> Vec<Case> {
    let l = limit();
    let b = "small".to_string();
    let mut v = Vec::new();
    let thorough = ctx.tier == Tier::Thorough;
    // inbound: every size, several chunk sizes
    let chunks: &[usize] = if thorough { &[256, 255, 257, 100, 7, 1] } else { &[256, 255, 100, 7] };
    for size in 1..=l + 2 * STEP {
        for &chunk in chunks {
            if chunk == 1 && !(size % STEP <= 2 || size % STEP >= STEP - 2 || size + 600 >= l) {
                continue;
            }
            v.push(Case::In(InCase { build: b.clone(), size, chunk, prefix_frames: 0, terminated: true, eof: true, abandon_at: None }));
        }
        // unterminated: stops short / runs over
        let chunk = chunks[size % chunks.len()];
        v.push(Case::In(InCase { build: b.clone(), size, chunk, prefix_frames: 0, terminated: false, eof: size % 2 == 0, abandon_at: None }));
    }
    // a receive abandoned while a frame close to the limit is arriving
    for occupied in l.saturating_sub(700)..l + 300 {
        if occupied < 40 {
            continue;
        }
        let size = occupied - 1;
        for at in [occupied - 30, l.saturating_sub(STEP) + 1, l.saturating_sub(2 * STEP) + 7, occupied / 2] {
            if at < occupied {
                v.push(Case::In(InCase { build: b.clone(), size, chunk: [256usize, 100, 31][occupied % 3], prefix_frames: 0, terminated: true, eof: true, abandon_at: Some(at) }));
            }
        }
    }
    // inbound behind a pipelined prefix (random fill positions)
    let n_prefix = if thorough { 40_000 } else { 6_000 };
    for i in 0..n_prefix {
        let r = mix(ctx.seed, i);
        let prefix_frames = 1 + (r % 40) as usize;
        let size = 1 + ((r >> 8) as usize % (l + STEP));
        let chunk = [256usize, 255, 100, 31][(r >> 40) as usize % 4];
        v.push(Case::In(InCase { build: b.clone(), size, chunk, prefix_frames, terminated: true, eof: true, abandon_at: None }));
    }
    // outbound from an empty queue
    let kinds = [MsgKind::CallEcho, MsgKind::ReplyOpt, MsgKind::ErrWorse, MsgKind::ReplyValue, MsgKind::CallPut, MsgKind::ReplyShapes];
    for len in 1..=l + 2 * STEP {
        let r = len % STEP;
        let near = r <= 3 || r >= STEP - 3 || len + 600 >= l;
        if near || thorough || len % 7 == 0 {
            let kind = kinds[len % kinds.len()];
            v.push(Case::Out(OutCase { build: b.clone(), fill: 0, len, kind, send: false, history: vec![] }));
        }
    }
    // outbound behind an enqueued message: the end position sweeps the limit and the steps
    let fills: &[usize] = if thorough { &[40, 255, 256, 257, 1000, 5000, 12_345, 20_000] } else { &[40, 256, 257, 5000] };
    for &fill in fills {
        for total in (fill + 60)..=l + STEP + 40 {
            let r = total % STEP;
            let near = r <= 2 || r >= STEP - 2 || total + 300 >= l;
            if near || (thorough && total % 5 == 0) {
                let len = total - fill - 1;
                v.push(Case::Out(OutCase { build: b.clone(), fill, len, kind: MsgKind::CallEcho, send: false, history: vec![] }));
                // the same through send_* (replies / errors / calls) behind the enqueued call; also a
                // message that exceeds the limit all on its own
                let kind = kinds[total % kinds.len()];
                v.push(Case::Out(OutCase { build: b.clone(), fill, len, kind, send: true, history: vec![] }));
                if total % 4 == 0 && total > l {
                    v.push(Case::Out(OutCase { build: b.clone(), fill, len: l + (total % 300), kind, send: true, history: vec![] }));
                }
            }
        }
    }
    // a queue that already reaches to within two steps of the limit: a further small call is
    // accepted exactly when it still fits
    let base = Msg::Ok { kind: MsgKind::CallEcho, flags: BASE_FLAGS, pad: 0 }.encoded_len().unwrap_or(64);
    for fill in l.saturating_sub(2 * STEP + 40)..=l.saturating_sub(base + 1) {
        if !thorough && fill % 3 != 0 && fill + STEP + 4 < l {
            continue;
        }
        let mut totals: Vec<usize> = vec![fill + base + 1, fill + base + 2, l - 2, l - 1, l + 1, l + 2, l + 40];
        totals.sort_unstable();
        totals.dedup();
        for total in totals {
            if total > fill + base {
                v.push(Case::Out(OutCase { build: b.clone(), fill, len: total - fill - 1, kind: MsgKind::CallEcho, send: total % 2 == 0 && total % 3 == 0, history: vec![] }));
            }
        }
    }
    // used connections: whatever earlier traffic did to the write buffer (grown, possibly
    // reclaimed), the same limit applies afterwards
    let histories: Vec<Vec<usize>> = {
        let mut h: Vec<Vec<usize>> = vec![vec![713, 13], vec![600], vec![1300, 5], vec![2400, 10, 10], vec![5000, 40, 700], vec![l - 700, 12], vec![300, 300, 300], vec![12_345, 77, 3000, 9]];
        let extra = if thorough { 40 } else { 8 };
        for i in 0..extra {
            let r = mix(ctx.seed ^ 0x4157, i);
            h.push((0..1 + (r % 4) as usize).map(|k| 60 + (mix(r, k as u64) as usize) % [500usize, 3000, l - 100][(r >> 8) as usize % 3]).collect());
        }
        h
    };
    for (hi, h) in histories.iter().enumerate() {
        let span: usize = if thorough { 600 } else { 300 };
        for total in l - span..=l + span {
            if !thorough && (total + hi) % 2 == 1 && total + 8 < l {
                continue;
            }
            let kind = kinds[(total + hi) % kinds.len()];
            v.push(Case::Out(OutCase { build: b.clone(), fill: 0, len: total - 1, kind, send: false, history: h.clone() }));
            if total % 3 == 0 {
                v.push(Case::Out(OutCase { build: b.clone(), fill: 257, len: total - 258, kind: MsgKind::CallEcho, send: total % 2 == 0, history: h.clone() }));
            }
        }
        // and the steps far below the limit still work
        for total in [256usize, 257, 511, 512, 513, 1024, 4096, 4097] {
            v.push(Case::Out(OutCase { build: b.clone(), fill: 0, len: total - 1, kind: MsgKind::CallEcho, send: false, history: h.clone() }));
        }
    }
    v
}

fn prod_cases() -> Vec<Case> {
    let l = PROD_LIMIT;
    let b = "prod".to_string();
    let mut v = Vec::new();
    // occupied = size + 1
    for occupied in [l - 257, l - 256, l - 2, l - 1, l, l + 1, l + 300] {
        v.push(Case::In(InCase { build: b.clone(), size: occupied - 1, chunk: 256, prefix_frames: 0, terminated: true, eof: true, abandon_at: None }));
    }
    v.push(Case::In(InCase { build: b.clone(), size: l + 4096, chunk: 255, prefix_frames: 0, terminated: false, eof: false, abandon_at: None }));
    v.push(Case::In(InCase { build: b.clone(), size: l - 4096, chunk: 256, prefix_frames: 0, terminated: false, eof: true, abandon_at: None }));
    v
}

fn run_cases(ctx: &Ctx, lane: &str, cases: &[Case]) -> (Stats, Vec<Violation>) {
    par_enumerate(ctx, lane, cases.len() as u64, |i, stats| {
        let case = &cases[i as usize];
        if i % 9973 == 5 {
            stats.sample(|| serde_json::to_value(case).unwrap());
        }
        match judge(case, stats) {
            Ok(()) => vec![],
            Err(f) => vec![(f, serde_json::to_value(case).unwrap())],
        }
    })
}

#[derive(Serialize, Deserialize)]
struct ChildOut {
    limit: usize,
    stats: Stats,
    violations: Vec<Violation>,
}

pub fn run(ctx: &Ctx) -> i32 {
    if let Ok(path) = std::env::var("VERIF_C17_CHILD") {
        // Child: the small-limit build.
        let cases = small_cases(ctx);
        let (stats, violations) = run_cases(ctx, "small-limit", &cases);
        let out = ChildOut { limit: limit(), stats, violations };
        std::fs::write(&path, serde_json::to_vec(&out).unwrap()).expect("write child result");
        return 0;
    }
    if limit() != PROD_LIMIT {
        eprintln!("C17: the main harness build has limit {} (expected the production limit)", limit());
        return 2;
    }
    let Ok(child_bin) = std::env::var("VERIF_VCHECK_SMALLBUF") else {
        eprintln!("C17: VERIF_VCHECK_SMALLBUF is not set (run through ./check)");
        return 2;
    };
    let dir = verif_root().join("work").join("C17");
    let _ = std::fs::create_dir_all(&dir);
    let child_out = dir.join(format!("small-{}.json", std::process::id()));
    let child = std::process::Command::new(&child_bin)
        .arg("C17")
        .arg(ctx.tier.name())
        .arg("--seed")
        .arg(ctx.seed.to_string())
        .env("VERIF_C17_CHILD", &child_out)
        .spawn();
    let mut child = match child {
        Ok(c) => c,
        Err(e) => {
            eprintln!("C17: cannot start {child_bin}: {e}");
            return 2;
        }
    };
    // Production-limit cases meanwhile (each moves ~100 MiB; a few threads are enough).
    let cases = prod_cases();
    let (mut stats, mut viol) = run_cases(ctx, "production-limit", &cases);
    let status = child.wait();
    if !matches!(status, Ok(s) if s.success()) {
        eprintln!("C17: the small-limit run did not finish ({status:?}); inconclusive");
        return 2;
    }
    let small: ChildOut = match std::fs::read(&child_out).ok().and_then(|b| serde_json::from_slice(&b).ok()) {
        Some(c) => c,
        None => {
            eprintln!("C17: cannot read the small-limit result; inconclusive");
            return 2;
        }
    };
    let _ = std::fs::remove_file(&child_out);
    if small.limit >= PROD_LIMIT {
        eprintln!("C17: the small-limit build reports limit {}; hook not active", small.limit);
        return 2;
    }
    stats.merge(small.stats);
    viol.extend(small.violations);
    Report::new(RULE)
        .assume("the read half never returns more than the buffer it is offered; buffer length is inferred as bytes delivered so far + length of the offered buffer (exact while no frame boundary reset the cursors, i.e. for the single-frame cases it is judged on)")
        .assume("the small-limit build differs from production only in the value of the limit constant (cfg zlink_verif_small_buf)")
        .assume("outbound sizes near the production limit are not reachable (growth re-serialises from scratch every 256 bytes: ~4e13 byte writes); outbound is covered under the lowered limit only")
        .exhaustive(true)
        .extra("small_limit", json!(small.limit))
        .extra("production_limit", json!(PROD_LIMIT))
        .extra("exhaustive_note", json!("inbound: every frame size 1..=limit+512 under the lowered limit with each chunk size; outbound: every size within 3 of a growth step or within 600 of the limit (every size in thorough)"))
        .finish(ctx, &stats, &viol, &[])
}

pub fn replay(_lane: &str, case: serde_json::Value) -> CaseResult {
    let case: Case = serde_json::from_value(case).map_err(|e| Fail::new("bad-replay", e.to_string()))?;
    let build = match &case {
        Case::In(c) => c.build.clone(),
        Case::Out(c) => c.build.clone(),
    };
    let is_small = limit() != PROD_LIMIT;
    if (build == "small") != is_small {
        // Wrong build for this case: hand over to the other binary.
        let Ok(bin) = std::env::var("VERIF_VCHECK_SMALLBUF") else {
            return Err(Fail::new("infra", "replaying a small-limit case needs VERIF_VCHECK_SMALLBUF (run through ./check --replay)"));
        };
        let tmp = verif_root().join("work").join("C17");
        let _ = std::fs::create_dir_all(&tmp);
        let path = tmp.join(format!("replay-{}.json", std::process::id()));
        std::fs::write(&path, serde_json::to_vec(&json!({"property": "C17", "lane": "small-limit", "case": case})).unwrap()).unwrap();
        let out = std::process::Command::new(bin).arg("--replay").arg(&path).output();
        let _ = std::fs::remove_file(&path);
        return match out {
            Ok(o) => {
                let text = String::from_utf8_lossy(&o.stdout).to_string();
                print!("{text}");
                if o.status.success() {
                    Ok(())
                } else {
                    Err(Fail::new("replayed-in-small-build", text.lines().next().unwrap_or("violation").to_string()))
                }
            }
            Err(e) => Err(Fail::new("infra", e.to_string())),
        };
    }
    let mut stats = Stats::default();
    judge(&case, &mut stats)
}
