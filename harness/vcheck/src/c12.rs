//! C12 — proxy-generated methods put exactly the declared call on the wire.
//!
//! A corpus of proxy traits is generated from the seed, written into the `corp12` crate, compiled
//! (diagnostics are mapped back to the generated trait) and run; the runner only reports frames
//! and results, the expectations are computed here from the declarations.

use std::{
    collections::{BTreeMap, BTreeSet},
    path::PathBuf,
    process::Command,
};

use serde_json::{json, Map, Value};
use vcommon::{
    drv::Fail,
    ev::{hash_of, truncate, verif_root, Ctx, Report, Stats, Tier, Violation},
};

pub const RULE: &str = "corpus = N generated proxy traits (quick 120, thorough 600), each with 1..5 \
methods: names of 1..4 words incl. digit words and raw identifiers, optional rename, 0..4 \
parameters over {i32, u64, bool, f64, &str, String, Option<&str>, Option<i32>, Option<String>, \
Option<Vec<i64>>, &[i64], &[&str], Vec<String>, &St, generic T: Serialize + Debug (inline bound or \
where clause)} with elided or explicit lifetimes, optional parameter renames, `more` / `oneway`, \
outputs (), owned struct, borrowed struct; custom chain trait names. For every method x form \
{plain, chain_<name>, chain extension} x 3 argument tuples the frames captured from a scripted \
socket are compared with the call computed from the declaration: exactly one frame (for the chain \
extension: exactly one more frame after the starter call) equal as JSON to {method: \
'<interface>.<Pascal|rename>', parameters: {wire name: value, None omitted} (absent without \
arguments), more / oneway exactly when annotated}; for 5 scripted replies per method the plain \
form's result must equal the low-level receive_reply classification of the same frame, and \
streaming methods must yield one item per reply up to the final one. A trait the macro accepts \
but that does not compile is a violation. Non-trivial = a method with a renamed or Option \
parameter or a flag, exercised in a chain form; distinct by (trait source, method, form, tuple).";

// ---------------------------------------------------------------------------------------------
// tiny deterministic RNG (program generation; no shrinking through proptest here: the reported unit
// is one method of one trait, which is small already)

pub struct Rng(u64);
impl Rng {
    pub fn new(seed: u64) -> Self {
        Rng(seed ^ 0x9E3779B97F4A7C15)
    }
    pub fn next(&mut self) -> u64 {
        self.0 = self.0.wrapping_add(0x9E3779B97F4A7C15);
        let mut z = self.0;
        z = (z ^ (z >> 30)).wrapping_mul(0xBF58476D1CE4E5B9);
        z = (z ^ (z >> 27)).wrapping_mul(0x94D049BB133111EB);
        z ^ (z >> 31)
    }
    pub fn below(&mut self, n: usize) -> usize {
        (self.next() % n.max(1) as u64) as usize
    }
    pub fn chance(&mut self, percent: u64) -> bool {
        self.next() % 100 < percent
    }
    pub fn pick<'a, T>(&mut self, v: &'a [T]) -> &'a T {
        &v[self.below(v.len())]
    }
}

#[derive(Debug, Clone)]
struct PKind {
    /// type as written with elided lifetimes / with the explicit lifetime 'a
    elided: &'static str,
    explicit: &'static str,
    /// (argument expression, expected JSON; None = omitted)
    lits: [(&'static str, Option<&'static str>); 3],
    optional: bool,
    generic: bool,
    has_ref: bool,
}

fn kinds() -> Vec<PKind> {
    let k = |elided, explicit, lits, optional, generic, has_ref| PKind { elided, explicit, lits, optional, generic, has_ref };
    vec![
        k("i32", "i32", [("-5i32", Some("-5")), ("0i32", Some("0")), ("2147483647i32", Some("2147483647"))], false, false, false),
        k("u64", "u64", [("7u64", Some("7")), ("0u64", Some("0")), ("18446744073709551615u64", Some("18446744073709551615"))], false, false, false),
        k("bool", "bool", [("true", Some("true")), ("false", Some("false")), ("true", Some("true"))], false, false, false),
        k("f64", "f64", [("1.5f64", Some("1.5")), ("-0.25f64", Some("-0.25")), ("1e21f64", Some("1e21"))], false, false, false),
        k("&str", "&'a str", [("\"plain\"", Some("\"plain\"")), ("\"q\\\"uote\"", Some("\"q\\\"uote\"")), ("\"\\u{e9}\\n\"", Some("\"\\u00e9\\n\""))], false, false, true),
        k("String", "String", [("String::from(\"own\")", Some("\"own\"")), ("String::new()", Some("\"\"")), ("String::from(\"a/b\")", Some("\"a/b\""))], false, false, false),
        k("Option<&str>", "Option<&'a str>", [("Some(\"o\")", Some("\"o\"")), ("None", None), ("Some(\"\")", Some("\"\""))], true, false, true),
        k("Option<i32>", "Option<i32>", [("Some(3)", Some("3")), ("None", None), ("Some(-1)", Some("-1"))], true, false, false),
        k("Option<String>", "Option<String>", [("None", None), ("Some(String::from(\"s\"))", Some("\"s\"")), ("None", None)], true, false, false),
        k("Option<Vec<i64>>", "Option<Vec<i64>>", [("Some(vec![1i64, 2])", Some("[1,2]")), ("None", None), ("Some(vec![])", Some("[]"))], true, false, false),
        k("std::option::Option<bool>", "std::option::Option<bool>", [("None", None), ("Some(true)", Some("true")), ("Some(false)", Some("false"))], true, false, false),
        k("&[i64]", "&'a [i64]", [("&[1i64, 2, 3]", Some("[1,2,3]")), ("&[]", Some("[]")), ("&[-9i64]", Some("[-9]"))], false, false, true),
        k("&[&str]", "&'a [&'a str]", [("&[\"a\", \"b\"]", Some("[\"a\",\"b\"]")), ("&[]", Some("[]")), ("&[\"z\"]", Some("[\"z\"]"))], false, false, true),
        k("Vec<String>", "Vec<String>", [("vec![String::from(\"x\")]", Some("[\"x\"]")), ("vec![]", Some("[]")), ("vec![String::from(\"p\"), String::from(\"q\")]", Some("[\"p\",\"q\"]"))], false, false, false),
        k("&St", "&'a St", [("&St { a: 1, b: String::from(\"q\") }", Some("{\"a\":1,\"b\":\"q\"}")), ("&St { a: -2, b: String::new() }", Some("{\"a\":-2,\"b\":\"\"}")), ("&St { a: 0, b: String::from(\"z\") }", Some("{\"a\":0,\"b\":\"z\"}"))], false, false, true),
        k("T", "T", [("7u16", Some("7")), ("\"gen\"", Some("\"gen\"")), ("vec![1u8, 2]", Some("[1,2]"))], false, true, false),
    ]
}

#[derive(Debug, Clone)]
pub struct Param {
    name: String,
    rename: Option<String>,
    kind: usize,
}

#[derive(Debug, Clone, Copy, PartialEq, Eq)]
pub enum Out {
    Unit,
    Owned,
    Borrowed,
}

#[derive(Debug, Clone)]
pub struct Method {
    name: String,
    rename: Option<String>,
    more: bool,
    oneway: bool,
    params: Vec<Param>,
    out: Out,
    explicit_lifetime: bool,
    where_clause: bool,
}

#[derive(Debug, Clone)]
pub struct Trait {
    idx: usize,
    iface: String,
    chain_name: Option<String>,
    methods: Vec<Method>,
}

fn unraw(s: &str) -> &str {
    s.strip_prefix("r#").unwrap_or(s)
}

/// PascalCase of a snake_case Rust name (independent of the macro's helper).
fn pascal(name: &str) -> String {
    unraw(name)
        .split('_')
        .filter(|w| !w.is_empty())
        .map(|w| {
            let mut c = w.chars();
            let f = c.next().unwrap();
            f.to_uppercase().collect::<String>() + c.as_str()
        })
        .collect()
}

impl Method {
    fn wire_method(&self, iface: &str) -> String {
        format!("{iface}.{}", self.rename.clone().unwrap_or_else(|| pascal(&self.name)))
    }
    fn has_generic(&self, ks: &[PKind]) -> bool {
        self.params.iter().any(|p| ks[p.kind].generic)
    }
    fn chain_name(&self) -> String {
        format!("chain_{}", unraw(&self.name))
    }
    /// Expected call object for argument tuple `j`.
    fn expected_call(&self, iface: &str, j: usize, ks: &[PKind]) -> Value {
        let mut o = Map::new();
        o.insert("method".into(), json!(self.wire_method(iface)));
        if !self.params.is_empty() {
            let mut p = Map::new();
            for par in &self.params {
                if let Some(v) = ks[par.kind].lits[j].1 {
                    let wire = par.rename.clone().unwrap_or_else(|| unraw(&par.name).to_string());
                    p.insert(wire, serde_json::from_str(v).unwrap());
                }
            }
            o.insert("parameters".into(), Value::Object(p));
        }
        if self.more {
            o.insert("more".into(), json!(true));
        }
        if self.oneway {
            o.insert("oneway".into(), json!(true));
        }
        Value::Object(o)
    }
    fn args(&self, j: usize, ks: &[PKind]) -> String {
        self.params.iter().map(|p| ks[p.kind].lits[j].0).collect::<Vec<_>>().join(", ")
    }
    fn signature(&self, ks: &[PKind]) -> String {
        let mut attrs = Vec::new();
        if let Some(r) = &self.rename {
            attrs.push(format!("rename = \"{r}\""));
        }
        if self.more {
            attrs.push("more".into());
        }
        if self.oneway {
            attrs.push("oneway".into());
        }
        let attr = if attrs.is_empty() { String::new() } else { format!("    #[zlink({})]\n", attrs.join(", ")) };
        let mut generics = Vec::new();
        if self.explicit_lifetime {
            generics.push("'a".to_string());
        }
        let generic = self.has_generic(ks);
        if generic {
            generics.push(if self.where_clause { "T".into() } else { "T: Serialize + Debug".into() });
        }
        let g = if generics.is_empty() { String::new() } else { format!("<{}>", generics.join(", ")) };
        let params: Vec<String> = self
            .params
            .iter()
            .map(|p| {
                let k = &ks[p.kind];
                let ty = if self.explicit_lifetime { k.explicit } else { k.elided };
                let r = p.rename.as_ref().map(|r| format!("#[zlink(rename = \"{r}\")] ")).unwrap_or_default();
                format!("{r}{}: {ty}", p.name)
            })
            .collect();
        let out = match self.out {
            Out::Unit => "()",
            Out::Owned => "OutOwned",
            Out::Borrowed => "OutBorrowed<'_>",
        };
        let ret = if self.oneway {
            "zlink_core::Result<()>".to_string()
        } else if self.more {
            format!("zlink_core::Result<impl Stream<Item = zlink_core::Result<Result<{out}, ErrP>>>>")
        } else {
            format!("zlink_core::Result<Result<{out}, ErrP>>")
        };
        let wh = if generic && self.where_clause { "\n    where\n        T: Serialize + Debug" } else { "" };
        let sep = if params.is_empty() { "" } else { ", " };
        format!("{attr}    async fn {}{g}(&mut self{sep}{}) -> {ret}{wh};", self.name, params.join(", "))
    }
}

const WORDS: &[&str] = &["get", "set", "list", "info", "user", "x", "v2", "2fa", "url", "id", "item", "by", "name", "a", "io", "do", "all"];
const RAW_METHODS: &[&str] = &["r#move", "r#type", "r#match", "r#loop"];
const PARAM_NAMES: &[&str] = &["key", "value", "count", "flag", "name", "items", "the_key", "user_id", "x", "data2", "call", "params", "result", "r#type", "reply", "conn",
    // names a macro expansion is likely to use for its own locals
    "method", "parameters", "connection", "stream", "chain", "error", "out", "args", "this", "request", "item", "more", "oneway"];
const RENAMES: &[&str] = &["theKey", "user-id", "Type", "x.y", "UPPER", "k2"];
const METHOD_RENAMES: &[&str] = &["GetURL", "Custom", "X2", "lowercase", "DoIt"];

pub fn gen_trait(idx: usize, rng: &mut Rng, ks: &[PKind]) -> Trait {
    let n = 1 + rng.below(5);
    let mut names = BTreeSet::new();
    let mut methods = Vec::new();
    for _ in 0..n {
        let name = loop {
            let cand = if rng.chance(6) {
                rng.pick(RAW_METHODS).to_string()
            } else {
                let words = 1 + rng.below(4);
                let mut parts: Vec<&str> = vec![*rng.pick(WORDS)];
                while parts[0].as_bytes()[0].is_ascii_digit() {
                    parts[0] = *rng.pick(WORDS);
                }
                for _ in 1..words {
                    parts.push(*rng.pick(WORDS));
                }
                parts.join("_")
            };
            // the chain variant `chain_<name>` and Pascal names must stay distinct within a trait
            // Rust keywords, inherent methods of Connection (which would shadow the trait method), and
            // the methods of varlink_service::Proxy, which the generated driver has in scope to start
            // chains with (two traits with a method of the same name on one type are ambiguous in
            // Rust, E0034, whatever the macro does)
            if ["do", "as", "if", "in", "id", "read", "write", "split", "flush", "join", "new", "a", "get_info", "get_interface_description"].contains(&cand.as_str()) {
                continue;
            }
            if names.insert(pascal(&cand).to_lowercase()) {
                break cand;
            }
        };
        let oneway = rng.chance(12);
        let more = !oneway && rng.chance(18);
        let np = [0, 1, 1, 2, 2, 3, 4][rng.below(7)];
        let mut pnames = BTreeSet::new();
        let mut params = Vec::new();
        let mut have_generic = false;
        for _ in 0..np {
            let pname = loop {
                let c = rng.pick(PARAM_NAMES).to_string();
                if pnames.insert(unraw(&c).to_string()) {
                    break c;
                }
            };
            let mut kind = rng.below(ks.len());
            if ks[kind].generic && have_generic {
                kind = 0;
            }
            have_generic |= ks[kind].generic;
            let rename = if rng.chance(25) { Some(rng.pick(RENAMES).to_string()) } else { None };
            params.push(Param { name: pname, rename, kind });
        }
        // wire names must be distinct
        let mut wires = BTreeSet::new();
        for p in &mut params {
            let w = p.rename.clone().unwrap_or_else(|| unraw(&p.name).to_string());
            if !wires.insert(w) {
                p.rename = None;
                wires.insert(unraw(&p.name).to_string());
            }
        }
        let any_ref = params.iter().any(|p| ks[p.kind].has_ref);
        methods.push(Method {
            name,
            rename: if rng.chance(20) { Some(rng.pick(METHOD_RENAMES).to_string()) } else { None },
            more,
            oneway,
            params,
            out: if oneway { Out::Unit } else { [Out::Unit, Out::Owned, Out::Borrowed][rng.below(3)] },
            explicit_lifetime: any_ref && rng.chance(40),
            where_clause: rng.chance(40),
        });
    }
    // renamed methods must not collide either
    let mut seen = BTreeSet::new();
    for m in &mut methods {
        let w = m.rename.clone().unwrap_or_else(|| pascal(&m.name));
        if !seen.insert(w) {
            m.rename = None;
        }
    }
    Trait { idx, iface: format!("org.gen.t{idx}"), chain_name: if rng.chance(30) { Some(format!("T{idx}Ext")) } else { None }, methods }
}

/// Reply scripts for a (non-oneway) method: (frames, label).
fn reply_scripts(m: &Method) -> Vec<Vec<&'static str>> {
    let ok: &'static str = match m.out {
        Out::Unit => r#"{"parameters":{}}"#,
        Out::Owned => r#"{"parameters":{"x":4,"s":"res"}}"#,
        Out::Borrowed => r#"{"parameters":{"s":"borrowed","n":2}}"#,
    };
    let ok_cont: &'static str = match m.out {
        Out::Unit => r#"{"continues":true}"#,
        Out::Owned => r#"{"parameters":{"x":1,"s":"more"},"continues":true}"#,
        Out::Borrowed => r#"{"parameters":{"s":"more"},"continues":true}"#,
    };
    if m.more {
        vec![
            vec![ok],
            vec![ok_cont, ok_cont, ok],
            vec![ok_cont, r#"{"error":"org.gen.Worse","parameters":{"code":3}}"#],
            vec![r#"{"error":"org.gen.Bad"}"#],
            vec![ok_cont, r#"{"parameters":{"wrong":1}}"#],
        ]
    } else {
        vec![
            vec![ok],
            vec![r#"{"error":"org.gen.Bad"}"#],
            vec![r#"{"error":"org.gen.Worse","parameters":{"code":3}}"#],
            vec![r#"{"error":"io.other.Unknown"}"#],
            vec![r#"{"error":"org.varlink.service.InvalidParameter","parameters":{"parameter":"p"}}"#],
            vec![r#"{"parameters":{"wrong":1}}"#],
            vec![r#"{"continues":false}"#],
        ]
    }
}

fn rust_str_array(frames: &[&str]) -> String {
    format!("&[{}]", frames.iter().map(|f| format!("r#\"{f}\"#")).collect::<Vec<_>>().join(", "))
}

/// Source of one generated module.
pub fn render_trait(t: &Trait, ks: &[PKind]) -> String {
    let mut s = String::new();
    s.push_str("use crate::prelude::*;\n\n");
    let chain = t.chain_name.as_ref().map(|c| format!(", chain_name = \"{c}\"")).unwrap_or_default();
    s.push_str(&format!("#[proxy(interface = \"{}\", crate = \"zlink_core\"{chain})]\npub trait T{}Proxy {{\n", t.iface, t.idx));
    for m in &t.methods {
        s.push_str(&m.signature(ks));
        s.push('\n');
    }
    s.push_str("}\n\npub fn run(out: &mut Vec<Record>) {\n");
    let out_ty = |m: &Method| match m.out {
        Out::Unit => "()",
        Out::Owned => "OutOwned",
        Out::Borrowed => "OutBorrowed<'_>",
    };
    for (mi, m) in t.methods.iter().enumerate() {
        for j in 0..3 {
            let args = m.args(j, ks);
            let key = format!("t{}.m{mi}", t.idx);
            // plain form, first reply script (wire check) ...
            if m.oneway {
                s.push_str(&format!(
                    "    {{ let (mut conn, h) = new_conn(&[]); let r = fmt_oneway(block(conn.{}({args}))); out.push(Record {{ key: \"{key}.plain.a{j}.r0\".into(), frames: frames_of(&h), result: r, lowlevel: String::new() }}); }}\n",
                    m.name
                ));
            } else {
                let scripts = reply_scripts(m);
                for (ri, frames) in scripts.iter().enumerate() {
                    if j > 0 && ri > 0 {
                        continue; // reply mapping is exercised with the first argument tuple
                    }
                    let arr = rust_str_array(frames);
                    if m.more {
                        s.push_str(&format!(
                            "    {{ let (mut conn, h) = new_conn({arr}); let r = match block(conn.{}({args})) {{ Some(Ok(s)) => drain(s, {n}), Some(Err(_)) => \"fail\".to_string(), None => \"pending\".to_string() }}; let ll = lowlevel_stream::<{lo}, ErrP>({arr}, {unit}); out.push(Record {{ key: \"{key}.plain.a{j}.r{ri}\".into(), frames: frames_of(&h), result: r, lowlevel: ll }}); }}\n",
                            m.name,
                            n = frames.len(),
                            lo = match m.out { Out::Unit => "serde_json::Value", Out::Owned => "OutOwned", Out::Borrowed => "owned_twin::OutBorrowed" },
                            unit = m.out == Out::Unit,
                        ));
                    } else {
                        let ll = match m.out {
                            Out::Unit => "lowlevel_unit::<ErrP>(&mut c2)".to_string(),
                            _ => format!("lowlevel::<{}, ErrP>(&mut c2)", out_ty(m)),
                        };
                        s.push_str(&format!(
                            "    {{ let (mut conn, h) = new_conn({arr}); let r = fmt_plain(block(conn.{}({args}))); let (mut c2, _h2) = new_conn({arr}); let ll = {ll}; out.push(Record {{ key: \"{key}.plain.a{j}.r{ri}\".into(), frames: frames_of(&h), result: r, lowlevel: ll }}); }}\n",
                            m.name
                        ));
                    }
                }
            }
            // chain_<name> form
            if !m.oneway {
                s.push_str(&format!(
                    "    {{ let (mut conn, h) = new_conn(&[]); let r = {{ let c: zlink_core::Result<Chain<'_, SimSocket, serde_json::Value, ErrP>> = conn.{}({args}); match c {{ Ok(c) => match block(c.send()) {{ Some(Ok(_)) => \"sent\", Some(Err(_)) => \"fail\", None => \"pending\" }}, Err(_) => \"fail\" }} }}; out.push(Record {{ key: \"{key}.chain.a{j}.r0\".into(), frames: frames_of(&h), result: r.to_string(), lowlevel: String::new() }}); }}\n",
                    m.chain_name()
                ));
            }
            // chain extension form (behind the standard GetInfo starter)
            if !m.oneway && !m.more {
                s.push_str(&format!(
                    "    {{ let (mut conn, h) = new_conn(&[]); let r = {{ let c: zlink_core::Result<Chain<'_, SimSocket, serde_json::Value, ErrP>> = conn.chain_get_info(); match c.and_then(|c| c.{}({args})) {{ Ok(c) => match block(c.send()) {{ Some(Ok(_)) => \"sent\", Some(Err(_)) => \"fail\", None => \"pending\" }}, Err(_) => \"fail\" }} }}; out.push(Record {{ key: \"{key}.ext.a{j}.r0\".into(), frames: frames_of(&h), result: r.to_string(), lowlevel: String::new() }}); }}\n",
                    m.name
                ));
            }
        }
    }
    s.push_str("}\n");
    s
}

pub fn target_dir() -> PathBuf {
    std::env::current_exe().ok().and_then(|p| p.parent().and_then(|p| p.parent()).map(|p| p.to_path_buf())).unwrap_or_else(|| verif_root().join("harness/target"))
}

pub struct Build {
    pub ok: bool,
    /// generated module index -> first error message
    pub errors: BTreeMap<usize, String>,
    pub unmapped: Vec<String>,
}

pub fn build_corpus(krate: &str) -> Build {
    let out = Command::new("cargo")
        .current_dir(verif_root().join("harness"))
        .env("RUSTFLAGS", "--cfg zlink_verif")
        .env("CARGO_NET_OFFLINE", "true")
        .args(["build", "--release", "-q", "-p", krate, "--message-format=json", "--target-dir"])
        .arg(target_dir())
        .output();
    let Ok(out) = out else {
        return Build { ok: false, errors: BTreeMap::new(), unmapped: vec!["cannot run cargo".into()] };
    };
    let mut errors = BTreeMap::new();
    let mut unmapped = Vec::new();
    for line in String::from_utf8_lossy(&out.stdout).lines() {
        let Ok(v) = serde_json::from_str::<Value>(line) else { continue };
        if v["reason"] != "compiler-message" || v["message"]["level"] != "error" {
            continue;
        }
        let msg = v["message"]["message"].as_str().unwrap_or("").to_string();
        if msg.starts_with("aborting due to") || msg.starts_with("could not compile") {
            continue;
        }
        let code = v["message"]["code"]["code"].as_str().unwrap_or("").to_string();
        let mut idx = None;
        // only the primary span (and the macro invocation it expands from) names the culprit
        fn scan(spans: &Value, idx: &mut Option<usize>, top: bool) {
            for sp in spans.as_array().into_iter().flatten() {
                if top && sp["is_primary"] != true {
                    continue;
                }
                let f = sp["file_name"].as_str().unwrap_or("");
                if let Some(p) = f.rfind("gen-out/t") {
                    let rest = &f[p + 9..];
                    if let Some(n) = rest.strip_suffix(".rs").and_then(|n| n.parse().ok()) {
                        idx.get_or_insert(n);
                    }
                }
                if sp["expansion"].is_object() {
                    scan(&json!([sp["expansion"]["span"].clone()]), idx, false);
                }
            }
        }
        scan(&v["message"]["spans"], &mut idx, true);
        match idx {
            Some(i) => {
                errors.entry(i).or_insert(format!("{code} {msg}"));
            }
            None => unmapped.push(format!("{code} {msg}")),
        }
    }
    Build { ok: out.status.success(), errors, unmapped }
}

pub fn write_corpus(krate: &str, modules: &BTreeMap<usize, String>, skip: &BTreeSet<usize>) {
    let dir = verif_root().join("harness").join(krate).join("gen-out");
    let _ = std::fs::remove_dir_all(&dir);
    std::fs::create_dir_all(&dir).expect("create gen-out");
    let mut modrs = String::from("// generated by vcheck; do not edit\n");
    let mut calls = String::new();
    for (i, src) in modules {
        if skip.contains(i) {
            continue;
        }
        std::fs::write(dir.join(format!("t{i}.rs")), src).expect("write module");
        modrs.push_str(&format!("mod t{i};\n"));
        calls.push_str(&format!("    t{i}::run(out);\n"));
    }
    modrs.push_str(&format!("pub fn run_all(out: &mut Vec<crate::prelude::Record>) {{\n{calls}}}\n"));
    std::fs::write(dir.join("mod.rs"), modrs).expect("write mod.rs");
    if std::env::var_os("VERIF_KEEP_CORPUS").is_some() && skip.is_empty() {
        let keep = verif_root().join("work").join(format!("{krate}-corpus"));
        let _ = std::fs::remove_dir_all(&keep);
        let _ = Command::new("cp").arg("-r").arg(&dir).arg(&keep).status();
    }
}

pub fn restore_stub(krate: &str) {
    if std::env::var_os("VERIF_KEEP_CORPUS").is_some() {
        return;
    }
    let dir = verif_root().join("harness").join(krate).join("gen-out");
    let _ = std::fs::remove_dir_all(&dir);
    let _ = std::fs::create_dir_all(&dir);
    let _ = std::fs::write(dir.join("mod.rs"), "pub fn run_all(_out: &mut Vec<crate::prelude::Record>) {}\n");
}

fn sig_of_compile_error(msg: &str) -> String {
    let code = msg.split_whitespace().next().unwrap_or("");
    let text: String = msg.chars().filter(|c| c.is_ascii_alphanumeric() || *c == ' ').collect();
    let words: Vec<&str> = text.split_whitespace().skip(1).take(6).collect();
    format!("does-not-compile:{code}:{}", words.join("-"))
}

pub fn run(ctx: &Ctx) -> i32 {
    let ks = kinds();
    let n = ctx.tier.pick(120usize, 600);
    let mut rng = Rng::new(ctx.subseed("corpus", 0));
    let traits: Vec<Trait> = (0..n).map(|i| gen_trait(i, &mut rng, &ks)).collect();
    let modules: BTreeMap<usize, String> = traits.iter().map(|t| (t.idx, render_trait(t, &ks))).collect();
    let mut stats = Stats::default();
    let mut viol: Vec<Violation> = Vec::new();
    let mut skip = BTreeSet::new();
    let mut built = false;
    for round in 0..6 {
        write_corpus("corp12", &modules, &skip);
        if std::env::var_os("VERIF_KEEP_CORPUS").is_some() && round == 0 {
            let _ = std::fs::remove_dir_all(verif_root().join("work/C12-corpus"));
            let _ = Command::new("cp").arg("-r").arg(verif_root().join("harness/corp12/gen-out")).arg(verif_root().join("work/C12-corpus")).status();
        }
        let b = build_corpus("corp12");
        if b.ok {
            built = true;
            break;
        }
        if b.errors.is_empty() {
            eprintln!("C12: the corpus crate failed to build for a reason that is not in a generated trait (round {round}):");
            for m in b.unmapped.iter().take(5) {
                eprintln!("  {m}");
            }
            restore_stub("corp12");
            return 2;
        }
        for (i, msg) in b.errors {
            skip.insert(i);
            stats.class("trait-does-not-compile");
            viol.push(Violation {
                sig: sig_of_compile_error(&msg),
                lane: "compile".into(),
                case: json!({"kind": "compile", "idx": i, "module": modules[&i], "trait": modules[&i].split("pub fn run").next().unwrap_or(""), "error": msg}),
                message: format!("the macro accepted trait T{i}Proxy but the expansion does not compile: {msg}"),
            });
        }
    }
    if !built {
        eprintln!("C12: the corpus still does not build after removing the offending traits; inconclusive");
        restore_stub("corp12");
        return 2;
    }
    // run
    let out = Command::new(target_dir().join("release").join("corp12")).output();
    restore_stub("corp12");
    let Ok(out) = out else {
        eprintln!("C12: cannot run the corpus binary");
        return 2;
    };
    if !out.status.success() {
        // a panic inside generated proxy code
        viol.push(Violation {
            sig: "corpus-run-crashed".into(),
            lane: "run".into(),
            case: json!({"stderr": truncate(&String::from_utf8_lossy(&out.stderr), 2000)}),
            message: format!("the corpus binary exited with {:?}: {}", out.status.code(), truncate(&String::from_utf8_lossy(&out.stderr), 400)),
        });
    }
    let mut records: BTreeMap<String, Value> = BTreeMap::new();
    for line in String::from_utf8_lossy(&out.stdout).lines() {
        if let Ok(v) = serde_json::from_str::<Value>(line) {
            if let Some(k) = v["key"].as_str() {
                records.insert(k.to_string(), v.clone());
            }
        }
    }
    // judge
    let mut by_sig: BTreeMap<String, usize> = BTreeMap::new();
    // size sweep (hand-written trait in the runner's prelude): for every argument length the three
    // forms must put the declared call on the wire - the chain extension serialises it at a
    // non-zero buffer offset, so every alignment with the 256-byte steps is met
    if records.keys().any(|k| k.starts_with("sweep.")) {
        for len in 0..=600usize {
            let names = ["put.plain", "put.chain", "put.ext", "watch.plain", "watch.chain"];
            let expect: Vec<(&str, Vec<Value>)> = names.iter().map(|n| (*n, sweep_expect(len, n))).collect();
            for (name, want) in expect {
                stats.eval();
                stats.class("size-sweep");
                let k = format!("sweep.{name}.{len}");
                let got = sweep_frames(records.get(&k));
                let ok = got.as_ref() == Some(&want);
                if !ok {
                    let sig = format!("size-sweep:{name}");
                    let c = by_sig.entry(sig.clone()).or_insert(0);
                    *c += 1;
                    if *c <= 2 {
                        viol.push(Violation {
                            sig,
                            lane: "sweep".into(),
                            case: json!({"kind": "sweep", "len": len, "form": name}),
                            message: format!("SweepProxy, string argument of {len} bytes, form {name}: sent {}, declared {}", got.map(|g| truncate(&json!(g).to_string(), 300)).unwrap_or_else(|| "nothing (no record: the runner crashed before?)".into()), truncate(&json!(want).to_string(), 300)),
                        });
                    }
                }
            }
        }
    }
    for t in &traits {
        if skip.contains(&t.idx) {
            continue;
        }
        stats.class("traits-compiled");
        for (mi, m) in t.methods.iter().enumerate() {
            stats.class("methods");
            let interesting = m.more || m.oneway || m.params.iter().any(|p| p.rename.is_some() || ks[p.kind].optional);
            for j in 0..3 {
                let want = m.expected_call(&t.iface, j, &ks);
                let forms: Vec<(&str, usize)> = {
                    let mut f = vec![("plain", 0)];
                    if !m.oneway {
                        f.push(("chain", 0));
                    }
                    if !m.oneway && !m.more {
                        f.push(("ext", 1));
                    }
                    f
                };
                for (form, at) in forms {
                    let key = format!("t{}.m{mi}.{form}.a{j}.r0", t.idx);
                    stats.eval();
                    if interesting && form != "plain" {
                        stats.nontrivial_hash(hash_of(&(&modules[&t.idx], mi, form, j)));
                    }
                    stats.class(&format!("form:{form}"));
                    let fail = |sig: String, message: String, viol: &mut Vec<Violation>, by_sig: &mut BTreeMap<String, usize>| {
                        let c = by_sig.entry(sig.clone()).or_insert(0);
                        *c += 1;
                        if *c <= 3 {
                            viol.push(Violation {
                                sig,
                                lane: "wire".into(),
                                case: json!({"kind": "wire", "idx": t.idx, "module": modules[&t.idx], "key": key, "at": at, "want": want,
                                             "trait": modules[&t.idx].split("pub fn run").next().unwrap_or(""), "method": m.name, "form": form, "args": m.args(j, &ks)}),
                                message,
                            });
                        }
                    };
                    let Some(rec) = records.get(&key) else {
                        fail("record-missing".into(), format!("no record {key} (the runner crashed before it?)"), &mut viol, &mut by_sig);
                        continue;
                    };
                    let frames: Vec<&str> = rec["frames"].as_array().map(|a| a.iter().filter_map(|f| f.as_str()).collect()).unwrap_or_default();
                    if frames.len() != at + 1 {
                        fail(format!("{form}-form-frame-count"), format!("{}::{} ({form} form, args {}): expected {} frame(s), got {frames:?}", t.iface, m.name, m.args(j, &ks), at + 1), &mut viol, &mut by_sig);
                        continue;
                    }
                    let got: Value = serde_json::from_str(frames[at]).unwrap_or(Value::Null);
                    if got != want {
                        // classify the difference for the signature
                        let mut what = Vec::new();
                        if got["method"] != want["method"] {
                            what.push("method-name");
                        }
                        if got.get("more") != want.get("more") {
                            what.push("more-flag");
                        }
                        if got.get("oneway") != want.get("oneway") {
                            what.push("oneway-flag");
                        }
                        if got.get("parameters") != want.get("parameters") {
                            let gp = got.get("parameters").and_then(|p| p.as_object());
                            let wp = want.get("parameters").and_then(|p| p.as_object());
                            match (gp, wp) {
                                (Some(g), Some(w)) => {
                                    if g.values().any(|v| v.is_null()) && g.len() > w.len() {
                                        what.push("none-sent-as-null");
                                    }
                                    if g.keys().filter(|k| !w.contains_key(*k)).any(|k| m.params.iter().any(|p| unraw(&p.name) == k && p.rename.is_some())) {
                                        what.push("param-rename-ignored");
                                    }
                                    if what.is_empty() || !(what.contains(&"none-sent-as-null") || what.contains(&"param-rename-ignored")) {
                                        what.push("parameters");
                                    }
                                }
                                _ => what.push("parameters-presence"),
                            }
                        }
                        fail(
                            format!("{form}-form-call-differs:{}", what.join("+")),
                            format!("{}::{} ({form} form, args {}): sent {got}, declared {want}", t.iface, m.name, m.args(j, &ks)),
                            &mut viol,
                            &mut by_sig,
                        );
                    }
                }
            }
            // reply mapping (plain form, first tuple)
            if !m.oneway {
                for ri in 0..reply_scripts(m).len() {
                    let key = format!("t{}.m{mi}.plain.a0.r{ri}", t.idx);
                    let Some(rec) = records.get(&key) else { continue };
                    stats.eval();
                    stats.class("reply-mapping");
                    let (r, ll) = (rec["result"].as_str().unwrap_or(""), rec["lowlevel"].as_str().unwrap_or(""));
                    if r != ll {
                        let sig = format!("reply-mapping-differs:{}", if m.more { "stream" } else { "single" });
                        let c = by_sig.entry(sig.clone()).or_insert(0);
                        *c += 1;
                        if *c <= 3 {
                            viol.push(Violation {
                                sig,
                                lane: "reply".into(),
                                case: json!({"kind": "reply", "idx": t.idx, "module": modules[&t.idx], "key": key,
                                             "trait": modules[&t.idx].split("pub fn run").next().unwrap_or(""), "method": m.name, "replies": reply_scripts(m)[ri]}),
                                message: format!("{}::{} answered with {:?}: proxy gives {r:?}, the low-level receive classifies it as {ll:?}", t.iface, m.name, reply_scripts(m)[ri]),
                            });
                        }
                    }
                }
            }
        }
    }
    stats.samples.push(json!({"trait": truncate(modules[&0].split("pub fn run").next().unwrap_or(""), 900)}));
    if let Some(t) = traits.iter().find(|t| t.methods.iter().any(|m| m.more) && !skip.contains(&t.idx)) {
        stats.samples.push(json!({"trait": truncate(modules[&t.idx].split("pub fn run").next().unwrap_or(""), 900)}));
    }
    let _ = Tier::Quick;
    Report::new(RULE)
        .assume("expected frames are computed from the generated declaration by the harness (own snake->Pascal conversion); argument values come from fixed literal tables per parameter type")
        .assume("the reply classification reference is Connection::receive_reply with the method's declared output and error types (IgnoredAny for unit outputs)")
        .extra("traits", json!(n))
        .extra("traits_not_compiling", json!(skip.len()))
        .finish(ctx, &stats, &viol, &[])
}

/// Frames the size sweep's form `name` must send for a string argument of `len` bytes.
fn sweep_expect(len: usize, name: &str) -> Vec<Value> {
    let key: String = "abcdefghijklmnopqrstuvwxyz".chars().cycle().take(len).collect();
    let mut params = json!({"key": key});
    if len % 3 != 0 {
        params["theN"] = json!(len);
    }
    let put = json!({"method": "org.gen.sweep.Put", "parameters": params});
    let watch = json!({"method": "org.gen.sweep.Watch", "parameters": {"key": key}, "more": true});
    match name {
        "put.plain" | "put.chain" => vec![put],
        "put.ext" => vec![json!({"method": "org.varlink.service.GetInfo"}), put, json!({"method": "org.gen.sweep.Put", "parameters": {"key": "tail", "theN": 1}})],
        _ => vec![watch],
    }
}

fn sweep_frames(rec: Option<&Value>) -> Option<Vec<Value>> {
    rec.and_then(|r| r["frames"].as_array().map(|a| a.iter().map(|f| f.as_str().and_then(|s| serde_json::from_str(s).ok()).unwrap_or(Value::Null)).collect()))
}

pub fn replay(_lane: &str, case: Value) -> Result<(), Fail> {
    if case["kind"] == "sweep" {
        let (len, name) = (case["len"].as_u64().unwrap_or(0) as usize, case["form"].as_str().unwrap_or("").to_string());
        write_corpus("corp12", &BTreeMap::new(), &BTreeSet::new());
        let b = build_corpus("corp12");
        if !b.ok {
            restore_stub("corp12");
            return Err(Fail::new("infra", "the corpus runner does not build"));
        }
        let out = Command::new(target_dir().join("release").join("corp12")).output();
        restore_stub("corp12");
        let out = out.map_err(|e| Fail::new("infra", e.to_string()))?;
        let key = format!("sweep.{name}.{len}");
        let rec = String::from_utf8_lossy(&out.stdout).lines().filter_map(|l| serde_json::from_str::<Value>(l).ok()).find(|v| v["key"] == key.as_str());
        let (got, want) = (sweep_frames(rec.as_ref()), sweep_expect(len, &name));
        println!("record: {rec:?}");
        return if got.as_ref() == Some(&want) { Ok(()) } else { Err(Fail::new(&format!("size-sweep:{name}"), format!("sent {got:?}, declared {want:?}"))) };
    }
    // A replay case carries the complete generated module: it is rebuilt as a one-module corpus,
    // run, and the recorded record is judged again.
    let src = case["module"].as_str().ok_or_else(|| Fail::new("bad-replay", "no module source"))?;
    let idx = case["idx"].as_u64().unwrap_or(0) as usize;
    println!("{}", case["trait"].as_str().unwrap_or(""));
    let mut modules = BTreeMap::new();
    modules.insert(idx, src.to_string());
    write_corpus("corp12", &modules, &BTreeSet::new());
    let b = build_corpus("corp12");
    if !b.ok {
        restore_stub("corp12");
        let msg = b.errors.values().next().cloned().or(b.unmapped.first().cloned()).unwrap_or_default();
        return Err(Fail::new(&sig_of_compile_error(&msg), format!("does not compile: {msg}")));
    }
    let out = Command::new(target_dir().join("release").join("corp12")).output();
    restore_stub("corp12");
    let out = out.map_err(|e| Fail::new("infra", e.to_string()))?;
    if case["kind"] == "compile" {
        println!("(the trait compiles now)");
        return Ok(());
    }
    let key = case["key"].as_str().unwrap_or("");
    let rec = String::from_utf8_lossy(&out.stdout)
        .lines()
        .filter_map(|l| serde_json::from_str::<Value>(l).ok())
        .find(|v| v["key"] == key)
        .ok_or_else(|| Fail::new("record-missing", format!("no record {key}; stderr: {}", truncate(&String::from_utf8_lossy(&out.stderr), 300))))?;
    println!("record: {rec}");
    if case["kind"] == "reply" {
        if rec["result"] != rec["lowlevel"] {
            return Err(Fail::new("reply-mapping-differs", format!("proxy gives {}, low-level {}", rec["result"], rec["lowlevel"])));
        }
        return Ok(());
    }
    let at = case["at"].as_u64().unwrap_or(0) as usize;
    let frames: Vec<&str> = rec["frames"].as_array().map(|a| a.iter().filter_map(|f| f.as_str()).collect()).unwrap_or_default();
    if frames.len() != at + 1 {
        return Err(Fail::new("frame-count", format!("expected {} frame(s), got {frames:?}", at + 1)));
    }
    let got: Value = serde_json::from_str(frames[at]).unwrap_or(Value::Null);
    if got != case["want"] {
        return Err(Fail::new("call-differs", format!("sent {got}, declared {}", case["want"])));
    }
    Ok(())
}
