//! C04 — a reply carrying an `error` member is never reported to the caller as success.

use std::fmt::Debug;

use serde::Deserialize;
use serde_json::{json, Value};
use vcommon::{
    drv::{par_enumerate, CaseResult, Fail},
    ev::{hash_of, Ctx, Report, Stats},
    exec::run_until_ready,
    rx::{classify_reply, ref_reply, Expect, Outcome},
    sim::{ReadEv, SimSocket},
    types::*,
};
use zlink_core::{Call, Connection, Reply};

pub const RULE: &str = "cases = full cross product of reply frames from a grammar (error name: \
declared unit / declared struct / renamed-field variant / undeclared / each org.varlink.service \
error / unknown service error / non-string; parameters: absent, null, {}, right shape, wrong \
types, missing field, extra field, success-shaped, non-object; continues absent/true/false; \
optional unknown member; every member order; plus a sampled lane in which the same documents are re-spelled with \\uXXXX escapes in member names and string values and white space between tokens) x 5 parameter types x 3 error types, received through \
receive_reply and call_method. Oracle = the rules of the statement with serde_json::from_slice of \
the caller's types on the frame defining 'recognises'. Non-trivial = the frame has an `error` \
member and Reply<P> would decode the frame with that member removed; distinct by (frame, P, E).";

const ERROR_NAMES: &[Option<&str>] = &[
    None,
    Some("\"org.example.Bad\""),
    Some("\"org.example.Worse\""),
    Some("\"org.example.Renamed\""),
    Some("\"io.systemd.System\""),
    Some("\"org.example.Unknown\""),
    Some("\"org.varlink.service.InterfaceNotFound\""),
    Some("\"org.varlink.service.MethodNotFound\""),
    Some("\"org.varlink.service.MethodNotImplemented\""),
    Some("\"org.varlink.service.InvalidParameter\""),
    Some("\"org.varlink.service.PermissionDenied\""),
    Some("\"org.varlink.service.ExpectedMore\""),
    Some("\"org.varlink.service.Bogus\""),
    Some("\"\""),
    Some("7"),
    Some("null"),
    Some("{}"),
    Some("\"Bad\""),
];

const PARAMS: &[Option<&str>] = &[
    None,
    Some("null"),
    Some("{}"),
    Some(r#"{"code":3,"msg":"m"}"#),
    Some(r#"{"code":"x","msg":1}"#),
    Some(r#"{"code":3}"#),
    Some(r#"{"code":3,"msg":"m","extra":true}"#),
    Some(r#"{"theKey":"k","opt":null}"#),
    Some(r#"{"theKey":"k","opt":5}"#),
    Some(r#"{"the_key":"k"}"#),
    Some(r#"{"name":"a","n":1}"#),
    Some(r#"{"interface":"org.x"}"#),
    Some(r#"{"method":"org.x.Y"}"#),
    Some(r#"{"parameter":"p"}"#),
    Some(r#""str""#),
    Some("[1]"),
];

const CONTINUES: &[Option<&str>] = &[None, Some("true"), Some("false")];
const EXTRA: &[Option<&str>] = &[None, Some("1")];

fn permutations(n: usize) -> Vec<Vec<usize>> {
    fn rec(cur: &mut Vec<usize>, used: &mut Vec<bool>, out: &mut Vec<Vec<usize>>) {
        if cur.len() == used.len() {
            out.push(cur.clone());
            return;
        }
        for i in 0..used.len() {
            if !used[i] {
                used[i] = true;
                cur.push(i);
                rec(cur, used, out);
                cur.pop();
                used[i] = false;
            }
        }
    }
    let mut out = Vec::new();
    rec(&mut Vec::new(), &mut vec![false; n], &mut out);
    out
}

/// All frames of the grammar (as text).
pub fn all_frames() -> Vec<String> {
    let mut out = Vec::new();
    for e in ERROR_NAMES {
        for p in PARAMS {
            for c in CONTINUES {
                for x in EXTRA {
                    let mut members: Vec<String> = Vec::new();
                    if let Some(e) = e {
                        members.push(format!("\"error\":{e}"));
                    }
                    if let Some(p) = p {
                        members.push(format!("\"parameters\":{p}"));
                    }
                    if let Some(c) = c {
                        members.push(format!("\"continues\":{c}"));
                    }
                    if let Some(x) = x {
                        members.push(format!("\"x\":{x}"));
                    }
                    for perm in permutations(members.len()) {
                        let m: Vec<&str> = perm.iter().map(|&i| members[i].as_str()).collect();
                        out.push(format!("{{{}}}", m.join(",")));
                    }
                }
            }
        }
    }
    out
}

/// What an independent description of the declared error types says about an `error` frame.
#[derive(Debug, Clone, PartialEq)]
pub enum Model {
    /// recognised; the payload is the `Debug` rendering of the value it denotes
    Yes(String),
    /// not an error this type declares (unknown name, or parameters that do not fit the variant)
    No,
    /// not judged (parameters of a field-less variant that are neither absent, null nor an object;
    /// an error name that is not a string)
    Unjudged,
}

fn params_of(doc: &Value) -> Option<&Value> {
    doc.get("parameters").filter(|p| !p.is_null())
}

/// Field-less variant: recognised with absent / null parameters and with any parameters object
/// (members a receiver does not know are ignored, as everywhere in Varlink).
fn unit_variant(doc: &Value, dbg: &str) -> Model {
    match params_of(doc) {
        None => Model::Yes(dbg.to_string()),
        Some(Value::Object(_)) => Model::Yes(dbg.to_string()),
        Some(_) => Model::Unjudged,
    }
}

fn str_field<'v>(doc: &'v Value, name: &str) -> Option<&'v str> {
    params_of(doc)?.as_object()?.get(name)?.as_str()
}

fn int_field(doc: &Value, name: &str) -> Option<i64> {
    params_of(doc)?.as_object()?.get(name)?.as_i64()
}

/// The hand-written description of each error type used in this check: which names it declares and
/// what their parameters must look like. This is what "the caller's error type recognises" means,
/// independently of the decoder the derive macro generates.
pub trait ErrModel {
    fn model(name: &str, doc: &Value, raw: &str) -> Model;
}

impl ErrModel for ErrA {
    fn model(name: &str, doc: &Value, _raw: &str) -> Model {
        match name {
            "org.example.Bad" => unit_variant(doc, &format!("{:?}", ErrA::Bad)),
            "org.example.Worse" => match (int_field(doc, "code"), str_field(doc, "msg")) {
                (Some(code), Some(msg)) => Model::Yes(format!("{:?}", ErrA::Worse { code, msg: msg.to_string() })),
                _ => Model::No,
            },
            "org.example.Renamed" => {
                let Some(key) = str_field(doc, "theKey") else { return Model::No };
                let opt = match params_of(doc).and_then(|p| p.get("opt")) {
                    None | Some(Value::Null) => None,
                    Some(v) => match v.as_i64() {
                        Some(i) => Some(i),
                        None => return Model::No,
                    },
                };
                Model::Yes(format!("{:?}", ErrA::Renamed { the_key: key.to_string(), opt }))
            }
            _ => Model::No,
        }
    }
}

impl ErrModel for ErrB<'_> {
    fn model(name: &str, doc: &Value, raw: &str) -> Model {
        match name {
            "org.example.Bad" => unit_variant(doc, &format!("{:?}", ErrB::Bad)),
            "org.example.Worse" => match (int_field(doc, "code"), str_field(doc, "msg")) {
                // a borrowed &str cannot be filled from a JSON string written with escapes
                (Some(_), Some(_)) if raw.contains('\\') => Model::Unjudged,
                (Some(code), Some(msg)) => Model::Yes(format!("{:?}", ErrB::Worse { code, msg })),
                _ => Model::No,
            },
            _ => Model::No,
        }
    }
}

impl ErrModel for ErrNone {
    fn model(_name: &str, _doc: &Value, _raw: &str) -> Model {
        Model::No
    }
}

fn service_model(name: &str, doc: &Value) -> Model {
    use zlink_core::varlink_service::Error as S;
    let one = |field: &str, mk: &dyn Fn(String) -> S| match str_field(doc, field) {
        Some(v) => Model::Yes(format!("{:?}", mk(v.to_string()))),
        None => Model::No,
    };
    match name {
        "org.varlink.service.InterfaceNotFound" => one("interface", &|interface| S::InterfaceNotFound { interface }),
        "org.varlink.service.MethodNotFound" => one("method", &|method| S::MethodNotFound { method }),
        "org.varlink.service.MethodNotImplemented" => one("method", &|method| S::MethodNotImplemented { method }),
        "org.varlink.service.InvalidParameter" => one("parameter", &|parameter| S::InvalidParameter { parameter }),
        "org.varlink.service.PermissionDenied" => unit_variant(doc, &format!("{:?}", S::PermissionDenied)),
        "org.varlink.service.ExpectedMore" => unit_variant(doc, &format!("{:?}", S::ExpectedMore)),
        _ => Model::No,
    }
}

/// The outcome the statement demands for a frame with an `error` member, from the models alone
/// (`None` = not judged by the models; the decoder-based reference still applies).
pub fn model_expectation<E: ErrModel>(doc: &Value, raw: &str) -> Option<Outcome> {
    let name = match doc.get("error") {
        Some(Value::String(s)) => s.as_str(),
        // an `error` member that is not a string names no error at all
        Some(_) => return Some(Outcome::DecodeErr),
        None => return None,
    };
    match service_model(name, doc) {
        Model::Yes(d) => return Some(Outcome::Msg(format!("service-error {d}"))),
        Model::Unjudged => return None,
        Model::No => {}
    }
    match E::model(name, doc, raw) {
        Model::Yes(d) => Some(Outcome::Msg(format!("method-error {d}"))),
        Model::Unjudged => None,
        Model::No => Some(Outcome::DecodeErr),
    }
}

fn receive<'a, P, E>(frame: &[u8], via_call_method: bool, keep: &'a mut Option<Connection<SimSocket>>) -> Outcome
where
    P: Deserialize<'a> + Debug,
    E: Deserialize<'a> + Debug,
{
    let mut data = frame.to_vec();
    data.push(0);
    let (sock, _h) = SimSocket::with_script([ReadEv::Data(data), ReadEv::Eof]);
    let conn = keep.insert(Connection::new(sock));
    if via_call_method {
        let call = Call::new(MethodA::Ping);
        match run_until_ready(conn.call_method::<_, P, E>(&call), 64) {
            Some(r) => classify_reply(r),
            None => Outcome::Pending,
        }
    } else {
        match run_until_ready(conn.receive_reply::<P, E>(), 64) {
            Some(r) => classify_reply(r),
            None => Outcome::Pending,
        }
    }
}

fn would_succeed_without_error<'a, P: Deserialize<'a>>(stripped: &'a [u8]) -> bool {
    serde_json::from_slice::<Reply<P>>(stripped).is_ok()
}

fn check_typed<'a, P, E>(
    frame: &'a [u8],
    stripped: &'a [u8],
    doc: &Value,
    has_error: bool,
    via: bool,
    pname: &str,
    ename: &str,
    stats: &mut Stats,
) -> CaseResult
where
    P: for<'x> Deserialize<'x> + Debug,
    E: for<'x> Deserialize<'x> + Debug + ErrModel,
{
    stats.eval();
    let expect = ref_reply::<P, E>(frame);
    let mut keep = None;
    let got = receive::<P, E>(frame, via, &mut keep);
    if has_error {
        if let Some(want) = model_expectation::<E>(doc, std::str::from_utf8(frame).unwrap_or("\\")) {
            stats.class("judged-by-declared-error-model");
            if want != got {
                let sig = match (&want, &got) {
                    (_, Outcome::Msg(m)) if m.starts_with("success") => "error-reply-reported-as-success",
                    (Outcome::Msg(_), _) => "declared-error-not-recognised",
                    _ => "undeclared-error-recognised",
                };
                return Err(Fail::new(
                    sig,
                    format!(
                        "receive_reply::<{pname},{ename}>{} of {}: the declared error types demand {:?}, got {:?}",
                        if via { " (call_method)" } else { "" },
                        String::from_utf8_lossy(frame),
                        want,
                        got
                    ),
                ));
            }
        }
    }
    if has_error {
        stats.class("frame-with-error");
        if would_succeed_without_error::<P>(stripped) {
            stats.class("nontrivial:error+success-shaped");
            stats.nontrivial_hash(hash_of(&(frame, pname, ename)));
        }
    }
    match &expect {
        Expect::Exactly(Outcome::Msg(m)) if m.starts_with("method-error") => stats.class("expect-method-error"),
        Expect::Exactly(Outcome::Msg(m)) if m.starts_with("service-error") => stats.class("expect-service-error"),
        Expect::Exactly(Outcome::Msg(_)) => stats.class("expect-success"),
        _ => stats.class("expect-decode-error"),
    }
    if expect.admits(&got) {
        return Ok(());
    }
    let sig = if has_error && matches!(&got, Outcome::Msg(m) if m.starts_with("success")) {
        "error-reply-reported-as-success"
    } else if has_error {
        "error-reply-misclassified"
    } else {
        "success-reply-misclassified"
    };
    Err(Fail::new(
        sig,
        format!(
            "receive_reply::<{pname},{ename}>{} of {}: expected {:?}, got {:?}",
            if via { " (call_method)" } else { "" },
            String::from_utf8_lossy(frame),
            expect,
            got
        ),
    ))
}

pub const P_NAMES: [&str; 5] = ["()", "OptParams", "Value", "StrictParams", "BorrowedParams"];
pub const E_NAMES: [&str; 3] = ["ErrA", "ErrB", "ErrNone"];

/// Borrowed types need a lifetime tied to the frame; handle them without the HRTB bound.
fn check_borrowed<'a>(
    frame: &'a [u8],
    stripped: &'a [u8],
    doc: &Value,
    has_error: bool,
    stats: &mut Stats,
) -> CaseResult {
    stats.eval();
    let expect = ref_reply::<BorrowedParams<'a>, ErrB<'a>>(frame);
    let mut data = frame.to_vec();
    data.push(0);
    let (sock, _h) = SimSocket::with_script([ReadEv::Data(data), ReadEv::Eof]);
    let mut conn = Connection::new(sock);
    let got = match run_until_ready(conn.receive_reply::<BorrowedParams<'_>, ErrB<'_>>(), 64) {
        Some(r) => classify_reply(r),
        None => Outcome::Pending,
    };
    if has_error {
        if let Some(want) = model_expectation::<ErrB<'_>>(doc, std::str::from_utf8(frame).unwrap_or("\\")) {
            if want != got {
                return Err(Fail::new(
                    if matches!(&want, Outcome::Msg(_)) { "declared-error-not-recognised" } else { "undeclared-error-recognised" },
                    format!(
                        "receive_reply::<BorrowedParams<'_>,ErrB<'_>> of {}: the declared error types demand {:?}, got {:?}",
                        String::from_utf8_lossy(frame),
                        want,
                        got
                    ),
                ));
            }
        }
    }
    if has_error && serde_json::from_slice::<Reply<BorrowedParams<'_>>>(stripped).is_ok() {
        stats.class("nontrivial:error+success-shaped");
        stats.nontrivial_hash(hash_of(&(frame, "BorrowedParams", "ErrB")));
    }
    if expect.admits(&got) {
        return Ok(());
    }
    let sig = if has_error && matches!(&got, Outcome::Msg(m) if m.starts_with("success")) {
        "error-reply-reported-as-success"
    } else if has_error {
        "error-reply-misclassified"
    } else {
        "success-reply-misclassified"
    };
    Err(Fail::new(
        sig,
        format!(
            "receive_reply::<BorrowedParams<'_>,ErrB<'_>> of {}: expected {:?}, got {:?}",
            String::from_utf8_lossy(frame),
            expect,
            got
        ),
    ))
}

/// The same frame answered to the methods of a generated proxy (`PxProxy`: unit output with a
/// declared error enum / with the empty enum, struct output, a streaming method). The proxy's
/// result must be what the reference says about the frame for the method's (output, error) types;
/// the streaming method must yield the frame's classification as its first item - a reply that
/// carries `error` must not vanish from the stream any more than it may turn into a success.
fn check_proxy(frame: &[u8], has_error: bool, stats: &mut Stats) -> Vec<Fail> {
    use vcommon::types::PxProxy;
    let mut fails = Vec::new();
    let mk = || {
        let mut data = frame.to_vec();
        data.push(0);
        let (sock, _h) = SimSocket::with_script([ReadEv::Data(data), ReadEv::Eof]);
        Connection::new(sock)
    };
    let mut judge = |what: &str, expect: Expect, got: Outcome, stats: &mut Stats| {
        stats.eval();
        stats.class("via-proxy-method");
        if !expect.admits(&got) {
            let sig = if has_error && matches!(&got, Outcome::Msg(m) if m.starts_with("success")) {
                "error-reply-reported-as-success"
            } else if has_error {
                "error-reply-misclassified"
            } else {
                "success-reply-misclassified"
            };
            fails.push(Fail::new(sig, format!("proxy method {what} answered with {}: expected {:?}, got {:?}", String::from_utf8_lossy(frame), expect, got)));
        }
    };
    {
        let mut conn = mk();
        let got = match run_until_ready(conn.ping(), 64) {
            Some(r) => classify_reply(r.map(|r| r.map(|()| Reply::new(None::<()>)))),
            None => Outcome::Pending,
        };
        judge("ping() -> Result<(), ErrA>", proxy_expect::<ErrA>(frame), got, stats);
    }
    {
        let mut conn = mk();
        let got = match run_until_ready(conn.touch("k"), 64) {
            Some(r) => classify_reply(r.map(|r| r.map(|()| Reply::new(None::<()>)))),
            None => Outcome::Pending,
        };
        judge("touch() -> Result<(), ErrNone>", proxy_expect::<ErrNone>(frame), got, stats);
    }
    {
        let mut conn = mk();
        let got = match run_until_ready(conn.get("k"), 64) {
            Some(Ok(Ok(v))) => Outcome::Msg(format!("success-output {v:?}")),
            Some(Ok(Err(e))) => Outcome::Msg(format!("method-error {e:?}")),
            Some(Err(e)) => vcommon::rx::classify_err(&e),
            None => Outcome::Pending,
        };
        // the proxy strips the envelope of a success: compare on the parameters
        let expect = match ref_reply::<OptParams, ErrA>(frame) {
            Expect::Exactly(Outcome::Msg(m)) if m.starts_with("success") => match serde_json::from_slice::<Reply<OptParams>>(frame).ok().and_then(|r| r.into_parameters()) {
                Some(p) => Expect::Exactly(Outcome::Msg(format!("success-output {p:?}"))),
                None => Expect::Exactly(Outcome::Other("MissingParameters".into())),
            },
            other => other,
        };
        let admitted = match (&expect, &got) {
            (Expect::Exactly(Outcome::Other(_)), g) => !matches!(g, Outcome::Msg(_)),
            _ => expect.admits(&got),
        };
        if admitted {
            stats.eval();
            stats.class("via-proxy-method");
        } else {
            judge("get() -> Result<OptParams, ErrA>", expect, got, stats);
        }
    }
    {
        // streaming method: first item
        let mut conn = mk();
        let first = match run_until_ready(conn.watch(), 64) {
            Some(Ok(stream)) => {
                let mut stream = std::pin::pin!(stream);
                let mut first = None;
                for _ in 0..8 {
                    match vcommon::exec::poll_next_once(stream.as_mut()) {
                        std::task::Poll::Ready(Some(item)) => {
                            first = Some(classify_reply(item.map(|r| r.map(|()| Reply::new(None::<()>)))));
                            break;
                        }
                        std::task::Poll::Ready(None) => {
                            first = Some(Outcome::Other("stream ended without yielding anything for the reply".into()));
                            break;
                        }
                        std::task::Poll::Pending => {}
                    }
                }
                first.unwrap_or(Outcome::Pending)
            }
            Some(Err(e)) => vcommon::rx::classify_err(&e),
            None => Outcome::Pending,
        };
        // continues / parameters of a success are not visible through a unit-output stream item
        let expect = proxy_expect::<ErrA>(frame);
        judge("watch() -> Stream<Result<(), ErrA>> (first item)", expect, first, stats);
    }
    fails
}

/// Reference for a unit-output proxy method: a success is reported as `Ok(Ok(()))` whatever its
/// parameters / continues members were (shown as the empty reply), everything else as for
/// `receive_reply::<IgnoredAny-like unit, E>`.
fn proxy_expect<'a, E: Deserialize<'a> + Debug>(frame: &'a [u8]) -> Expect {
    match ref_reply::<serde::de::IgnoredAny, E>(frame) {
        Expect::Exactly(Outcome::Msg(m)) if m.starts_with("success") => Expect::Exactly(Outcome::Msg(format!("success {:?}", Reply::new(None::<()>)))),
        Expect::DecodeErrOr(Outcome::Msg(m)) if m.starts_with("success") => Expect::DecodeErrOr(Outcome::Msg(format!("success {:?}", Reply::new(None::<()>)))),
        Expect::NonObjectReply(Some(Outcome::Msg(m))) if m.starts_with("success") => Expect::NonObjectReply(Some(Outcome::Msg(format!("success {:?}", Reply::new(None::<()>))))),
        other => other,
    }
}

/// Check one frame against every (P, E) combination. Returns all failures.
pub fn check_frame(frame: &str, stats: &mut Stats) -> Vec<Fail> {
    let doc: Value = match serde_json::from_str(frame) {
        Ok(v) => v,
        Err(_) => Value::Null,
    };
    let has_error = doc.as_object().is_some_and(|o| o.contains_key("error"));
    let stripped = match doc.as_object() {
        Some(o) => {
            let mut o = o.clone();
            o.remove("error");
            serde_json::to_vec(&Value::Object(o)).unwrap()
        }
        None => frame.as_bytes().to_vec(),
    };
    let f = frame.as_bytes();
    let s = &stripped[..];
    let mut fails = Vec::new();
    macro_rules! go {
        ($p:ty, $e:ty, $pi:expr, $ei:expr) => {
            for via in [false, true] {
                if let Err(x) = check_typed::<$p, $e>(f, s, &doc, has_error, via, P_NAMES[$pi], E_NAMES[$ei], stats) {
                    fails.push(x);
                }
            }
        };
    }
    go!((), ErrA, 0, 0);
    go!((), ErrNone, 0, 2);
    go!(OptParams, ErrA, 1, 0);
    go!(OptParams, ErrNone, 1, 2);
    go!(Value, ErrA, 2, 0);
    go!(Value, ErrNone, 2, 2);
    go!(StrictParams, ErrA, 3, 0);
    go!(StrictParams, ErrNone, 3, 2);
    if let Err(x) = check_borrowed(f, s, &doc, has_error, stats) {
        fails.push(x);
    }
    fails.extend(check_proxy(f, has_error, stats));
    fails
}

/// Re-spell a frame of the grammar without changing the JSON document it denotes: characters of
/// member names and string values are written as `\uXXXX` escapes and white space is inserted
/// between tokens, as directed by `choices` (cycled). The grammar's strings contain no escapes.
pub fn respell(frame: &str, choices: &[u8]) -> String {
    if choices.is_empty() {
        return frame.to_string();
    }
    let mut out = String::with_capacity(frame.len() * 2);
    let mut k = 0usize;
    let mut next = || {
        let c = choices[k % choices.len()];
        k += 1;
        c
    };
    let mut in_string = false;
    for ch in frame.chars() {
        if ch == '"' {
            in_string = !in_string;
            out.push(ch);
            continue;
        }
        if in_string {
            match next() % 8 {
                7 => {
                    // JSON escapes are UTF-16 code units: characters beyond the BMP need a surrogate pair
                    let mut units = [0u16; 2];
                    for u in ch.encode_utf16(&mut units) {
                        out.push_str(&format!("\\u{:04x}", u));
                    }
                }
                6 if ch == '/' => out.push_str("\\/"),
                _ => out.push(ch),
            }
        } else {
            let ws = |c: u8| [" ", "\n", "\t", "\r", "  "][(c / 8) as usize % 5];
            match ch {
                '{' | '[' | ',' | ':' => {
                    out.push(ch);
                    let c = next();
                    if c % 8 == 7 {
                        out.push_str(ws(c));
                    }
                }
                '}' | ']' => {
                    let c = next();
                    if c % 8 == 7 {
                        out.push_str(ws(c));
                    }
                    out.push(ch);
                }
                _ => out.push(ch),
            }
        }
    }
    out
}

pub fn run(ctx: &Ctx) -> i32 {
    let frames = all_frames();
    let n = frames.len() as u64;
    // Lexical lane: the same documents spelled with escapes in member names / string values and
    // with white space between tokens.
    let (shards, cases) = ctx.tier.pick((16, 12000), (64, 40_000));
    let frames_ref = &frames;
    let (lex_stats, lex_viol) = vcommon::drv::run_shards(
        ctx,
        "respelled",
        shards,
        cases,
        || {
            use proptest::prelude::*;
            (any::<u32>(), prop::collection::vec(any::<u8>(), 1..24))
        },
        |(fi, choices), stats| {
            let idx = ((*fi as u64 * frames_ref.len() as u64) >> 32) as usize;
            let frame = respell(&frames_ref[idx], choices);
            if frame.contains("\\u") {
                stats.class("respelled:has-unicode-escape");
            }
            if frame.contains("\\u") && frame.contains("error") == false && frames_ref[idx].contains("\"error\"") {
                stats.class("respelled:escaped-error-key");
            }
            stats.sample(|| json!({"frame": frame}));
            match check_frame(&frame, stats).into_iter().next() {
                Some(f) => Err(f),
                None => Ok(()),
            }
        },
    );
    let (mut stats, mut viol) = par_enumerate(ctx, "grammar", n, |i, stats| {
        let frame = &frames[i as usize];
        if i % 9973 == 1 {
            stats.sample(|| json!({"frame": frame}));
        }
        check_frame(frame, stats)
            .into_iter()
            .map(|f| (f, json!({"frame": frame})))
            .collect()
    });
    stats.merge(lex_stats);
    viol.extend(lex_viol);
    Report::new(RULE)
        .exhaustive(true)
        .assume("'the caller's error type recognises the frame' is defined twice and both definitions must agree with zlink: (a) serde_json::from_slice::<E>(frame) succeeding, (b) a hand-written description of the declared variants of the error types used here (name equals <interface>.<Variant>; parameters hold the variant's fields with the declared JSON types, unknown members ignored; field-less variants take absent / null / any object)")
        .extra("frames", json!(n))
        .finish(ctx, &stats, &viol, &[])
}

pub fn replay(lane: &str, case: Value) -> CaseResult {
    let respelled;
    let frame = if lane == "respelled" {
        let frames = all_frames();
        let fi = case[0].as_u64().ok_or_else(|| Fail::new("bad-replay", "no frame index"))?;
        let choices: Vec<u8> = serde_json::from_value(case[1].clone()).map_err(|e| Fail::new("bad-replay", e.to_string()))?;
        let idx = ((fi * frames.len() as u64) >> 32) as usize;
        respelled = respell(&frames[idx], &choices);
        println!("frame: {respelled}");
        respelled.as_str()
    } else {
        case["frame"].as_str().ok_or_else(|| Fail::new("bad-replay", "no frame"))?
    };
    let mut stats = Stats::default();
    let fails = check_frame(frame, &mut stats);
    for f in &fails {
        println!("  {}", f.message);
    }
    match fails.into_iter().next() {
        Some(f) => Err(f),
        None => Ok(()),
    }
}
