//! C16 — derived introspection describes the Rust type it was derived from.

use std::{
    collections::{BTreeMap, BTreeSet},
    process::Command,
};

use serde_json::{json, Value};
use vcommon::{
    drv::Fail,
    ev::{hash_of, load_known, truncate, Ctx, Known, Report, Stats, Violation},
    idl::{Body, Fld, Member, Ty, Var},
};

use crate::c12::{build_corpus, restore_stub, target_dir, write_corpus, Rng};

pub const RULE: &str = "corpus = N generated modules (quick 150, thorough 500), each with 2 custom \
types (struct / unit enum deriving CustomType), 1-2 structs deriving Type (0..6 fields) and one \
error enum deriving introspect::ReplyError (unit, struct and single-tuple variants); field types \
are drawn from the whole mapping table: bool, every integer width, f32/f64, String / &str / char, \
Option, Vec / HashSet / BTreeSet, HashMap<String,_> / BTreeMap<&str,_>, (), Box / Rc / Arc / Cell / \
RefCell / Cow wrappers, serde_json::Value, nested custom types by name, nested Type-derived structs \
inline, lifetimes; doc comments in `///` and #[doc = \"..\"] form on types, fields and variants; \
raw-identifier field names. Oracle: the derived TYPE / CUSTOM_TYPE / VARIANTS read through the \
public accessors list exactly the declared fields / variants, in order, under their Rust names \
with the Varlink type computed from the Rust type by the harness's own table, and the doc texts as \
comments; an interface assembled from the module's derived descriptions renders to text that \
parses back equal (library == and deep comparison) and re-renders identically. Modules with a \
directly nested Option (-> ??T) or a unit enum with a documented variant next to another variant \
are attributed to the known findings nested-option-type / enum-variant-comment-render for the \
round-trip part only. Non-trivial = an item with a nested / wrapped / collection type or a doc \
comment; distinct by hash of the item's source.";

const SIG_NESTED: &str = "nested-option-type";
const SIG_ENUMCOMMENT: &str = "enum-variant-comment-render";

/// (Rust type text, expected Varlink type, needs lifetime 'a, is Option at the top)
fn leaf_types(rng: &mut Rng, customs: &[(String, bool)], inline_structs: &[(String, Vec<Fld>)]) -> (String, Ty, bool) {
    let ints = ["i8", "i16", "i32", "i64", "u8", "u16", "u32", "u64", "isize", "usize"];
    match rng.below(17) {
        // string-like standard types (serde writes them as JSON strings)
        16 => (["std::path::PathBuf", "std::ffi::OsString", "std::net::IpAddr", "std::net::Ipv4Addr", "std::net::Ipv6Addr", "std::net::SocketAddr"][rng.below(6)].into(), Ty::Str, false),
        0 => ("bool".into(), Ty::Bool, false),
        1..=3 => (rng.pick(&ints).to_string(), Ty::Int, false),
        4 => (["f32", "f64"][rng.below(2)].into(), Ty::Float, false),
        5 | 6 => ("String".into(), Ty::Str, false),
        7 => ("&'a str".into(), Ty::Str, true),
        8 => ("char".into(), Ty::Str, false),
        9 => ("()".into(), Ty::Struct(vec![]), false),
        10 => ("serde_json::Value".into(), Ty::Object, false),
        11 => ("Cow<'a, str>".into(), Ty::Str, true),
        12 | 13 if !customs.is_empty() => {
            let (n, _) = rng.pick(customs).clone();
            (n.clone(), Ty::Custom(n), false)
        }
        14 if !inline_structs.is_empty() => {
            let (n, f) = rng.pick(inline_structs).clone();
            (n, Ty::Struct(f), false)
        }
        _ => ("u32".into(), Ty::Int, false),
    }
}

fn gen_type(rng: &mut Rng, depth: u32, customs: &[(String, bool)], inline_structs: &[(String, Vec<Fld>)], allow_nested_option: bool) -> (String, Ty, bool) {
    if depth == 0 || rng.chance(45) {
        return leaf_types(rng, customs, inline_structs);
    }
    let (inner, ty, lt) = gen_type(rng, depth - 1, customs, inline_structs, allow_nested_option);
    match rng.below(14) {
        0 | 1 | 2 => {
            if matches!(ty, Ty::Opt(_)) && !allow_nested_option {
                (format!("Vec<{inner}>"), Ty::Arr(Box::new(ty)), lt)
            } else {
                (format!("Option<{inner}>"), Ty::Opt(Box::new(ty)), lt)
            }
        }
        3 | 4 => (format!("Vec<{inner}>"), Ty::Arr(Box::new(ty)), lt),
        5 => {
            // sets need Eq + Hash / Ord elements: only over strings and integers
            if matches!(ty, Ty::Str | Ty::Int) && !inner.contains("Cow") {
                let set = ["HashSet", "BTreeSet"][rng.below(2)];
                (format!("{set}<{inner}>"), Ty::Arr(Box::new(ty)), lt)
            } else {
                (format!("Vec<{inner}>"), Ty::Arr(Box::new(ty)), lt)
            }
        }
        6 => (format!("HashMap<String, {inner}>"), Ty::Map(Box::new(ty)), lt),
        7 => (format!("BTreeMap<&'a str, {inner}>"), Ty::Map(Box::new(ty)), true),
        8 => (format!("Box<{inner}>"), ty, lt),
        9 => (format!("Rc<{inner}>"), ty, lt),
        10 => (format!("Arc<{inner}>"), ty, lt),
        11 => (format!("RefCell<{inner}>"), ty, lt),
        12 => (format!("Cell<{inner}>"), ty, lt),
        _ => (format!("Option<Box<{inner}>>"), if matches!(ty, Ty::Opt(_)) && !allow_nested_option { return (format!("Box<{inner}>"), ty, lt) } else { Ty::Opt(Box::new(ty)) }, lt),
    }
}

/// `{"Opt":{"Opt":X}}` -> `{"Opt":X}` throughout a serialized description.
fn flatten_opt(v: &Value) -> Value {
    match v {
        Value::Object(o) => {
            if o.len() == 1 {
                if let Some(inner) = o.get("Opt") {
                    let inner = flatten_opt(inner);
                    if inner.get("Opt").is_some() && inner.as_object().is_some_and(|i| i.len() == 1) {
                        return inner;
                    }
                    return json!({ "Opt": inner });
                }
            }
            Value::Object(o.iter().map(|(k, v)| (k.clone(), flatten_opt(v))).collect())
        }
        Value::Array(a) => Value::Array(a.iter().map(flatten_opt).collect()),
        other => other.clone(),
    }
}

fn has_nested_option(t: &Ty) -> bool {
    match t {
        Ty::Opt(i) => matches!(**i, Ty::Opt(_)) || has_nested_option(i),
        Ty::Arr(i) | Ty::Map(i) => has_nested_option(i),
        Ty::Struct(f) => f.iter().any(|f| has_nested_option(&f.ty)),
        _ => false,
    }
}

const FIELD_NAMES: &[&str] = &["id", "name", "value", "count", "user_id", "data2", "x", "is_ok", "items", "r#type", "kind", "a_b_c", "mode", "r#match", "label", "type_", "len_", "x__y"];
const VARIANT_NAMES: &[&str] = &["Active", "Inactive", "Unknown", "V2", "NotOK", "Pending", "A", "IPv6", "Done"];
const DOCS: &[&str] = &["The identifier", "a value; with (punctuation): #1", "unicode \u{e9}\u{4e16}", "two  spaces inside", "x", "See https://example.org/a?b=c", "", "last paragraph",
    // Markdown's hard line break (two trailing blanks), a trailing tab, a rustdoc heading
    "ends with a hard break  ", "tab at the end\t", "# Errors", "## x",
    // general punctuation and other non-ASCII text followed by more text on the same line
    "range 1\u{2013}5 \u{2014} inclusive", "\u{201c}quoted\u{201d} name", "more\u{2026} to come", "\u{2022} first item", "a \u{2192} b", "\u{2030} of total (per mille)"];

fn docs(rng: &mut Rng, indent: &str) -> (String, Vec<String>) {
    let mut src = String::new();
    let mut out = Vec::new();
    if rng.chance(35) {
        let n = 1 + rng.below(3);
        for _ in 0..n {
            let d = rng.pick(DOCS).to_string();
            if rng.chance(60) {
                src.push_str(&format!("{indent}///{}{d}\n", if d.is_empty() { "" } else { " " }));
            } else {
                src.push_str(&format!("{indent}#[doc = \"{d}\"]\n"));
            }
            out.push(d);
        }
    }
    (src, out)
}

struct Item {
    name: String,
    kind: &'static str, // "custom" | "type" | "error"
    src: String,
    expect: Value,
    interesting: bool,
}

struct Module {
    idx: usize,
    src: String,
    items: Vec<Item>,
    nested_option: bool,
    commented_enum_variants: bool,
}

fn unraw(s: &str) -> &str {
    s.strip_prefix("r#").unwrap_or(s)
}

fn gen_fields(rng: &mut Rng, max: usize, customs: &[(String, bool)], inline: &[(String, Vec<Fld>)], nested_ok: bool, no_lifetime: bool) -> (String, Vec<Fld>, bool, bool) {
    let n = rng.below(max + 1);
    let mut used = BTreeSet::new();
    let mut src = String::new();
    let mut fields = Vec::new();
    let mut lt = false;
    let mut interesting = false;
    for _ in 0..n {
        let name = loop {
            let c = rng.pick(FIELD_NAMES).to_string();
            if used.insert(unraw(&c).to_string()) {
                break c;
            }
        };
        let (mut rust, mut ty, mut l) = gen_type(rng, 3, customs, inline, nested_ok);
        if no_lifetime && l {
            rust = "String".into();
            ty = Ty::Str;
            l = false;
        }
        lt |= l;
        interesting |= !matches!(ty, Ty::Bool | Ty::Int | Ty::Float | Ty::Str);
        let (dsrc, comments) = docs(rng, "    ");
        interesting |= !comments.is_empty();
        src.push_str(&format!("{dsrc}    pub {name}: {rust},\n"));
        fields.push(Fld { name: unraw(&name).to_string(), ty, comments });
    }
    (src, fields, lt, interesting)
}

fn gen_module(idx: usize, rng: &mut Rng) -> Module {
    let nested_option = idx % 10 == 7;
    let mut src = String::from("use crate::prelude::*;\nuse zlink_core::introspect::{CustomType as _, ReplyError as _, Type as _};\n\n");
    let mut items = Vec::new();
    let mut customs: Vec<(String, bool)> = Vec::new();
    let mut custom_refs = Vec::new();
    let mut commented_enum_variants = false;
    // custom types
    for k in 0..2 {
        let name = format!("C{idx}{}", ["a", "b"][k]);
        let (dsrc, comments) = docs(rng, "");
        if rng.chance(40) {
            // unit enum
            let n = 1 + rng.below(4);
            let mut used = BTreeSet::new();
            let mut body = String::new();
            let mut vars = Vec::new();
            for _ in 0..n {
                let v = loop {
                    let c = rng.pick(VARIANT_NAMES).to_string();
                    if used.insert(c.clone()) {
                        break c;
                    }
                };
                // documented enum variants hit the known rendering finding: only every fifth module
                let (vd, vc) = if idx % 5 == 3 { docs(rng, "    ") } else { (String::new(), vec![]) };
                body.push_str(&format!("{vd}    {v},\n"));
                vars.push(Var { name: v, comments: vc });
            }
            if vars.len() >= 2 && vars.iter().any(|v| !v.comments.is_empty()) {
                commented_enum_variants = true;
            }
            let s = format!("{dsrc}#[derive(zlink_core::introspect::CustomType)]\n#[zlink(crate = \"zlink_core\")]\npub enum {name} {{\n{body}}}\n\n");
            let expect = serde_json::to_value(Member::Type { name: name.clone(), body: Body::Enum(vars.clone()), comments: comments.clone() }).unwrap();
            items.push(Item { name: name.clone(), kind: "custom", src: s.clone(), expect, interesting: !comments.is_empty() || vars.iter().any(|v| !v.comments.is_empty()) });
            src.push_str(&s);
        } else {
            let usable_now: Vec<(String, bool)> = customs.iter().filter(|(_, lt)| !lt).cloned().collect();
            let (fsrc, fields, lt, interesting) = gen_fields(rng, 5, &usable_now, &[], nested_option, false);
            let g = if lt { "<'a>" } else { "" };
            let s = format!("{dsrc}#[derive(zlink_core::introspect::CustomType)]\n#[zlink(crate = \"zlink_core\")]\npub struct {name}{g} {{\n{fsrc}}}\n\n");
            let expect = serde_json::to_value(Member::Type { name: name.clone(), body: Body::Struct(fields), comments: comments.clone() }).unwrap();
            items.push(Item { name: name.clone(), kind: "custom", src: s.clone(), expect, interesting: interesting || !comments.is_empty() });
            src.push_str(&s);
            custom_refs.push(format!("<{name} as zlink_core::introspect::CustomType>::CUSTOM_TYPE"));
            customs.push((name, lt));
            continue;
        }
        custom_refs.push(format!("<{name} as zlink_core::introspect::CustomType>::CUSTOM_TYPE"));
        customs.push((name, false));
    }
    // names of custom types usable in fields (with lifetime parameter if needed)
    let usable: Vec<(String, bool)> = customs.iter().filter(|(_, lt)| !lt).cloned().collect();
    // Type-derived structs (inline)
    let mut inline: Vec<(String, Vec<Fld>)> = Vec::new();
    let mut inline_refs = Vec::new();
    for k in 0..1 + rng.below(2) {
        let name = format!("S{idx}{}", ["x", "y"][k]);
        // the first one is kept lifetime-free so that it can be the payload of a tuple error variant
        let (fsrc, fields, lt, interesting) = gen_fields(rng, 6, &usable, &inline, nested_option, k == 0);
        let g = if lt { "<'a>" } else { "" };
        let s = format!("#[derive(zlink_core::introspect::Type)]\n#[zlink(crate = \"zlink_core\")]\npub struct {name}{g} {{\n{fsrc}}}\n\n");
        let expect = serde_json::to_value(Ty::Struct(fields.clone())).unwrap();
        items.push(Item { name: name.clone(), kind: "type", src: s.clone(), expect, interesting });
        src.push_str(&s);
        inline_refs.push(format!("(\"Use{name}\", <{name} as zlink_core::introspect::Type>::TYPE)"));
        // usable as an inline field type elsewhere only without field docs (comments inside inline
        // types are outside what the property lists)
        // (field docs of an inline struct end up inside an inline type, where the parser reads
        // comments as white space: the round trip is compared without them, but it has to parse)
        if !lt {
            inline.push((name, fields));
        }
    }
    // error enum
    {
        let name = format!("R{idx}");
        let n = rng.below(5);
        let mut used = BTreeSet::new();
        let mut body = String::new();
        let mut members = Vec::new();
        let mut lt_any = false;
        let mut interesting = false;
        for _ in 0..n {
            let v = loop {
                let c = rng.pick(VARIANT_NAMES).to_string();
                if used.insert(c.clone()) {
                    break c;
                }
            };
            let (vd, vc) = docs(rng, "    ");
            interesting |= !vc.is_empty();
            match rng.below(3) {
                0 => {
                    body.push_str(&format!("{vd}    {v},\n"));
                    members.push(Member::Error { name: v, fields: vec![], comments: vc });
                }
                1 => {
                    let (fsrc, fields, lt, i) = gen_fields(rng, 3, &usable, &inline, nested_option, false);
                    lt_any |= lt;
                    interesting |= i;
                    let fsrc = fsrc.replace("    pub ", "        ").replace("    ///", "        ///").replace("    #[doc", "        #[doc");
                    body.push_str(&format!("{vd}    {v} {{\n{fsrc}    }},\n"));
                    members.push(Member::Error { name: v, fields, comments: vc });
                }
                _ => {
                    if let Some((sname, sfields)) = inline.first().cloned() {
                        body.push_str(&format!("{vd}    {v}({sname}),\n"));
                        members.push(Member::Error { name: v, fields: sfields, comments: vc });
                        interesting = true;
                    } else {
                        body.push_str(&format!("{vd}    {v},\n"));
                        members.push(Member::Error { name: v, fields: vec![], comments: vc });
                    }
                }
            }
        }
        let g = if lt_any { "<'a>" } else { "" };
        let s = format!("#[derive(zlink_core::introspect::ReplyError)]\n#[zlink(crate = \"zlink_core\")]\npub enum {name}{g} {{\n{body}}}\n\n");
        let expect = serde_json::to_value(&members).unwrap();
        items.push(Item { name: name.clone(), kind: "error", src: s.clone(), expect, interesting });
        src.push_str(&s);
    }
    // runner
    src.push_str("pub fn run(out: &mut Vec<Record>) {\n");
    for it in &items {
        let g = if it.src.contains(&format!("{}<'a>", it.name)) { "<'static>" } else { "" };
        let f = match it.kind {
            "custom" => "dump_custom",
            "type" => "dump_type",
            _ => "dump_errors",
        };
        src.push_str(&format!("    out.push(rec(\"t{idx}.{}\", {f}::<{}{g}>()));\n", it.name, it.name));
    }
    let rname = format!("R{idx}");
    let rg = if items.last().unwrap().src.contains(&format!("{rname}<'a>")) { "<'static>" } else { "" };
    let with_static = |refs: &Vec<String>| -> Vec<String> {
        refs.iter()
            .map(|r| {
                // add <'static> to types that take a lifetime
                let mut r = r.clone();
                for it in &items {
                    if it.src.contains(&format!("{}<'a>", it.name)) {
                        r = r.replace(&format!("<{} as", it.name), &format!("<{}<'static> as", it.name));
                    }
                }
                r
            })
            .collect()
    };
    src.push_str(&format!(
        "    out.push(rec(\"t{idx}.roundtrip\", round_trip(\"org.gen.t{idx}\", &[{}], <{rname}{rg} as zlink_core::introspect::ReplyError>::VARIANTS, &[{}])));\n}}\n",
        with_static(&custom_refs).join(", "),
        with_static(&inline_refs).join(", ")
    ));
    let has_nested = items.iter().any(|it| {
        fn any_nested(v: &Value) -> bool {
            // an Opt directly containing an Opt in the serialized expectation
            match v {
                Value::Object(o) => o.iter().any(|(k, v)| (k == "Opt" && v.get("Opt").is_some()) || any_nested(v)),
                Value::Array(a) => a.iter().any(any_nested),
                _ => false,
            }
        }
        any_nested(&it.expect)
    });
    let _ = has_nested_option;
    Module { idx, src, items, nested_option: has_nested, commented_enum_variants }
}

pub fn run(ctx: &Ctx) -> i32 {
    let n = ctx.tier.pick(150usize, 500);
    let mut rng = Rng::new(ctx.subseed("corpus16", 0));
    let modules: Vec<Module> = (0..n).map(|i| gen_module(i, &mut rng)).collect();
    let sources: BTreeMap<usize, String> = modules.iter().map(|m| (m.idx, m.src.clone())).collect();
    let mut stats = Stats::default();
    let mut viol: Vec<Violation> = Vec::new();
    let mut skip = BTreeSet::new();
    let mut built = false;
    for round in 0..6 {
        write_corpus("corp16", &sources, &skip);
        let b = build_corpus("corp16");
        if b.ok {
            built = true;
            break;
        }
        if b.errors.is_empty() {
            eprintln!("C16: the corpus crate failed to build for a reason that is not in a generated module (round {round}):");
            for m in b.unmapped.iter().take(5) {
                eprintln!("  {m}");
            }
            restore_stub("corp16");
            return 2;
        }
        for (i, msg) in b.errors {
            skip.insert(i);
            stats.class("module-does-not-compile");
            let code = msg.split_whitespace().next().unwrap_or("").to_string();
            let words: Vec<String> = msg.chars().filter(|c| c.is_ascii_alphanumeric() || *c == ' ').collect::<String>().split_whitespace().skip(1).take(6).map(String::from).collect();
            viol.push(Violation {
                sig: format!("does-not-compile:{code}:{}", words.join("-")),
                lane: "compile".into(),
                case: json!({"kind": "compile", "idx": i, "module": sources[&i], "error": msg}),
                message: format!("the derives accepted module t{i} but the expansion does not compile: {msg}"),
            });
        }
    }
    if !built {
        restore_stub("corp16");
        eprintln!("C16: corpus does not build; inconclusive");
        return 2;
    }
    let out = Command::new(target_dir().join("release").join("corp16")).output();
    restore_stub("corp16");
    let Ok(out) = out else { return 2 };
    if !out.status.success() {
        viol.push(Violation {
            sig: "corpus-run-crashed".into(),
            lane: "run".into(),
            case: json!({"stderr": truncate(&String::from_utf8_lossy(&out.stderr), 2000)}),
            message: format!("the corpus binary exited with {:?}: {}", out.status.code(), truncate(&String::from_utf8_lossy(&out.stderr), 400)),
        });
    }
    let mut records: BTreeMap<String, Value> = BTreeMap::new();
    for line in String::from_utf8_lossy(&out.stdout).lines() {
        if let Ok(v) = serde_json::from_str::<Value>(line) {
            if let Some(k) = v["key"].as_str() {
                records.insert(k.to_string(), v["desc"].clone());
            }
        }
    }
    // known findings: witnesses
    let known: Vec<Known> = load_known("C16");
    let mut hits = Vec::new();
    let w_nested = records.get("witness.nested-option.roundtrip").map(|r| r["parsed"] == false).unwrap_or(false);
    if w_nested {
        let what = format!(
            "a field of type Option<Option<i64>> is described as {} and the assembled interface does not parse back: {}",
            records.get("witness.nested-option.type").map(|v| v.to_string()).unwrap_or_default(),
            records["witness.nested-option.roundtrip"]["error"]
        );
        match known.iter().find(|k| k.sig == SIG_NESTED) {
            Some(k) => hits.push((k.clone(), what)),
            None => viol.push(Violation { sig: SIG_NESTED.into(), lane: "witness".into(), case: json!({"kind": "witness"}), message: what }),
        }
    }
    let w_enum = records.get("witness.enum-comment.roundtrip").map(|r| r["parsed"] == false).unwrap_or(false);
    if w_enum {
        let what = format!(
            "a derived unit enum with variants Red (documented) and Blue renders as {} which does not parse back: {}",
            records["witness.enum-comment.roundtrip"]["text"], records["witness.enum-comment.roundtrip"]["error"]
        );
        match known.iter().find(|k| k.sig == SIG_ENUMCOMMENT) {
            Some(k) => hits.push((k.clone(), what)),
            None => viol.push(Violation { sig: SIG_ENUMCOMMENT.into(), lane: "witness".into(), case: json!({"kind": "witness"}), message: what }),
        }
    }
    let mut by_sig: BTreeMap<String, usize> = BTreeMap::new();
    let mut push = |sig: String, case: Value, message: String, viol: &mut Vec<Violation>| {
        let c = by_sig.entry(sig.clone()).or_insert(0);
        *c += 1;
        if *c <= 3 {
            viol.push(Violation { sig, lane: "describe".into(), case, message });
        }
    };
    for m in &modules {
        if skip.contains(&m.idx) {
            continue;
        }
        stats.class("modules-compiled");
        for it in &m.items {
            stats.eval();
            stats.class(&format!("item:{}", it.kind));
            if it.interesting {
                stats.nontrivial_hash(hash_of(&it.src));
            }
            let key = format!("t{}.{}", m.idx, it.name);
            match records.get(&key) {
                None => push("record-missing".into(), json!({"kind": "describe", "idx": m.idx, "module": m.src, "key": key}), format!("no record {key}"), &mut viol),
                // Directly nested options: the literal mapping (`??T`) is not a Varlink type and
                // cannot satisfy the round-trip clause (known finding nested-option-type), so a
                // description that collapses them into one `?` is accepted as well.
                Some(got) if got != &it.expect && got == &flatten_opt(&it.expect) => {
                    stats.class("nested-option-described-as-single-optional");
                }
                Some(got) if got != &it.expect => {
                    // what differs: names, types or comments?
                    fn strip(v: &Value) -> Value {
                        match v {
                            Value::Object(o) => Value::Object(o.iter().map(|(k, v)| (k.clone(), if k == "comments" { json!([]) } else { strip(v) })).collect()),
                            Value::Array(a) => Value::Array(a.iter().map(strip).collect()),
                            other => other.clone(),
                        }
                    }
                    let sig = if strip(got) == strip(&it.expect) { "derived-comments-differ" } else { "derived-description-differs" };
                    push(
                        format!("{sig}:{}", it.kind),
                        json!({"kind": "describe", "idx": m.idx, "module": m.src, "key": key, "want": it.expect}),
                        format!("{}\nderived: {got}\ndeclared: {}", it.src, it.expect),
                        &mut viol,
                    );
                }
                Some(_) => {}
            }
        }
        // round trip
        stats.eval();
        let key = format!("t{}.roundtrip", m.idx);
        if let Some(r) = records.get(&key) {
            let ok = r["parsed"] == true && r["lib_eq"] == true && r["deep_eq"] == true && r["refixed"] == true;
            if m.nested_option || m.commented_enum_variants {
                stats.class("roundtrip:known-finding-lane");
            } else {
                stats.class("roundtrip:strict");
            }
            if !ok {
                let parse_failed = r["parsed"] == false;
                if parse_failed && m.nested_option {
                    stats.excluded(SIG_NESTED);
                } else if parse_failed && m.commented_enum_variants {
                    stats.excluded(SIG_ENUMCOMMENT);
                } else {
                    push(
                        if parse_failed { "assembled-interface-does-not-parse".into() } else { "assembled-interface-round-trip-differs".into() },
                        json!({"kind": "roundtrip", "idx": m.idx, "module": m.src, "key": key}),
                        format!("module t{}: {}", m.idx, truncate(&r.to_string(), 900)),
                        &mut viol,
                    );
                }
            }
        }
    }
    stats.samples.push(json!({"module": truncate(&modules[0].src, 1200)}));
    stats.samples.push(json!({"module": truncate(&modules[n / 2].src, 1200)}));
    Report::new(RULE)
        .assume("the expected Varlink type of a Rust type comes from the harness's own mapping table (written from the statement: integers -> int, floats -> float, strings and chars -> string, Option -> ?, sequences and sets -> [], string-keyed maps -> [string], unit -> empty object, wrappers -> inner, serde_json::Value -> object, custom types by name)")
        .assume("a raw-identifier field r#type is listed under its Rust name `type`")
        .extra("modules", json!(n))
        .extra("modules_not_compiling", json!(skip.len()))
        .finish(ctx, &stats, &viol, &hits)
}

pub fn replay(_lane: &str, case: Value) -> Result<(), Fail> {
    if case["kind"] == "witness" {
        return Err(Fail::new("replay-needs-full-run", "the witness is part of every run of ./check C16"));
    }
    let src = case["module"].as_str().ok_or_else(|| Fail::new("bad-replay", "no module source"))?;
    let idx = case["idx"].as_u64().unwrap_or(0) as usize;
    println!("{src}");
    let mut modules = BTreeMap::new();
    modules.insert(idx, src.to_string());
    write_corpus("corp16", &modules, &BTreeSet::new());
    let b = build_corpus("corp16");
    if !b.ok {
        restore_stub("corp16");
        let msg = b.errors.values().next().cloned().or(b.unmapped.first().cloned()).unwrap_or_default();
        return Err(Fail::new("does-not-compile", format!("does not compile: {msg}")));
    }
    let out = Command::new(target_dir().join("release").join("corp16")).output();
    restore_stub("corp16");
    let out = out.map_err(|e| Fail::new("infra", e.to_string()))?;
    if case["kind"] == "compile" {
        println!("(the module compiles now)");
        return Ok(());
    }
    let key = case["key"].as_str().unwrap_or("");
    let rec = String::from_utf8_lossy(&out.stdout)
        .lines()
        .filter_map(|l| serde_json::from_str::<Value>(l).ok())
        .find(|v| v["key"] == key)
        .ok_or_else(|| Fail::new("record-missing", format!("no record {key}")))?;
    println!("record: {rec}");
    if case["kind"] == "roundtrip" {
        let r = &rec["desc"];
        if r["parsed"] == true && r["lib_eq"] == true && r["deep_eq"] == true && r["refixed"] == true {
            return Ok(());
        }
        return Err(Fail::new("assembled-interface-round-trip", r.to_string()));
    }
    if rec["desc"] != case["want"] {
        return Err(Fail::new("derived-description-differs", format!("derived {}, declared {}", rec["desc"], case["want"])));
    }
    Ok(())
}
