//! Runner of the generated proxy-trait corpus (C12). The generated modules live in `gen-out/`
//! (written by `vcheck C12` before this crate is built); they only *exercise and report*: every
//! record is printed as one JSON line and judged by vcheck against expectations computed from the
//! trait declarations.
#![allow(unused, clippy::all)]

mod prelude;
#[path = "../gen-out/mod.rs"]
mod gen;

fn main() {
    let mut out = Vec::new();
    gen::run_all(&mut out);
    let stdout = std::io::stdout();
    let mut lock = stdout.lock();
    for r in &out {
        use std::io::Write;
        let _ = writeln!(lock, "{}", serde_json::to_string(r).unwrap());
    }
}
