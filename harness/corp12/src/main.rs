//! Runner of the generated proxy-trait corpus (C12). The generated modules live in `gen-out/`
//! (written by `vcheck C12` before this crate is built); they only *exercise and report*: every
//! record is printed as one JSON line and judged by vcheck against expectations computed from the
//! trait declarations.
#![allow(unused, clippy::all)]

mod prelude;
#[path = "../gen-out/mod.rs"]
mod gen;

fn main() {
    let mut out = Vec::new();
    gen::run_all(&mut out);
    print(&out);
    // the sweep's records are printed one length at a time, so that a panic in zlink at one size
    // does not take the other records with it
    for len in 0..=600 {
        let mut out = Vec::new();
        let r = std::panic::catch_unwind(std::panic::AssertUnwindSafe(|| prelude::size_sweep(&mut out, len, len)));
        print(&out);
        if r.is_err() {
            eprintln!("size sweep: panic at length {len}");
        }
    }
}

fn print(out: &[prelude::Record]) {
    let stdout = std::io::stdout();
    let mut lock = stdout.lock();
    for r in out {
        use std::io::Write;
        let _ = writeln!(lock, "{}", serde_json::to_string(r).unwrap());
    }
}
