//! Hand-written support code for the generated corpus.

pub use std::fmt::Debug;

pub use futures_util::{Stream, StreamExt};
pub use serde::{Deserialize, Serialize};
pub use vsim::{
    exec::run_until_ready,
    sim::{ReadEv, SimHandle, SimSocket},
};
pub use zlink_core::{connection::chain::Chain, proxy, varlink_service::Proxy as SvcProxy, Connection, ReplyError};

#[derive(Debug, Serialize)]
pub struct Record {
    /// `<trait>.<method>.<form>.a<argset>.r<reply>`
    pub key: String,
    /// frames written to the transport (without their terminators), or `<no terminator>`
    pub frames: Vec<String>,
    /// what the proxy method returned
    pub result: String,
    /// what the low-level receive_reply says about the same reply frame(s)
    pub lowlevel: String,
}

#[derive(Debug, Clone, Serialize, Deserialize, PartialEq)]
pub struct St {
    pub a: i64,
    pub b: String,
}

#[derive(Debug, Clone, Serialize, Deserialize, PartialEq)]
pub struct OutOwned {
    pub x: i64,
    pub s: String,
}

#[derive(Debug, Clone, Serialize, Deserialize, PartialEq)]
pub struct OutBorrowed<'a> {
    pub s: &'a str,
    #[serde(default)]
    pub n: Option<i64>,
}

/// Owned twins of borrowed outputs with the same `Debug` text (for the low-level reference of
/// streams, which needs `DeserializeOwned`).
pub mod owned_twin {
    use super::*;
    #[derive(Debug, Clone, Deserialize, PartialEq)]
    pub struct OutBorrowed {
        pub s: String,
        #[serde(default)]
        pub n: Option<i64>,
    }
}

#[derive(Debug, Clone, PartialEq, ReplyError)]
#[zlink(interface = "org.gen", crate = "zlink_core")]
pub enum ErrP {
    Bad,
    Worse { code: i64 },
}

pub fn new_conn(replies: &[&str]) -> (Connection<SimSocket>, SimHandle) {
    let mut data = Vec::new();
    for r in replies {
        data.extend_from_slice(r.as_bytes());
        data.push(0);
    }
    let (sock, h) = if data.is_empty() { SimSocket::new() } else { SimSocket::with_script([ReadEv::Data(data)]) };
    (Connection::new(sock), h)
}

pub fn frames_of(h: &SimHandle) -> Vec<String> {
    let bytes = h.written();
    if bytes.is_empty() {
        return vec![];
    }
    if *bytes.last().unwrap() != 0 {
        return vec!["<no terminator>".to_string()];
    }
    bytes[..bytes.len() - 1].split(|&b| b == 0).map(|f| String::from_utf8_lossy(f).to_string()).collect()
}

pub fn block<F: std::future::Future>(f: F) -> Option<F::Output> {
    run_until_ready(f, 64)
}

pub fn fmt_plain<T: Debug, E: Debug>(r: Option<zlink_core::Result<Result<T, E>>>) -> String {
    match r {
        None => "pending".into(),
        Some(Ok(Ok(v))) => format!("ok:{v:?}"),
        Some(Ok(Err(e))) => format!("err:{e:?}"),
        Some(Err(_)) => "fail".into(),
    }
}

pub fn fmt_oneway(r: Option<zlink_core::Result<()>>) -> String {
    match r {
        None => "pending".into(),
        Some(Ok(())) => "sent".into(),
        Some(Err(_)) => "fail".into(),
    }
}

/// Low-level classification of one reply frame for an output type with parameters.
pub fn lowlevel<'a, P: Deserialize<'a> + Debug, E: Deserialize<'a> + Debug>(conn: &'a mut Connection<SimSocket>) -> String {
    match block(conn.receive_reply::<P, E>()) {
        None => "pending".into(),
        Some(Ok(Ok(reply))) => match reply.into_parameters() {
            Some(p) => format!("ok:{p:?}"),
            None => "fail".into(),
        },
        Some(Ok(Err(e))) => format!("err:{e:?}"),
        Some(Err(_)) => "fail".into(),
    }
}

/// ... for a method without output: any (or no) parameters are fine.
pub fn lowlevel_unit<'a, E: Deserialize<'a> + Debug>(conn: &'a mut Connection<SimSocket>) -> String {
    match block(conn.receive_reply::<serde::de::IgnoredAny, E>()) {
        None => "pending".into(),
        Some(Ok(Ok(_))) => "ok:()".into(),
        Some(Ok(Err(e))) => format!("err:{e:?}"),
        Some(Err(_)) => "fail".into(),
    }
}

/// Low-level view of a reply stream: one entry per frame up to and including the first frame
/// whose continues flag is not true (or an error).
pub fn lowlevel_stream<P: for<'x> Deserialize<'x> + Debug, E: for<'x> Deserialize<'x> + Debug>(replies: &[&str], unit: bool) -> String {
    let (mut conn, _h) = new_conn(replies);
    let mut items = Vec::new();
    for _ in 0..replies.len() + 1 {
        let r = block(conn.receive_reply::<serde_json::Value, E>());
        match r {
            None => {
                items.push("pending".to_string());
                break;
            }
            Some(Ok(Ok(reply))) => {
                let cont = reply.continues() == Some(true);
                if unit {
                    items.push("ok:()".into());
                } else {
                    match reply.into_parameters().map(serde_json::from_value::<P>) {
                        Some(Ok(p)) => items.push(format!("ok:{p:?}")),
                        _ => items.push("fail".into()),
                    }
                }
                if !cont {
                    break;
                }
            }
            Some(Ok(Err(e))) => {
                items.push(format!("err:{e:?}"));
                break;
            }
            Some(Err(_)) => {
                items.push("fail".into());
                break;
            }
        }
    }
    items.join("|")
}

/// Drain a proxy stream: items until the end (or Pending), formatted like `lowlevel_stream`.
pub fn drain<T: Debug, E: Debug, S: Stream<Item = zlink_core::Result<Result<T, E>>>>(s: S, max: usize) -> String {
    let mut s = std::pin::pin!(s);
    let mut items = Vec::new();
    for _ in 0..max + 1 {
        match block(s.next()) {
            None => {
                items.push("pending".to_string());
                break;
            }
            Some(None) => break,
            Some(Some(Ok(Ok(v)))) => items.push(format!("ok:{v:?}")),
            Some(Some(Ok(Err(e)))) => items.push(format!("err:{e:?}")),
            Some(Some(Err(_))) => items.push("fail".into()),
        }
    }
    items.join("|")
}

// ---- size sweep: one hand-written trait, every argument length, all three forms ----

#[proxy(interface = "org.gen.sweep", crate = "zlink_core")]
pub trait SweepProxy {
    async fn put(&mut self, key: &str, #[zlink(rename = "theN")] n: Option<i64>) -> zlink_core::Result<Result<(), ErrP>>;
    #[zlink(more)]
    async fn watch(&mut self, key: &str) -> zlink_core::Result<impl Stream<Item = zlink_core::Result<Result<(), ErrP>>>>;
}

/// For every length 0..=max of the string argument: the frames the plain method, the chain
/// starter and the chain extension (behind GetInfo, i.e. serialised at a non-zero buffer offset)
/// put on the wire. Record key `sweep.<method>.<form>.<len>`.
pub fn size_sweep(out: &mut Vec<Record>, min: usize, max: usize) {
    for len in min..=max {
        let key: String = "abcdefghijklmnopqrstuvwxyz".chars().cycle().take(len).collect();
        let n = if len % 3 == 0 { None } else { Some(len as i64) };
        let rec = |name: String, h: &SimHandle, r: &str| Record { key: name, frames: frames_of(h), result: r.to_string(), lowlevel: String::new() };
        {
            let (mut conn, h) = new_conn(&[]);
            let _ = block(conn.put(&key, n));
            out.push(rec(format!("sweep.put.plain.{len}"), &h, ""));
        }
        {
            let (mut conn, h) = new_conn(&[]);
            let r = {
                let c: zlink_core::Result<Chain<'_, SimSocket, serde_json::Value, ErrP>> = conn.chain_put(&key, n);
                match c { Ok(c) => match block(c.send()) { Some(Ok(_)) => "sent", Some(Err(_)) => "fail", None => "pending" }, Err(_) => "fail" }
            };
            out.push(rec(format!("sweep.put.chain.{len}"), &h, r));
        }
        {
            let (mut conn, h) = new_conn(&[]);
            let r = {
                let c: zlink_core::Result<Chain<'_, SimSocket, serde_json::Value, ErrP>> = conn.chain_get_info();
                match c.and_then(|c| c.put(&key, n)).and_then(|c| c.put("tail", Some(1))) { Ok(c) => match block(c.send()) { Some(Ok(_)) => "sent", Some(Err(_)) => "fail", None => "pending" }, Err(_) => "fail" }
            };
            out.push(rec(format!("sweep.put.ext.{len}"), &h, r));
        }
        {
            let (mut conn, h) = new_conn(&[]);
            let _ = block(conn.watch(&key)).map(|r| r.map(|_| ()));
            out.push(rec(format!("sweep.watch.plain.{len}"), &h, ""));
        }
        {
            let (mut conn, h) = new_conn(&[]);
            let r = {
                let c: zlink_core::Result<Chain<'_, SimSocket, serde_json::Value, ErrP>> = conn.chain_watch(&key);
                match c { Ok(c) => match block(c.send()) { Some(Ok(_)) => "sent", Some(Err(_)) => "fail", None => "pending" }, Err(_) => "fail" }
            };
            out.push(rec(format!("sweep.watch.chain.{len}"), &h, r));
        }
    }
}
