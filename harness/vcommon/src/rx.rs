//! Receiving side: target types, the reference decode of one frame, and a driver that owns every
//! poll of a `receive_*` future (so cancellation points are inputs).

use std::{fmt::Debug, task::Poll};

use serde::{Deserialize, Serialize};
use zlink_core::{
    connection::{socket::ReadHalf, ReadConnection},
    reply, varlink_service, Call, Reply,
};

use crate::{exec::poll_once, types::*};

/// What a receive produced, in a form that can be compared with the reference.
#[derive(Debug, Clone, PartialEq, Eq, Serialize, Deserialize)]
pub enum Outcome {
    /// A decoded message, rendered through `Debug` (all target types derive it).
    Msg(String),
    /// A decode error (`Error::Json`, `InvalidUtf8`, `MissingParameters`).
    DecodeErr,
    /// End of stream.
    Eof,
    /// Any other error.
    Other(String),
    /// The receive did not complete within the poll budget (transport has nothing more).
    Pending,
    /// The receive was abandoned and control handed back to the driver (which may do something
    /// else with the connection, e.g. `join` and `split` it, before receiving again).
    Abandoned,
}

/// What the reference says about one frame.
#[derive(Debug, Clone, PartialEq, Eq)]
pub enum Expect {
    /// Exactly this outcome.
    Exactly(Outcome),
    /// The frame is not a JSON object; zlink may either reject it or decode it the way serde
    /// decodes that document (serde lets structs decode from arrays). Only used for non-objects.
    DecodeErrOr(Outcome),
    /// A reply frame that is not a JSON object (an array, a scalar): not a Varlink message at all.
    /// zlink's three-way decode runs through serde's buffered content, where adjacently tagged
    /// enums accept the sequence form `[tag, content]` with the variant *index* as tag, so
    /// `[0,[]]` comes out as the first variant of the caller's error enum (serde_json applied to the
    /// frame directly does not accept an integer tag, so there is no independent reference for
    /// that reading). Admitted: a decode error, the success serde reads directly (if any), or a
    /// method / service error.
    NonObjectReply(Option<Outcome>),
}

impl Expect {
    pub fn admits(&self, got: &Outcome) -> bool {
        match self {
            Expect::Exactly(o) => o == got,
            Expect::DecodeErrOr(o) => got == o || *got == Outcome::DecodeErr,
            Expect::NonObjectReply(o) => {
                *got == Outcome::DecodeErr || o.as_ref() == Some(got) || matches!(got, Outcome::Msg(m) if m.starts_with("method-error") || m.starts_with("service-error"))
            }
        }
    }
    pub fn is_decodable(&self) -> bool {
        matches!(self, Expect::Exactly(Outcome::Msg(_)))
    }
}

#[derive(Debug, Clone, Copy, PartialEq, Eq, Hash, Serialize, Deserialize)]
pub enum Target {
    CallEnum,
    CallStrict,
    CallService,
    ReplyUnit,
    ReplyOpt,
    ReplyValue,
    ReplyStrict,
    ReplyBorrowed,
}

pub const ALL_TARGETS: [Target; 8] = [
    Target::CallEnum,
    Target::CallStrict,
    Target::CallService,
    Target::ReplyUnit,
    Target::ReplyOpt,
    Target::ReplyValue,
    Target::ReplyStrict,
    Target::ReplyBorrowed,
];

impl Target {
    pub fn is_call(self) -> bool {
        matches!(
            self,
            Target::CallEnum | Target::CallStrict | Target::CallService
        )
    }
}

pub fn classify_err(e: &zlink_core::Error) -> Outcome {
    use zlink_core::Error as E;
    match e {
        E::Json(_) | E::InvalidUtf8(_) | E::MissingParameters => Outcome::DecodeErr,
        E::UnexpectedEof => Outcome::Eof,
        E::VarlinkService(e) => Outcome::Msg(format!("service-error {e:?}")),
        other => Outcome::Other(format!("{other:?}")),
    }
}

pub fn classify_call<M: Debug>(r: zlink_core::Result<Call<M>>) -> Outcome {
    match r {
        Ok(c) => Outcome::Msg(format!("call {c:?}")),
        Err(e) => classify_err(&e),
    }
}

pub fn classify_reply<P: Debug, E: Debug>(
    r: zlink_core::Result<reply::Result<P, E>>,
) -> Outcome {
    match r {
        Ok(Ok(rep)) => Outcome::Msg(format!("success {rep:?}")),
        Ok(Err(e)) => Outcome::Msg(format!("method-error {e:?}")),
        Err(e) => classify_err(&e),
    }
}

fn json_kind(frame: &[u8]) -> Option<serde_json::Value> {
    serde_json::from_slice::<serde_json::Value>(frame).ok()
}

/// Reference for `receive_call::<M>`: the decoder applied to exactly this frame's bytes.
pub fn ref_call<'a, M: Deserialize<'a> + Debug>(frame: &'a [u8]) -> Expect {
    let o = match serde_json::from_slice::<Call<M>>(frame) {
        Ok(c) => Outcome::Msg(format!("call {c:?}")),
        Err(_) => Outcome::DecodeErr,
    };
    Expect::Exactly(o)
}

/// Reference for `receive_reply::<P, E>` following the rules of the property statement (C04):
/// a frame with an `error` member is a service error if `varlink_service::Error` recognises it,
/// else the method's error if `E` recognises it, else a decode error - never a success; a frame
/// without `error` is a success iff `Reply<P>` decodes it.
pub fn ref_reply<'a, P, E>(frame: &'a [u8]) -> Expect
where
    P: Deserialize<'a> + Debug,
    E: Deserialize<'a> + Debug,
{
    let Some(doc) = json_kind(frame) else {
        return Expect::Exactly(Outcome::DecodeErr);
    };
    let Some(obj) = doc.as_object() else {
        // Non-object documents: see `Expect::NonObjectReply`.
        return Expect::NonObjectReply(serde_json::from_slice::<Reply<P>>(frame).ok().map(|rep| Outcome::Msg(format!("success {rep:?}"))));
    };
    if obj.contains_key("error") {
        if let Ok(e) = serde_json::from_slice::<varlink_service::Error>(frame) {
            return Expect::Exactly(Outcome::Msg(format!("service-error {e:?}")));
        }
        if let Ok(e) = serde_json::from_slice::<E>(frame) {
            return Expect::Exactly(Outcome::Msg(format!("method-error {e:?}")));
        }
        return Expect::Exactly(Outcome::DecodeErr);
    }
    match serde_json::from_slice::<Reply<P>>(frame) {
        Ok(rep) => Expect::Exactly(Outcome::Msg(format!("success {rep:?}"))),
        Err(_) => Expect::Exactly(Outcome::DecodeErr),
    }
}

pub fn reference(target: Target, frame: &[u8]) -> Expect {
    match target {
        Target::CallEnum => ref_call::<MethodA<'_>>(frame),
        Target::CallStrict => ref_call::<StrictCall>(frame),
        Target::CallService => ref_call::<varlink_service::Method<'_>>(frame),
        Target::ReplyUnit => ref_reply::<(), ErrA>(frame),
        Target::ReplyOpt => ref_reply::<OptParams, ErrA>(frame),
        Target::ReplyValue => ref_reply::<serde_json::Value, ErrA>(frame),
        Target::ReplyStrict => ref_reply::<StrictParams, ErrNone>(frame),
        Target::ReplyBorrowed => ref_reply::<BorrowedParams<'_>, ErrB<'_>>(frame),
    }
}

/// Drive one `receive_*` call; `$cancel(poll_count)` decides, after each `Pending`, whether the
/// future is dropped and re-created. Evaluates to an `Outcome`.
#[macro_export]
macro_rules! drive_recv {
    ($conn:expr, $method:ident, [$($ty:ty),*], $classify:expr, $cancel:expr, $polls:expr, $max:expr, $yield_on_cancel:expr) => {{
        'outer: loop {
            let conn = &mut *$conn;
            let fut = conn.$method::<$($ty),*>();
            let mut fut = std::pin::pin!(fut);
            loop {
                match $crate::exec::poll_once(fut.as_mut()) {
                    std::task::Poll::Ready(r) => break 'outer ($classify)(r),
                    std::task::Poll::Pending => {
                        *$polls += 1;
                        if *$polls >= $max {
                            break 'outer $crate::rx::Outcome::Pending;
                        }
                        if ($cancel)(*$polls) {
                            if $yield_on_cancel {
                                break 'outer $crate::rx::Outcome::Abandoned;
                            }
                            continue 'outer;
                        }
                    }
                }
            }
        }
    }};
}

/// Receive one message of the target's type. `polls` counts `Pending` polls across calls;
/// `cancel(n)` is asked after the n-th `Pending` whether to abandon the future.
pub fn receive_one<R: ReadHalf>(
    conn: &mut ReadConnection<R>,
    target: Target,
    polls: &mut usize,
    max_polls: usize,
    cancel: &mut dyn FnMut(usize) -> bool,
    yield_on_cancel: bool,
) -> Outcome {
    match target {
        Target::CallEnum => drive_recv!(
            conn,
            receive_call,
            [MethodA<'_>],
            classify_call,
            cancel,
            polls,
            max_polls,
            yield_on_cancel
        ),
        Target::CallStrict => drive_recv!(
            conn,
            receive_call,
            [StrictCall],
            classify_call,
            cancel,
            polls,
            max_polls,
            yield_on_cancel
        ),
        Target::CallService => drive_recv!(
            conn,
            receive_call,
            [varlink_service::Method<'_>],
            classify_call,
            cancel,
            polls,
            max_polls,
            yield_on_cancel
        ),
        Target::ReplyUnit => drive_recv!(
            conn,
            receive_reply,
            [(), ErrA],
            classify_reply,
            cancel,
            polls,
            max_polls,
            yield_on_cancel
        ),
        Target::ReplyOpt => drive_recv!(
            conn,
            receive_reply,
            [OptParams, ErrA],
            classify_reply,
            cancel,
            polls,
            max_polls,
            yield_on_cancel
        ),
        Target::ReplyValue => drive_recv!(
            conn,
            receive_reply,
            [serde_json::Value, ErrA],
            classify_reply,
            cancel,
            polls,
            max_polls,
            yield_on_cancel
        ),
        Target::ReplyStrict => drive_recv!(
            conn,
            receive_reply,
            [StrictParams, ErrNone],
            classify_reply,
            cancel,
            polls,
            max_polls,
            yield_on_cancel
        ),
        Target::ReplyBorrowed => drive_recv!(
            conn,
            receive_reply,
            [BorrowedParams<'_>, ErrB<'_>],
            classify_reply,
            cancel,
            polls,
            max_polls,
            yield_on_cancel
        ),
    }
}

// keep the import used when the macro is expanded elsewhere
#[allow(dead_code)]
fn _uses() {
    let _ = poll_once::<std::future::Ready<()>>;
    let _: Poll<()> = Poll::Pending;
}

// ---------------------------------------------------------------------------------------------
// A complete inbound case: frames + chunking + poll schedule + cancellation points.

use crate::{
    drv::Fail,
    frames::{split_at_cuts, stream_of, B},
    sim::{ReadEv, SimSocket},
};
use zlink_core::connection::Socket;

#[derive(Debug, Clone, Serialize, Deserialize)]
pub struct RxCase {
    pub target: Target,
    pub frames: Vec<B>,
    /// Cut positions into the byte stream (sorted, in `1..len`).
    pub cuts: Vec<usize>,
    /// `pend[i % len]` = number of `Pending` results before chunk i becomes readable.
    pub pend: Vec<u8>,
    /// Abandon the receive future after the n-th `Pending` poll, for every n listed (1-based,
    /// counted over the whole case).
    pub cancel: Vec<usize>,
    /// 0 = the read half is used on its own throughout. k > 0: after every abandoned receive, and
    /// before every k-th receive, the halves are put together with `Connection::join` and taken
    /// apart again with `split` (which must not disturb what the read half has buffered).
    #[serde(default)]
    pub rejoin: u8,
}

#[derive(Debug, Default)]
pub struct RxRun {
    pub outcomes: Vec<Outcome>,
    pub cancellations: usize,
    pub cancelled_mid_frame: bool,
    pub reads: u64,
    pub max_buf_len: usize,
    pub rejoins: usize,
}

impl RxCase {
    pub fn stream(&self) -> Vec<u8> {
        stream_of(&self.frames)
    }

    pub fn script(&self) -> Vec<ReadEv> {
        let stream = self.stream();
        let chunks = split_at_cuts(&stream, &self.cuts);
        let mut script = Vec::new();
        for (i, c) in chunks.into_iter().enumerate() {
            if !self.pend.is_empty() {
                for _ in 0..self.pend[i % self.pend.len()] {
                    script.push(ReadEv::Pending);
                }
            }
            script.push(ReadEv::Data(c));
        }
        script.push(ReadEv::Eof);
        script
    }

    /// Run the case against zlink: receive until end-of-stream (or a bounded number of results).
    pub fn run(&self) -> RxRun {
        let (sock, handle) = SimSocket::with_script(self.script());
        let (read, _write) = sock.split();
        // `Connection::new` is the only public constructor; build through it and split.
        let (mut rc, mut wc) = zlink_core::Connection::new(SimSocket {
            read,
            write: _write,
        })
        .split();
        let mut run = RxRun::default();
        let mut polls = 0usize;
        let max_polls = 16 + self.script().len() * 4 + self.cancel.len();
        let limit = self.frames.len() + 3;
        let stream_len = self.stream().len() as u64;
        // frame start offsets, to know whether a cancellation happened mid-frame
        let mut boundaries = vec![0u64];
        for f in &self.frames {
            boundaries.push(boundaries.last().unwrap() + f.0.len() as u64 + 1);
        }
        let mut results = 0usize;
        let mut rounds = 0usize;
        let mut abandoned = false;
        while results < limit && rounds < limit + self.cancel.len() + 2 {
            rounds += 1;
            if self.rejoin > 0 && (abandoned || results % self.rejoin as usize == 0) {
                let (r, w) = zlink_core::Connection::<SimSocket>::join(rc, wc).split();
                rc = r;
                wc = w;
                run.rejoins += 1;
            }
            let h = handle.clone();
            let cancel_list = &self.cancel;
            let mut cancellations = 0usize;
            let mut mid = false;
            let mut cancel = |n: usize| {
                if cancel_list.contains(&n) {
                    cancellations += 1;
                    let delivered = h.read.borrow().bytes;
                    if delivered < stream_len && !boundaries.contains(&delivered) {
                        mid = true;
                    }
                    true
                } else {
                    false
                }
            };
            let o = receive_one(&mut rc, self.target, &mut polls, max_polls, &mut cancel, self.rejoin > 0);
            run.cancellations += cancellations;
            run.cancelled_mid_frame |= mid;
            abandoned = o == Outcome::Abandoned;
            if abandoned {
                continue;
            }
            results += 1;
            let stop = matches!(o, Outcome::Eof | Outcome::Other(_) | Outcome::Pending);
            run.outcomes.push(o);
            if stop {
                break;
            }
        }
        run.reads = handle.read.borrow().reads;
        run.max_buf_len = handle.read.borrow().max_buf_len;
        run
    }

    /// Expected outcomes per frame, then `Eof`.
    pub fn expected(&self) -> Vec<Expect> {
        let mut v: Vec<Expect> = self
            .frames
            .iter()
            .map(|f| reference(self.target, &f.0))
            .collect();
        v.push(Expect::Exactly(Outcome::Eof));
        v
    }

    /// Compare a run with the reference. The signature names the kind of stream that failed, so
    /// that distinct root causes are reported separately.
    pub fn judge(&self, run: &RxRun) -> Result<(), Fail> {
        let expected = self.expected();
        let ok = run.outcomes.len() == expected.len()
            && expected.iter().zip(&run.outcomes).all(|(e, o)| e.admits(o));
        if ok {
            return Ok(());
        }
        let any_undecodable = expected[..expected.len() - 1].iter().any(|e| !e.is_decodable());
        let any_padded = self.frames.iter().any(|f| {
            let b = &f.0;
            crate::frames::WS.contains(&b[0]) || crate::frames::WS.contains(&b[b.len() - 1])
        });
        let kind = if !self.cancel.is_empty() && run.cancellations > 0 {
            "cancelled"
        } else if any_padded {
            "padded-frame"
        } else if any_undecodable {
            "undecodable-frame"
        } else {
            "valid-stream"
        };
        let first_bad = expected
            .iter()
            .zip(&run.outcomes)
            .position(|(e, o)| !e.admits(o))
            .unwrap_or(run.outcomes.len().min(expected.len()));
        Err(Fail {
            sig: format!("rx-{kind}"),
            message: format!(
                "target {:?}: {} frames, {} results; first difference at result {}: expected {:?}, got {:?}",
                self.target,
                self.frames.len(),
                run.outcomes.len(),
                first_bad,
                expected.get(first_bad),
                run.outcomes.get(first_bad),
            ),
        })
    }
}
