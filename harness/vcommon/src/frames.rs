//! Generators for inbound byte streams: frames by category, a size dial that aims frame ends at
//! the 256-byte growth steps of the receive buffer, and chunkings (cut sets).

use std::fmt;

use proptest::prelude::*;
use serde::{Deserialize, Serialize};

use crate::ev::show_bytes;

/// A byte string that serializes to a readable, reversible escaped string in replay files.
#[derive(Clone, PartialEq, Eq, Hash, PartialOrd, Ord)]
pub struct B(pub Vec<u8>);

impl fmt::Debug for B {
    fn fmt(&self, f: &mut fmt::Formatter<'_>) -> fmt::Result {
        write!(f, "b\"{}\"", show_bytes(&self.0))
    }
}

impl Serialize for B {
    fn serialize<S: serde::Serializer>(&self, s: S) -> Result<S::Ok, S::Error> {
        s.serialize_str(&show_bytes(&self.0))
    }
}

pub fn unshow_bytes(s: &str) -> Result<Vec<u8>, String> {
    let b = s.as_bytes();
    let mut out = Vec::with_capacity(b.len());
    let mut i = 0;
    while i < b.len() {
        if b[i] == b'\\' {
            match b.get(i + 1) {
                Some(b'0') => {
                    out.push(0);
                    i += 2;
                }
                Some(b'\\') => {
                    out.push(b'\\');
                    i += 2;
                }
                Some(b'x') => {
                    let h = s.get(i + 2..i + 4).ok_or("short \\x escape")?;
                    out.push(u8::from_str_radix(h, 16).map_err(|e| e.to_string())?);
                    i += 4;
                }
                _ => return Err(format!("bad escape at {i}")),
            }
        } else {
            out.push(b[i]);
            i += 1;
        }
    }
    Ok(out)
}

impl<'de> Deserialize<'de> for B {
    fn deserialize<D: serde::Deserializer<'de>>(d: D) -> Result<Self, D::Error> {
        let s = String::deserialize(d)?;
        unshow_bytes(&s).map(B).map_err(serde::de::Error::custom)
    }
}

pub const WS: [u8; 4] = [b' ', b'\t', b'\r', b'\n'];

/// Which side of the protocol the frames are meant for.
#[derive(Debug, Clone, Copy, PartialEq, Eq)]
pub enum Domain {
    Calls,
    Replies,
}

/// How long the padding string of a frame is.
#[derive(Debug, Clone)]
pub enum Pad {
    /// Exactly this many padding characters.
    Exact(usize),
    /// Choose the padding so that the stream offset just after this frame's NUL is `k*256 + d`.
    AlignEnd { k: usize, d: i32 },
}

#[derive(Debug, Clone)]
pub enum Body {
    /// A frame that is valid for the domain's target types. `variant` selects the message,
    /// `order` permutes its members, `flags` sets envelope flags / optional members.
    Valid { variant: u8, flags: u8, order: u16, n: i64 },
    /// Valid JSON of a shape no target expects.
    WrongShape(u8),
    /// Not a JSON document: built by damaging a valid frame.
    Malformed { kind: u8, at: u16, variant: u8 },
}

#[derive(Debug, Clone)]
pub struct FrameSpec {
    pub body: Body,
    pub pad: Pad,
    pub ws_pre: Vec<u8>,
    pub ws_post: Vec<u8>,
}

fn ws_strategy(max: usize) -> impl Strategy<Value = Vec<u8>> {
    prop::collection::vec(prop::sample::select(WS.to_vec()), 0..=max)
}

/// Bytes that some definition of "white space" accepts but JSON does not (vertical tab, form
/// feed, the C0 separators, NEL, no-break space, line separator, byte-order mark), mixed with real
/// JSON white space: a frame padded with these is *not* a JSON document (the reference decides).
const NEAR_WS: [&[u8]; 13] = [
    b"\x0b", b"\x0c", b"\x1c", b"\x1d", b"\x1e", b"\x1f", b"\xc2\x85", b"\xc2\xa0", b"\xe2\x80\xa8", b"\xef\xbb\xbf", b"\x85", b" ", b"\n",
];

fn near_ws_strategy(max: usize) -> impl Strategy<Value = Vec<u8>> {
    prop::collection::vec(prop::sample::select(NEAR_WS.to_vec()), 0..=max).prop_map(|v| v.concat())
}

pub fn pad_strategy(max_steps: usize) -> impl Strategy<Value = Pad> {
    prop_oneof![
        4 => (0usize..40).prop_map(Pad::Exact),
        4 => (1usize..=max_steps, -3i32..=3).prop_map(|(k, d)| Pad::AlignEnd { k, d }),
        1 => (0usize..(max_steps * 256 + 64)).prop_map(Pad::Exact),
    ]
}

pub fn frame_spec_strategy(max_steps: usize) -> impl Strategy<Value = FrameSpec> {
    let body = prop_oneof![
        6 => (0u8..8, any::<u8>(), any::<u16>(), -5i64..1000)
            .prop_map(|(variant, flags, order, n)| Body::Valid { variant, flags, order, n }),
        1 => (0u8..10).prop_map(Body::WrongShape),
        2 => (0u8..9, any::<u16>(), 0u8..8)
            .prop_map(|(kind, at, variant)| Body::Malformed { kind, at, variant }),
    ];
    let ws = prop_oneof![
        12 => Just((vec![], vec![])),
        4 => (ws_strategy(3), ws_strategy(3)),
        1 => (near_ws_strategy(2), near_ws_strategy(2)),
    ];
    (body, pad_strategy(max_steps), ws).prop_map(|(body, pad, (ws_pre, ws_post))| FrameSpec {
        body,
        pad,
        ws_pre,
        ws_post,
    })
}

fn pad_string(len: usize, salt: u8) -> String {
    // ASCII only, no escapes: borrowed `&str` fields must be able to hold it.
    let alphabet = b"abcdefghijklmnopqrstuvwxyzABCDEFGHIJKLMNOPQRSTUVWXYZ0123456789";
    (0..len)
        .map(|i| alphabet[(i + salt as usize) % alphabet.len()] as char)
        .collect()
}

/// Permute `items` by a Lehmer code derived from `order`.
fn permute<T>(mut items: Vec<T>, mut order: u32) -> Vec<T> {
    let mut out = Vec::with_capacity(items.len());
    while !items.is_empty() {
        let n = items.len() as u32;
        let i = (order % n) as usize;
        order /= n;
        out.push(items.remove(i));
    }
    out
}

fn obj(members: Vec<(String, String)>, order: u16) -> String {
    let members = permute(members, order as u32);
    let inner: Vec<String> = members
        .into_iter()
        .map(|(k, v)| format!("{}:{}", serde_json::to_string(&k).unwrap(), v))
        .collect();
    format!("{{{}}}", inner.join(","))
}

fn jstr(s: &str) -> String {
    serde_json::to_string(s).unwrap()
}

/// Render a valid frame of the domain with `pad` padding characters.
pub fn render_valid(domain: Domain, variant: u8, flags: u8, order: u16, n: i64, pad: usize) -> String {
    let p = pad_string(pad, variant.wrapping_add(flags));
    match domain {
        Domain::Calls => {
            let mut m: Vec<(String, String)> = Vec::new();
            match variant % 4 {
                0 => {
                    m.push(("method".into(), jstr("org.example.Echo")));
                    m.push((
                        "parameters".into(),
                        obj(vec![("s".into(), jstr(&p)), ("n".into(), n.to_string())], order / 7),
                    ));
                }
                1 => {
                    m.push(("method".into(), jstr("org.example.Ping")));
                    if pad > 0 || flags & 0x40 != 0 {
                        m.push(("zpad".into(), jstr(&p)));
                    }
                }
                2 => {
                    m.push(("method".into(), jstr("org.example.Put")));
                    // owned key may contain escapes
                    let key = if flags & 0x80 != 0 {
                        format!("{}\"\\\n\u{e9}\u{1F600}", p)
                    } else {
                        p.clone()
                    };
                    let val = match flags & 0x30 {
                        0x00 => "null".to_string(),
                        0x10 => "[]".to_string(),
                        _ => format!("[{n},-1,9007199254740993]"),
                    };
                    m.push((
                        "parameters".into(),
                        obj(
                            vec![
                                ("key".into(), jstr(&key)),
                                ("val".into(), val),
                                ("tag".into(), "\"t\\u00e9g\"".to_string()),
                            ],
                            order / 5,
                        ),
                    ));
                }
                _ => {
                    m.push((
                        "method".into(),
                        jstr("org.varlink.service.GetInterfaceDescription"),
                    ));
                    m.push((
                        "parameters".into(),
                        obj(vec![("interface".into(), jstr(&format!("org.example.{p}")))], 0),
                    ));
                }
            }
            if flags & 1 != 0 {
                m.push(("oneway".into(), "true".into()));
            }
            if flags & 2 != 0 {
                m.push(("more".into(), (flags & 0x08 == 0).to_string()));
            }
            if flags & 4 != 0 {
                m.push(("upgrade".into(), "true".into()));
            }
            obj(m, order)
        }
        Domain::Replies => {
            let mut m: Vec<(String, String)> = Vec::new();
            match variant % 6 {
                0 | 1 => {
                    m.push((
                        "parameters".into(),
                        obj(vec![("name".into(), jstr(&p)), ("n".into(), n.to_string())], order / 3),
                    ));
                    if flags & 1 != 0 {
                        m.push(("continues".into(), (flags & 2 != 0).to_string()));
                    }
                }
                2 => {
                    if flags & 1 != 0 {
                        m.push(("continues".into(), (flags & 2 != 0).to_string()));
                    }
                    if pad > 0 {
                        m.push(("zpad".into(), jstr(&p)));
                    }
                }
                3 => {
                    m.push(("error".into(), jstr("org.example.Bad")));
                    if pad > 0 {
                        m.push(("zpad".into(), jstr(&p)));
                    }
                }
                4 => {
                    m.push(("error".into(), jstr("org.example.Worse")));
                    m.push((
                        "parameters".into(),
                        obj(vec![("code".into(), n.to_string()), ("msg".into(), jstr(&p))], order / 3),
                    ));
                }
                _ => {
                    if flags & 4 != 0 {
                        m.push(("error".into(), jstr("org.varlink.service.PermissionDenied")));
                        if pad > 0 {
                            m.push(("zpad".into(), jstr(&p)));
                        }
                    } else {
                        m.push(("error".into(), jstr("org.varlink.service.MethodNotFound")));
                        m.push((
                            "parameters".into(),
                            obj(vec![("method".into(), jstr(&p))], 0),
                        ));
                    }
                }
            }
            obj(m, order)
        }
    }
}

const WRONG_SHAPES: [&str; 10] = [
    r#"{"x":1}"#,
    "[1,2,3]",
    "42",
    r#""str""#,
    "null",
    "true",
    "{}",
    r#"{"method":7}"#,
    r#"{"parameters":"notanobject","continues":"yes"}"#,
    "[]",
];

fn first_quote(v: &[u8]) -> Option<usize> {
    v.iter().position(|&b| b == b'"').map(|i| i + 1)
}

fn render_body(domain: Domain, body: &Body, pad: usize) -> Vec<u8> {
    match body {
        Body::Valid { variant, flags, order, n } => {
            render_valid(domain, *variant, *flags, *order, *n, pad).into_bytes()
        }
        Body::WrongShape(i) => {
            let mut s = WRONG_SHAPES[*i as usize % WRONG_SHAPES.len()].to_string();
            if pad > 0 && s.starts_with("{\"x\"") {
                s = format!(r#"{{"x":{}}}"#, jstr(&pad_string(pad, 3)));
            }
            s.into_bytes()
        }
        Body::Malformed { kind, at, variant } => {
            let base = render_valid(domain, *variant, 0, 0, 7, pad).into_bytes();
            let pos = |len: usize| 1 + (*at as usize * (len.max(2) - 1) >> 16).min(len.saturating_sub(2));
            match kind % 9 {
                0 => {
                    // truncated
                    let p = pos(base.len());
                    base[..p].to_vec()
                }
                1 => {
                    // invalid escape inside the first string
                    let mut v = base.clone();
                    let Some(i) = first_quote(&v) else { return b"{\"a\":}".to_vec() };
                    v.splice(i..i, *b"\\x");
                    v
                }
                2 => {
                    // raw control character inside the first string
                    let mut v = base.clone();
                    let Some(i) = first_quote(&v) else { return b"{\"a\":}".to_vec() };
                    v.insert(i, [0x01u8, 0x1f, b'\n', 0x7f][(*at % 4) as usize]);
                    if *at % 4 == 3 {
                        // 0x7f is legal in JSON strings; damage the document as well
                        v.push(b'}');
                    }
                    v
                }
                3 => {
                    // invalid UTF-8 inside the first string
                    let mut v = base.clone();
                    let Some(i) = first_quote(&v) else { return b"{\"a\":}".to_vec() };
                    let bad: &[u8] = match *at % 3 {
                        0 => &[0xff],
                        1 => &[0xc3],
                        _ => &[0xed, 0xa0, 0x80],
                    };
                    v.splice(i..i, bad.iter().copied());
                    v
                }
                4 => {
                    // two documents in one frame
                    let mut v = base.clone();
                    if *at % 2 == 0 {
                        v.push(b' ');
                    }
                    v.extend_from_slice(&base);
                    v
                }
                5 => WS[(*at % 4) as usize..][..1].repeat(1 + (*at as usize / 4) % 3),
                6 => {
                    // trailing garbage
                    let mut v = base.clone();
                    v.extend_from_slice([&b"x"[..], b"}", b",", b" 1", b"\t]"][(*at % 5) as usize]);
                    v
                }
                7 => [&b"}"[..], b"nul", b"{\"a\":}", b"{", b"\"", b"-", b"{\"method\"}"][(*at % 7) as usize].to_vec(),
                _ => {
                    // a byte of the structure replaced
                    let mut v = base.clone();
                    let p = pos(v.len());
                    v[p] = [b'#', b'{', b'"', b':', 0x80][(*at % 5) as usize];
                    v
                }
            }
        }
    }
}

/// Render a sequence of frame specs into frames (NUL-free, non-empty), resolving `AlignEnd` pads
/// against the cumulative stream offset.
pub fn render_frames(domain: Domain, specs: &[FrameSpec]) -> Vec<B> {
    let mut out = Vec::with_capacity(specs.len());
    let mut offset = 0usize;
    for spec in specs {
        let render = |pad: usize| {
            let mut f = spec.ws_pre.clone();
            f.extend(render_body(domain, &spec.body, pad));
            f.extend(&spec.ws_post);
            f
        };
        let frame = match spec.pad {
            Pad::Exact(n) => render(n),
            Pad::AlignEnd { k, d } => {
                let want = (k * 256) as i64 + d as i64; // stream offset after this frame's NUL
                let base = render(0);
                let end0 = (offset + base.len() + 1) as i64;
                // smallest multiple-shifted target that is reachable
                let mut target = want;
                while target < end0 {
                    target += 256;
                }
                let pad = (target - end0) as usize;
                let f = render(pad);
                // padding is not length-linear for every body (truncations scale), accept as is
                f
            }
        };
        let frame = if frame.is_empty() { b" ".to_vec() } else { frame };
        debug_assert!(!frame.contains(&0));
        offset += frame.len() + 1;
        out.push(B(frame));
    }
    out
}

pub fn frames_strategy(domain: Domain, max_frames: usize, max_steps: usize) -> impl Strategy<Value = Vec<B>> {
    prop::collection::vec(frame_spec_strategy(max_steps), 1..=max_frames)
        .prop_map(move |specs| render_frames(domain, &specs))
}

/// Concatenate frames, each followed by one NUL.
pub fn stream_of(frames: &[B]) -> Vec<u8> {
    let mut s = Vec::new();
    for f in frames {
        s.extend_from_slice(&f.0);
        s.push(0);
    }
    s
}

// ---------------------------------------------------------------------------------------------
// Chunkings

#[derive(Debug, Clone)]
pub enum ChunkPlan {
    One,
    ByteAtATime,
    /// Cut at every NUL + delta.
    AtNuls(i32),
    /// Cut at every multiple of 256 + delta.
    AtSteps(i32),
    /// Fixed chunk size.
    Fixed(usize),
    /// Arbitrary cut positions (raw values are scaled to the stream length).
    Cuts(Vec<u16>),
}

pub fn chunk_plan_strategy() -> impl Strategy<Value = ChunkPlan> {
    prop_oneof![
        1 => Just(ChunkPlan::One),
        1 => Just(ChunkPlan::ByteAtATime),
        2 => (-2i32..=2).prop_map(ChunkPlan::AtNuls),
        2 => (-2i32..=2).prop_map(ChunkPlan::AtSteps),
        1 => (1usize..600).prop_map(ChunkPlan::Fixed),
        4 => prop::collection::vec(any::<u16>(), 0..8).prop_map(ChunkPlan::Cuts),
    ]
}

/// Resolve a plan to sorted, distinct cut positions in `1..len`.
pub fn resolve_cuts(plan: &ChunkPlan, stream: &[u8]) -> Vec<usize> {
    let len = stream.len();
    let mut cuts: Vec<usize> = match plan {
        ChunkPlan::One => vec![],
        ChunkPlan::ByteAtATime => (1..len).collect(),
        ChunkPlan::AtNuls(d) => stream
            .iter()
            .enumerate()
            .filter(|(_, &b)| b == 0)
            .map(|(i, _)| (i as i64 + 1 + *d as i64) as usize)
            .collect(),
        ChunkPlan::AtSteps(d) => (1..=len / 256 + 1)
            .map(|k| (k as i64 * 256 + *d as i64) as usize)
            .collect(),
        ChunkPlan::Fixed(n) => (1..).map(|k| k * n).take_while(|&c| c < len).collect(),
        ChunkPlan::Cuts(raw) => raw.iter().map(|&r| 1 + ((r as usize * len.max(1)) >> 16)).collect(),
    };
    cuts.retain(|&c| c >= 1 && c < len);
    cuts.sort_unstable();
    cuts.dedup();
    cuts
}

/// Split `stream` at `cuts`.
pub fn split_at_cuts(stream: &[u8], cuts: &[usize]) -> Vec<Vec<u8>> {
    let mut out = Vec::with_capacity(cuts.len() + 1);
    let mut prev = 0;
    for &c in cuts {
        if c > prev && c < stream.len() {
            out.push(stream[prev..c].to_vec());
            prev = c;
        }
    }
    out.push(stream[prev..].to_vec());
    out
}

/// Does some cut fall strictly inside a frame (not at its start, not just after its NUL)?
pub fn has_mid_frame_cut(frames: &[B], cuts: &[usize]) -> bool {
    let mut starts = Vec::new();
    let mut off = 0;
    for f in frames {
        starts.push(off);
        off += f.0.len() + 1;
    }
    cuts.iter().any(|c| !starts.contains(c) && *c < off)
}
