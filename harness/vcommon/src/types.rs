//! Message types the connection-level checks receive into / send from.

use std::borrow::Cow;

use serde::{Deserialize, Serialize};
use zlink_core::ReplyError;

/// Adjacently tagged method enum with borrowed and owned fields (the shape the docs recommend).
#[derive(Debug, Clone, PartialEq, Serialize, Deserialize)]
#[serde(tag = "method", content = "parameters")]
pub enum MethodA<'a> {
    #[serde(rename = "org.example.Echo")]
    Echo { s: &'a str, n: i64 },
    #[serde(rename = "org.example.Ping")]
    Ping,
    #[serde(rename = "org.example.Put")]
    Put {
        key: String,
        val: Option<Vec<i64>>,
        #[serde(borrow)]
        tag: Cow<'a, str>,
    },
}

/// A strict call struct: unknown members are an error.
#[derive(Debug, Clone, PartialEq, Serialize, Deserialize)]
#[serde(deny_unknown_fields)]
pub struct StrictCall {
    pub method: String,
    #[serde(default, skip_serializing_if = "Option::is_none")]
    pub parameters: Option<serde_json::Value>,
}

/// Success parameter types.
#[derive(Debug, Clone, PartialEq, Serialize, Deserialize)]
pub struct OptParams {
    #[serde(default)]
    pub name: Option<String>,
    #[serde(default)]
    pub n: Option<i64>,
}

#[derive(Debug, Clone, PartialEq, Serialize, Deserialize)]
#[serde(deny_unknown_fields)]
pub struct StrictParams {
    pub name: String,
    pub n: i64,
}

#[derive(Debug, Clone, PartialEq, Serialize, Deserialize)]
pub struct BorrowedParams<'a> {
    pub name: &'a str,
    pub n: i64,
}

/// Derived error enum: unit and struct variants, a renamed field, an optional field.
#[derive(Debug, Clone, PartialEq, ReplyError)]
#[zlink(interface = "org.example", crate = "zlink_core")]
pub enum ErrA {
    Bad,
    Worse {
        code: i64,
        msg: String,
    },
    Renamed {
        #[zlink(rename = "theKey")]
        the_key: String,
        opt: Option<i64>,
    },
}

/// Derived error enum with a lifetime.
#[derive(Debug, Clone, PartialEq, ReplyError)]
#[zlink(interface = "org.example", crate = "zlink_core")]
pub enum ErrB<'a> {
    Bad,
    Worse { code: i64, msg: &'a str },
}

/// Derived empty enum (a method that declares no errors).
#[derive(Debug, Clone, PartialEq, ReplyError)]
#[zlink(interface = "org.example", crate = "zlink_core")]
pub enum ErrNone {}

/// A method type that records every member it is shown (to observe what `Call` passes through).
#[derive(Debug, Clone, PartialEq, Serialize, Deserialize)]
pub struct SeenAll {
    pub method: String,
    #[serde(flatten)]
    pub rest: std::collections::BTreeMap<String, serde_json::Value>,
}

/// Derived error enum with several renamed fields, a borrowed optional, a list and a nested struct.
#[derive(Debug, Clone, PartialEq, ReplyError)]
#[zlink(interface = "com.example.deep.iface", crate = "zlink_core")]
pub enum ErrC<'a> {
    Gone,
    Quota {
        #[zlink(rename = "maxBytes")]
        max_bytes: u64,
        #[zlink(rename = "user-name")]
        user_name: &'a str,
        hint: Option<&'a str>,
    },
    Many {
        items: Vec<String>,
        nested: StrictParams,
        ratio: f64,
        flag: bool,
    },
    AlsoGone,
}

/// A small proxy with a unit-output and a struct-output method.
#[zlink_core::proxy(interface = "org.example.Px", crate = "zlink_core")]
pub trait PxProxy {
    async fn ping(&mut self) -> zlink_core::Result<Result<(), ErrA>>;
    async fn touch(&mut self, key: &str) -> zlink_core::Result<Result<(), ErrNone>>;
    async fn get(&mut self, key: &str) -> zlink_core::Result<Result<OptParams, ErrA>>;
    #[zlink(more)]
    async fn watch(
        &mut self,
    ) -> zlink_core::Result<impl futures_util::Stream<Item = zlink_core::Result<Result<(), ErrA>>>>;
}
