//! Drivers: seed-sharded proptest runs (with shrinking) and parallel enumerators.

use std::{
    cell::RefCell,
    fmt::Debug,
    panic::{catch_unwind, AssertUnwindSafe},
    sync::{
        atomic::{AtomicU64, Ordering},
        Mutex,
    },
};

use proptest::{
    strategy::Strategy,
    test_runner::{Config, RngSeed, TestCaseError, TestError, TestRunner},
};
use serde::Serialize;

use crate::ev::{Ctx, Stats, Violation};

/// Why a case failed: a root-cause signature (stable across inputs with the same cause) and a
/// human-readable message.
#[derive(Debug, Clone)]
pub struct Fail {
    pub sig: String,
    pub message: String,
}

impl Fail {
    pub fn new(sig: &str, message: impl Into<String>) -> Self {
        Fail {
            sig: sig.to_string(),
            message: message.into(),
        }
    }
}

pub type CaseResult = Result<(), Fail>;

thread_local! {
    static LAST_PANIC: RefCell<Option<String>> = const { RefCell::new(None) };
}

/// Install a quiet panic hook: panics inside the code under test are part of what we look for, so
/// they are recorded per thread instead of being printed thousands of times while shrinking.
pub fn install_quiet_panic_hook() {
    std::panic::set_hook(Box::new(|info| {
        let loc = info
            .location()
            .map(|l| format!("{}:{}", l.file(), l.line()))
            .unwrap_or_default();
        let msg = if let Some(s) = info.payload().downcast_ref::<&str>() {
            s.to_string()
        } else if let Some(s) = info.payload().downcast_ref::<String>() {
            s.clone()
        } else {
            "<non-string panic>".to_string()
        };
        if std::env::var_os("VERIF_SHOW_PANICS").is_some() {
            eprintln!("panic at {loc}: {msg}");
        }
        LAST_PANIC.with(|p| *p.borrow_mut() = Some(format!("{msg} @ {loc}")));
    }));
}

pub fn take_last_panic() -> Option<String> {
    LAST_PANIC.with(|p| p.borrow_mut().take())
}

/// Run `test` on `value`, turning a panic into a `Fail` with signature `panic`.
pub fn guarded<T>(value: &T, stats: &mut Stats, test: &impl Fn(&T, &mut Stats) -> CaseResult) -> CaseResult {
    match catch_unwind(AssertUnwindSafe(|| test(value, stats))) {
        Ok(r) => r,
        Err(_) => {
            let what = take_last_panic().unwrap_or_else(|| "panic".into());
            // Signature: panic location only, so one panic site is one root cause.
            let site = what.rsplit(" @ ").next().unwrap_or("").to_string();
            Err(Fail {
                sig: format!("panic@{}", short_site(&site)),
                message: format!("panic: {what}"),
            })
        }
    }
}

fn short_site(site: &str) -> String {
    // keep the path from the crate directory on ("zlink-core/src/...:171")
    match site.find("zlink") {
        Some(i) => site[i..].to_string(),
        None => site.to_string(),
    }
}

/// A `tracing` subscriber that enables every level and formats every field of every event (so
/// that the arguments of zlink's log macros are evaluated exactly as under a real subscriber with
/// TRACE enabled), then throws the text away. zlink logs every message it reads and several error
/// paths; code that only runs when logging is on is code users run.
pub struct AllLogs;

impl tracing::Subscriber for AllLogs {
    fn enabled(&self, _: &tracing::Metadata<'_>) -> bool {
        true
    }
    fn new_span(&self, _: &tracing::span::Attributes<'_>) -> tracing::span::Id {
        tracing::span::Id::from_u64(1)
    }
    fn record(&self, _: &tracing::span::Id, _: &tracing::span::Record<'_>) {}
    fn record_follows_from(&self, _: &tracing::span::Id, _: &tracing::span::Id) {}
    fn event(&self, event: &tracing::Event<'_>) {
        struct Sink(usize);
        impl tracing::field::Visit for Sink {
            fn record_debug(&mut self, _field: &tracing::field::Field, value: &dyn std::fmt::Debug) {
                use std::fmt::Write;
                let mut s = String::new();
                let _ = write!(s, "{value:?}");
                self.0 += s.len();
            }
        }
        event.record(&mut Sink(0));
    }
    fn enter(&self, _: &tracing::span::Id) {}
    fn exit(&self, _: &tracing::span::Id) {}
}

/// Run `f` with the all-enabled subscriber installed for this thread (`on`) or without one.
pub fn with_logging<R>(on: bool, f: impl FnOnce() -> R) -> R {
    if on {
        tracing::subscriber::with_default(AllLogs, f)
    } else {
        f()
    }
}

/// Every fourth shard / enumeration index runs with logging enabled.
pub fn logging_for(index: u64) -> bool {
    index % 4 == 1
}

/// Run `shards` independent proptest campaigns of `cases` cases each, in parallel. Every shard's
/// seed is a pure function of (VERIF_SEED, lane, shard index). A shard stops at its first failure
/// and shrinks it; the other shards run to the end, so several distinct failures can be reported.
pub fn run_shards<S, G, F>(
    ctx: &Ctx,
    lane: &str,
    shards: u64,
    cases: u32,
    make_strategy: G,
    test: F,
) -> (Stats, Vec<Violation>)
where
    S: Strategy,
    S::Value: Serialize + Debug + Clone,
    G: Fn() -> S + Sync,
    F: Fn(&S::Value, &mut Stats) -> CaseResult + Sync,
{
    let next = AtomicU64::new(0);
    let merged = Mutex::new((Stats::default(), Vec::<Violation>::new()));
    let workers = (ctx.threads as u64).min(shards).max(1);
    std::thread::scope(|scope| {
        for _ in 0..workers {
            scope.spawn(|| loop {
                let shard = next.fetch_add(1, Ordering::Relaxed);
                if shard >= shards {
                    break;
                }
                let (stats, viol) = run_one_shard(ctx, lane, shard, cases, &make_strategy, &test);
                let mut m = merged.lock().unwrap();
                m.0.merge(stats);
                m.1.extend(viol);
            });
        }
    });
    merged.into_inner().unwrap()
}

fn run_one_shard<S, G, F>(
    ctx: &Ctx,
    lane: &str,
    shard: u64,
    cases: u32,
    make_strategy: &G,
    test: &F,
) -> (Stats, Vec<Violation>)
where
    S: Strategy,
    S::Value: Serialize + Debug + Clone,
    G: Fn() -> S,
    F: Fn(&S::Value, &mut Stats) -> CaseResult,
{
    let seed = ctx.subseed(lane, shard);
    let config = Config {
        cases,
        rng_seed: RngSeed::Fixed(seed),
        failure_persistence: None,
        max_shrink_iters: 4000,
        max_global_rejects: 1_000_000,
        ..Config::default()
    };
    let mut runner = TestRunner::new(config);
    let strategy = make_strategy();
    let stats = RefCell::new(Stats::default());
    let result = with_logging(logging_for(shard), || runner.run(&strategy, |v| {
        let mut st = stats.borrow_mut();
        st.eval();
        let r = guarded(&v, &mut st, test);
        match r {
            Ok(()) => Ok(()),
            Err(f) => {
                st.frozen = true;
                Err(TestCaseError::fail(f.message))
            }
        }
    }));
    let mut stats = stats.into_inner();
    stats.frozen = false;
    let mut out = Vec::new();
    match result {
        Ok(()) => {}
        Err(TestError::Fail(_reason, value)) => {
            // Re-run the minimal case to get its signature (shrinking may have drifted).
            let mut scratch = Stats::default();
            let fail = match with_logging(logging_for(shard), || guarded(&value, &mut scratch, test)) {
                Err(f) => f,
                Ok(()) => Fail::new(
                    "flaky",
                    "shrunk case passed when re-run (non-deterministic check?)",
                ),
            };
            out.push(Violation {
                sig: fail.sig,
                lane: lane.to_string(),
                case: serde_json::to_value(&value).unwrap_or(serde_json::Value::Null),
                message: fail.message,
            });
        }
        Err(TestError::Abort(reason)) => {
            // Too many rejects: a generator problem, never a violation.
            stats
                .notes
                .insert(format!("abort_{lane}_{shard}"), serde_json::json!(reason.to_string()));
        }
    }
    (stats, out)
}

/// Parallel enumeration over `0..n`: `f(index, stats)` returns failures. Indexes are dealt out in
/// blocks; results are merged. Deterministic regardless of thread count (merging is commutative).
pub fn par_enumerate<F>(ctx: &Ctx, lane: &str, n: u64, f: F) -> (Stats, Vec<Violation>)
where
    F: Fn(u64, &mut Stats) -> Vec<(Fail, serde_json::Value)> + Sync,
{
    let next = AtomicU64::new(0);
    let merged = Mutex::new((Stats::default(), Vec::<Violation>::new()));
    let workers = (ctx.threads as u64).min(n).max(1);
    let block = (n / (workers * 8)).max(1);
    std::thread::scope(|scope| {
        for _ in 0..workers {
            scope.spawn(|| {
                let mut stats = Stats::default();
                let mut viol = Vec::new();
                loop {
                    let lo = next.fetch_add(block, Ordering::Relaxed);
                    if lo >= n {
                        break;
                    }
                    let hi = (lo + block).min(n);
                    for i in lo..hi {
                        let r = catch_unwind(AssertUnwindSafe(|| with_logging(logging_for(i), || f(i, &mut stats))));
                        match r {
                            Ok(fails) => {
                                for (fail, case) in fails {
                                    // keep at most a few per signature per worker
                                    if viol.iter().filter(|v: &&Violation| v.sig == fail.sig).count() < 3 {
                                        viol.push(Violation {
                                            sig: fail.sig,
                                            lane: lane.to_string(),
                                            case,
                                            message: fail.message,
                                        });
                                    }
                                }
                            }
                            Err(_) => {
                                let what = take_last_panic().unwrap_or_else(|| "panic".into());
                                let site = what.rsplit(" @ ").next().unwrap_or("").to_string();
                                viol.push(Violation {
                                    sig: format!("panic@{}", short_site(&site)),
                                    lane: lane.to_string(),
                                    case: serde_json::json!({"enum_index": i}),
                                    message: format!("panic: {what}"),
                                });
                            }
                        }
                    }
                }
                let mut m = merged.lock().unwrap();
                m.0.merge(stats);
                m.1.extend(viol);
            });
        }
    });
    merged.into_inner().unwrap()
}

/// Map an index drawn from `0..=u16::MAX`-like ranges monotonically onto `0..len` (shrinks well).
pub fn pick_idx(raw: u16, len: usize) -> usize {
    if len == 0 {
        0
    } else {
        ((raw as usize) * len) >> 16
    }
}
