//! Run context, statistics, evidence files, replay files, violations and known findings.

use std::{
    collections::{BTreeMap, HashSet},
    hash::{Hash, Hasher},
    path::{Path, PathBuf},
    time::Instant,
};

use serde_json::{json, Value};

#[derive(Debug, Clone, Copy, PartialEq, Eq)]
pub enum Tier {
    Quick,
    Thorough,
}

impl Tier {
    pub fn name(self) -> &'static str {
        match self {
            Tier::Quick => "quick",
            Tier::Thorough => "thorough",
        }
    }
    /// Pick by tier.
    pub fn pick<T>(self, quick: T, thorough: T) -> T {
        match self {
            Tier::Quick => quick,
            Tier::Thorough => thorough,
        }
    }
}

/// Where /verif lives (the harness is always started by `/verif/check`, which sets VERIF_ROOT).
pub fn verif_root() -> PathBuf {
    std::env::var_os("VERIF_ROOT")
        .map(PathBuf::from)
        .unwrap_or_else(|| PathBuf::from("/verif"))
}

pub fn repo_root() -> PathBuf {
    std::env::var_os("VERIF_REPO")
        .map(PathBuf::from)
        .unwrap_or_else(|| PathBuf::from("/repo"))
}

#[derive(Debug)]
pub struct Ctx {
    pub prop: &'static str,
    pub level: &'static str,
    pub tier: Tier,
    pub seed: u64,
    pub threads: usize,
    pub start: Instant,
}

impl Ctx {
    pub fn new(prop: &'static str, level: &'static str, tier: Tier, seed: u64) -> Self {
        let threads = std::env::var("VERIF_THREADS")
            .ok()
            .and_then(|s| s.parse().ok())
            .unwrap_or_else(|| match tier {
                Tier::Quick => 16,
                Tier::Thorough => 16,
            });
        Ctx {
            prop,
            level,
            tier,
            seed,
            threads,
            start: Instant::now(),
        }
    }
    /// A sub-seed for a named lane / shard: pure function of (VERIF_SEED, lane, shard).
    pub fn subseed(&self, lane: &str, shard: u64) -> u64 {
        let mut h = Fnv::default();
        self.seed.hash(&mut h);
        lane.hash(&mut h);
        shard.hash(&mut h);
        h.finish()
    }
}

/// FNV-1a: a fixed, platform independent hasher (std's SipHash keys are fixed too, but this keeps
/// case hashes stable across toolchains).
#[derive(Clone)]
pub struct Fnv(u64);
impl Default for Fnv {
    fn default() -> Self {
        Fnv(0xcbf29ce484222325)
    }
}
impl Hasher for Fnv {
    fn finish(&self) -> u64 {
        self.0
    }
    fn write(&mut self, bytes: &[u8]) {
        for b in bytes {
            self.0 ^= *b as u64;
            self.0 = self.0.wrapping_mul(0x100000001b3);
        }
    }
}

pub fn hash_of<T: Hash + ?Sized>(t: &T) -> u64 {
    let mut h = Fnv::default();
    t.hash(&mut h);
    h.finish()
}

/// Counters collected while exploring. One per shard; merged at the end.
#[derive(Debug, Default, Clone, serde::Serialize, serde::Deserialize)]
pub struct Stats {
    pub evaluations: u64,
    pub nontrivial: HashSet<u64>,
    pub classes: BTreeMap<String, u64>,
    pub samples: Vec<Value>,
    pub excluded_known: BTreeMap<String, u64>,
    pub notes: BTreeMap<String, Value>,
    /// Named coverage sets (merged by union), e.g. the free-space values met.
    pub sets: BTreeMap<String, std::collections::BTreeSet<u64>>,
    /// Set when a failure was seen: proptest re-runs the closure while shrinking and those runs
    /// must not be counted.
    pub frozen: bool,
}

pub const MAX_SAMPLES: usize = 8;

impl Stats {
    pub fn eval(&mut self) {
        if !self.frozen {
            self.evaluations += 1;
        }
    }
    pub fn evals(&mut self, n: u64) {
        if !self.frozen {
            self.evaluations += n;
        }
    }
    pub fn class(&mut self, name: &str) {
        if !self.frozen {
            *self.classes.entry(name.to_string()).or_insert(0) += 1;
        }
    }
    pub fn class_n(&mut self, name: &str, n: u64) {
        if !self.frozen {
            *self.classes.entry(name.to_string()).or_insert(0) += n;
        }
    }
    pub fn nontrivial_hash(&mut self, h: u64) {
        if !self.frozen {
            self.nontrivial.insert(h);
        }
    }
    pub fn nontrivial<T: Hash + ?Sized>(&mut self, t: &T) {
        if !self.frozen {
            self.nontrivial.insert(hash_of(t));
        }
    }
    pub fn cover(&mut self, set: &str, v: u64) {
        if !self.frozen {
            self.sets.entry(set.to_string()).or_default().insert(v);
        }
    }
    pub fn excluded(&mut self, sig: &str) {
        if !self.frozen {
            *self.excluded_known.entry(sig.to_string()).or_insert(0) += 1;
        }
    }
    /// Keep a few literal samples; prefers to keep a spread (first ones of each call site).
    pub fn sample(&mut self, v: impl FnOnce() -> Value) {
        if !self.frozen && self.samples.len() < MAX_SAMPLES {
            self.samples.push(v());
        }
    }
    pub fn merge(&mut self, other: Stats) {
        self.evaluations += other.evaluations;
        self.nontrivial.extend(other.nontrivial);
        for (k, v) in other.classes {
            *self.classes.entry(k).or_insert(0) += v;
        }
        for (k, v) in other.excluded_known {
            *self.excluded_known.entry(k).or_insert(0) += v;
        }
        for s in other.samples {
            if self.samples.len() < MAX_SAMPLES * 2 {
                self.samples.push(s);
            }
        }
        for (k, v) in other.notes {
            self.notes.entry(k).or_insert(v);
        }
        for (k, v) in other.sets {
            self.sets.entry(k).or_default().extend(v);
        }
    }
}

/// A violation found by a check: a root-cause signature, the (shrunk) case and what went wrong.
#[derive(Debug, Clone, serde::Serialize, serde::Deserialize)]
pub struct Violation {
    pub sig: String,
    pub lane: String,
    pub case: Value,
    pub message: String,
}

/// A known finding listed in /verif/KNOWN_FINDINGS.txt.
#[derive(Debug, Clone)]
pub struct Known {
    pub property: String,
    pub sig: String,
    pub text: String,
}

/// Parse KNOWN_FINDINGS.txt. Lines: `known: property=C11 sig=<sig> <text>`; `fixed:` lines and
/// comments are ignored (a fixed entry suppresses nothing).
pub fn load_known(prop: &str) -> Vec<Known> {
    let path = verif_root().join("KNOWN_FINDINGS.txt");
    let Ok(text) = std::fs::read_to_string(&path) else {
        return Vec::new();
    };
    let mut out = Vec::new();
    for line in text.lines() {
        let line = line.trim();
        let Some(rest) = line.strip_prefix("known:") else {
            continue;
        };
        let mut property = None;
        let mut sig = None;
        let mut words = rest.split_whitespace().peekable();
        let mut text_words = Vec::new();
        while let Some(w) = words.next() {
            if let Some(p) = w.strip_prefix("property=") {
                property = Some(p.to_string());
            } else if let Some(s) = w.strip_prefix("sig=") {
                sig = Some(s.to_string());
            } else {
                text_words.push(w);
                text_words.extend(words.by_ref());
            }
        }
        if let (Some(property), Some(sig)) = (property, sig) {
            if property == prop {
                out.push(Known {
                    property,
                    sig,
                    text: text_words.join(" "),
                });
            }
        }
    }
    out
}

/// Final report of a check run: writes evidence, replay files, prints the verdict lines and returns
/// the process exit code.
pub struct Report {
    pub rule: String,
    pub assumptions: Vec<String>,
    pub exhaustive: bool,
    pub extra: BTreeMap<String, Value>,
}

impl Report {
    pub fn new(rule: &str) -> Self {
        Report {
            rule: rule.to_string(),
            assumptions: Vec::new(),
            exhaustive: false,
            extra: BTreeMap::new(),
        }
    }
    pub fn assume(mut self, a: &str) -> Self {
        self.assumptions.push(a.to_string());
        self
    }
    pub fn extra(mut self, k: &str, v: Value) -> Self {
        self.extra.insert(k.to_string(), v);
        self
    }
    pub fn exhaustive(mut self, e: bool) -> Self {
        self.exhaustive = e;
        self
    }

    /// `known_hits`: signatures of known findings whose witness reproduced in this run.
    pub fn finish(
        self,
        ctx: &Ctx,
        stats: &Stats,
        violations: &[Violation],
        known_hits: &[(Known, String)],
    ) -> i32 {
        // Mutation probes (tools/probe.sh sets VERIF_PROBE) run against a deliberately broken tree:
        // their evidence and replay files go to work/probe/, never to the tracked locations.
        let root = if std::env::var_os("VERIF_PROBE").is_some() { verif_root().join("work").join("probe") } else { verif_root() };
        // De-duplicate violations by signature; keep the smallest case per signature.
        let mut by_sig: BTreeMap<String, &Violation> = BTreeMap::new();
        for v in violations {
            let e = by_sig.entry(v.sig.clone()).or_insert(v);
            if v.case.to_string().len() < e.case.to_string().len() {
                *e = v;
            }
        }
        let mut replay_paths = Vec::new();
        for v in by_sig.values() {
            let dir = root.join("replays").join(ctx.prop);
            let _ = std::fs::create_dir_all(&dir);
            let body = json!({
                "property": ctx.prop,
                "lane": v.lane,
                "sig": v.sig,
                "message": v.message,
                "seed": ctx.seed,
                "tier": ctx.tier.name(),
                "case": v.case,
            });
            let h = hash_of(&format!("{}|{}|{}", v.lane, v.sig, v.case));
            let path = dir.join(format!("viol-{:016x}.json", h));
            let _ = std::fs::write(&path, serde_json::to_vec_pretty(&body).unwrap());
            replay_paths.push((v.sig.clone(), v.message.clone(), path));
        }

        let mut coverage = serde_json::Map::new();
        coverage.insert("evaluations".into(), json!(stats.evaluations));
        coverage.insert("distinct_nontrivial".into(), json!(stats.nontrivial.len()));
        coverage.insert("rule".into(), json!(self.rule));
        coverage.insert("samples".into(), json!(stats.samples));
        coverage.insert("exhaustive".into(), json!(self.exhaustive));
        coverage.insert("classes".into(), json!(stats.classes));
        coverage.insert("excluded_known".into(), json!(stats.excluded_known));
        coverage.insert(
            "known_findings_reproduced".into(),
            json!(known_hits
                .iter()
                .map(|(k, what)| json!({"sig": k.sig, "what": what}))
                .collect::<Vec<_>>()),
        );
        for (k, v) in &stats.notes {
            coverage.insert(k.clone(), v.clone());
        }
        for (k, v) in &stats.sets {
            coverage.insert(format!("covered_{k}"), json!(v.len()));
        }
        for (k, v) in self.extra {
            coverage.insert(k, v);
        }
        let evidence = json!({
            "property_id": ctx.prop,
            "tier": ctx.tier.name(),
            "seed": ctx.seed,
            "level": ctx.level,
            "coverage": Value::Object(coverage),
            "assumptions": self.assumptions,
            "wall_s": ctx.start.elapsed().as_secs_f64(),
            "violations": by_sig.len(),
            "violation_signatures": by_sig.keys().collect::<Vec<_>>(),
        });
        let evdir = root.join("evidence");
        let _ = std::fs::create_dir_all(&evdir);
        let evpath = evdir.join(format!("{}.json", ctx.prop));
        std::fs::write(&evpath, serde_json::to_vec_pretty(&evidence).unwrap())
            .expect("write evidence");

        for (k, what) in known_hits {
            println!("KNOWN-FINDING: property={} sig={} {}", ctx.prop, k.sig, what);
        }
        println!(
            "{} {} seed={} evaluations={} distinct_nontrivial={} wall={:.1}s",
            ctx.prop,
            ctx.tier.name(),
            ctx.seed,
            stats.evaluations,
            stats.nontrivial.len(),
            ctx.start.elapsed().as_secs_f64()
        );
        for (k, v) in &stats.classes {
            println!("  class {k}: {v}");
        }
        for (k, v) in &stats.excluded_known {
            println!("  excluded_known {k}: {v}");
        }
        for (k, v) in &stats.sets {
            println!("  covered {k}: {} distinct values", v.len());
        }
        if replay_paths.is_empty() {
            println!("OK property={}", ctx.prop);
            0
        } else {
            for (sig, msg, path) in &replay_paths {
                println!("  violation sig={sig}: {msg}");
                println!("VIOLATION property={} replay={}", ctx.prop, path.display());
            }
            1
        }
    }
}

/// Read a replay file and return (lane, case).
pub fn read_replay(path: &Path) -> Result<(String, Value), String> {
    let text = std::fs::read_to_string(path).map_err(|e| format!("{}: {e}", path.display()))?;
    let v: Value = serde_json::from_str(&text).map_err(|e| format!("{}: {e}", path.display()))?;
    let lane = v["lane"].as_str().unwrap_or("").to_string();
    Ok((lane, v["case"].clone()))
}

/// Bytes for humans in samples / replay messages: lossy UTF-8 with NUL shown as `\0`.
pub fn show_bytes(b: &[u8]) -> String {
    let mut s = String::new();
    for &c in b {
        match c {
            0 => s.push_str("\\0"),
            b'\\' => s.push_str("\\\\"),
            0x20..=0x7e => s.push(c as char),
            _ => s.push_str(&format!("\\x{c:02x}")),
        }
    }
    s
}

pub fn truncate(s: &str, n: usize) -> String {
    if s.len() <= n {
        s.to_string()
    } else {
        let mut end = n;
        while !s.is_char_boundary(end) {
            end -= 1;
        }
        format!("{}…(+{} bytes)", &s[..end], s.len() - end)
    }
}
