//! proptest strategies and enumerators for server scenarios (C08, C09, C10, C18).

use proptest::prelude::*;

use crate::{
    frames::{chunk_plan_strategy, resolve_cuts, ChunkPlan},
    srv::*,
};

/// What a scenario generator may use.
#[derive(Debug, Clone, Copy)]
pub struct Features {
    pub max_conns: usize,
    pub max_calls: usize,
    pub oneway: bool,
    pub subs: bool,
    pub faults: bool,
}

#[derive(Debug, Clone)]
pub struct RawCall {
    pub kind: u8,
    pub oneway: bool,
    pub pad: u16,
    pub flags_first: bool,
    pub fault: Option<u8>,
    pub soup: (u16, u16),
}

fn raw_call_strategy(f: Features) -> impl Strategy<Value = RawCall> {
    (
        0u8..8,
        prop::bool::weighted(0.3).prop_map(move |b| b && f.oneway),
        prop_oneof![5 => 0u16..6, 1 => 150u16..300, 1 => 0u16..600],
        any::<bool>(),
        // index FAULT_KINDS.len() and above = a generated undecodable frame
        prop::option::weighted(0.12, 0u8..FAULT_KINDS.len() as u8 + 4).prop_map(move |o| o.filter(|_| f.faults)),
        (any::<u16>(), prop_oneof![3 => 0u16..40, 3 => 40u16..130, 2 => 130u16..400, 1 => 400u16..900]),
    )
        .prop_map(|(kind, oneway, pad, flags_first, fault, soup)| RawCall { kind, oneway, pad, flags_first, fault, soup })
}

fn resolve_frames(raw: &[RawCall], f: Features) -> Vec<FrameSpec> {
    raw.iter()
        .enumerate()
        .map(|(i, r)| {
            if let Some(k) = r.fault {
                return FrameSpec::Fault(match FAULT_KINDS.get(k as usize) {
                    Some(k) => *k,
                    None => FaultKind::Soup { seed: r.soup.0, len: r.soup.1 },
                });
            }
            let kind = match r.kind {
                0 | 1 | 2 => CallKind::Echo,
                3 | 4 => CallKind::Noop,
                5 => CallKind::Fail,
                _ if f.subs => CallKind::Sub,
                _ => CallKind::Echo,
            };
            let sub = kind == CallKind::Sub;
            FrameSpec::Call {
                kind,
                id: i as u32,
                // a streaming call may be flagged oneway too (about one Sub in seven): the service still
                // answers with a stream, which the server has to discard
                oneway: r.oneway && (!sub || r.flags_first),
                // a client may also ask for `more` from a method that answers with a single reply
                // (also together with oneway)
                more: sub || r.soup.0 % 6 == 0,
                pad: r.pad,
                flags_first: r.flags_first,
            }
        })
        .collect()
}

#[derive(Debug, Clone)]
pub struct RawConn {
    pub calls: Vec<RawCall>,
    pub plan: ChunkPlan,
    pub end: u8,
    pub truncate_last: bool,
    pub write_fail: Option<u8>,
}

fn raw_conn_strategy(f: Features) -> impl Strategy<Value = RawConn> {
    (
        prop::collection::vec(raw_call_strategy(f), 0..=f.max_calls),
        chunk_plan_strategy(),
        // without faults a client may still finish and hang up cleanly after its last call (4 = EOF)
        if f.faults { (0u8..6).boxed() } else { prop_oneof![3 => Just(0u8), 1 => Just(4u8)].boxed() },
        prop::bool::weighted(0.2).prop_map(move |b| b && f.faults),
        prop::option::weighted(0.15, 0u8..6).prop_map(move |o| o.filter(|_| f.faults)),
    )
        .prop_map(|(calls, plan, end, truncate_last, write_fail)| RawConn { calls, plan, end, truncate_last, write_fail })
}

pub fn resolve_conn(c: usize, raw: &RawConn, f: Features) -> ConnScript {
    let mut s = ConnScript {
        frames: resolve_frames(&raw.calls, f),
        cuts: vec![],
        end: match raw.end {
            4 => ConnEnd::Eof,
            5 => ConnEnd::ReadErr,
            _ => ConnEnd::Open,
        },
        truncate_last: raw.truncate_last,
        write_fail_from: raw.write_fail.map(|k| k as usize),
    };
    if s.frames.is_empty() {
        s.truncate_last = false;
    }
    s.cuts = resolve_cuts(&raw.plan, &s.stream(c));
    s
}

/// Raw steps: (selector, connection selector, extra).
pub fn resolve_steps(raw: &[(u8, u8, u8)], conns: &[ConnScript], f: Features) -> Vec<Step> {
    let n = conns.len().max(1);
    raw.iter()
        .map(|&(sel, cs, extra)| {
            let c = cs as usize % n;
            match sel % 10 {
                0 => Step::Arrive(c),
                1..=4 => Step::Chunk(c),
                5 | 6 if f.subs => {
                    // pick one of the connection's Sub calls
                    let subs: Vec<u32> = conns[c]
                        .frames
                        .iter()
                        .filter_map(|fr| match fr {
                            FrameSpec::Call { kind: CallKind::Sub, id, .. } => Some(*id),
                            _ => None,
                        })
                        .collect();
                    if subs.is_empty() {
                        Step::Poll
                    } else {
                        let id = subs[extra as usize % subs.len()];
                        if sel % 10 == 5 || extra % 3 != 0 {
                            Step::Push { c, id, continues: match extra % 4 { 0 => None, 1 => Some(false), _ => Some(true) } }
                        } else {
                            Step::End { c, id }
                        }
                    }
                }
                _ => Step::Poll,
            }
        })
        .collect()
}

pub fn scenario_strategy(f: Features) -> impl Strategy<Value = Scenario> {
    (
        prop::collection::vec(raw_conn_strategy(f), 1..=f.max_conns),
        prop::collection::vec((any::<u8>(), any::<u8>(), any::<u8>()), 0..40),
        // closing stream events so that most streams end eventually
        prop::collection::vec((any::<u8>(), any::<u8>()), 0..8),
    )
        .prop_map(move |(raw_conns, raw_steps, closing)| assemble(f, &raw_conns, &raw_steps, &closing))
}

/// Build a scenario from raw generated values (shared by the proptest strategy above and by the
/// byte decoder of the `srv_sim` fuzz target).
pub fn assemble(f: Features, raw_conns: &[RawConn], raw_steps: &[(u8, u8, u8)], closing: &[(u8, u8)]) -> Scenario {
    {
        {
            let conns: Vec<ConnScript> = raw_conns.iter().enumerate().map(|(c, r)| resolve_conn(c, r, f)).collect();
            let mut steps = resolve_steps(raw_steps, &conns, f);
            if f.subs {
                // After the random part: deliver everything, then push/end every stream in some order
                for c in 0..conns.len() {
                    for _ in 0..conns[c].cuts.len() + 1 {
                        steps.push(Step::Chunk(c));
                    }
                }
                steps.push(Step::Poll);
                let mut subs: Vec<(usize, u32)> = Vec::new();
                for (c, s) in conns.iter().enumerate() {
                    for fr in &s.frames {
                        if let FrameSpec::Call { kind: CallKind::Sub, id, .. } = fr {
                            subs.push((c, *id));
                        }
                    }
                }
                for (i, &(a, b)) in closing.iter().enumerate() {
                    if subs.is_empty() {
                        break;
                    }
                    let (c, id) = subs[a as usize % subs.len()];
                    if b % 3 == 0 {
                        steps.push(Step::End { c, id });
                    } else {
                        steps.push(Step::Push { c, id, continues: if b % 2 == 0 { Some(true) } else { None } });
                    }
                    if i % 2 == 1 {
                        steps.push(Step::Poll);
                    }
                }
                // end all but possibly one stream
                let keep_open = closing.first().map(|x| x.1 % 4 == 0).unwrap_or(false);
                for (i, &(c, id)) in subs.iter().enumerate() {
                    if keep_open && i == 0 {
                        continue;
                    }
                    steps.push(Step::End { c, id });
                    steps.push(Step::Poll);
                }
            }
            Scenario { conns, steps }
        }
    }
}

/// All interleavings of the given per-connection event counts: sequences over connection indexes in
/// which connection i occurs `counts[i]` times.
pub fn interleavings(counts: &[usize]) -> Vec<Vec<usize>> {
    fn rec(left: &mut Vec<usize>, cur: &mut Vec<usize>, out: &mut Vec<Vec<usize>>) {
        if left.iter().all(|&x| x == 0) {
            out.push(cur.clone());
            return;
        }
        for i in 0..left.len() {
            if left[i] > 0 {
                left[i] -= 1;
                cur.push(i);
                rec(left, cur, out);
                cur.pop();
                left[i] += 1;
            }
        }
    }
    let mut out = Vec::new();
    rec(&mut counts.to_vec(), &mut Vec::new(), &mut out);
    out
}
