//! Shared machinery of the zlink verification harness (see /verif/DESIGN.md §2.1).

pub mod alloc;
pub mod drv;
pub mod ev;
pub mod exec;
pub mod frames;
pub mod idl;
pub mod rx;
pub mod sim;
pub mod srv;
pub mod srvgen;
pub mod tx;
pub mod types;
