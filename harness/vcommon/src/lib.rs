//! Shared machinery of the zlink verification harness (see /verif/DESIGN.md §2.1).

pub mod alloc;
pub mod drv;
pub mod ev;
pub use vsim::exec;
pub mod frames;
pub mod idl;
pub mod rx;
pub use vsim::sim;
pub mod srv;
pub mod srvgen;
pub mod tx;
pub mod types;
