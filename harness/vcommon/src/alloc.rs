//! A global allocator that can be switched into *quarantine* mode: freed blocks are filled with
//! 0xDD and never handed out again, and `realloc` always moves. With that, a dangling or stale
//! slice into a connection's receive buffer reads poison deterministically instead of whatever the
//! system allocator left there. Off by default (plain system allocator); C11 switches it on.

use std::{
    alloc::{GlobalAlloc, Layout, System},
    sync::atomic::{AtomicBool, AtomicUsize, Ordering},
};

pub static QUARANTINE: AtomicBool = AtomicBool::new(false);
pub static QUARANTINED_BYTES: AtomicUsize = AtomicUsize::new(0);
/// Stop quarantining (fall back to normal frees) beyond this many bytes.
pub const QUARANTINE_LIMIT: usize = 3 << 30;

pub struct VerifAlloc;

fn quarantined(size: usize) -> bool {
    // Only blocks that can be a zlink receive buffer (256-byte granularity, at least 256 bytes).
    size >= 256 && size % 256 == 0 && size <= (1 << 20)
}

unsafe impl GlobalAlloc for VerifAlloc {
    unsafe fn alloc(&self, layout: Layout) -> *mut u8 {
        System.alloc(layout)
    }
    unsafe fn alloc_zeroed(&self, layout: Layout) -> *mut u8 {
        System.alloc_zeroed(layout)
    }
    unsafe fn dealloc(&self, ptr: *mut u8, layout: Layout) {
        if QUARANTINE.load(Ordering::Relaxed)
            && quarantined(layout.size())
            && QUARANTINED_BYTES.load(Ordering::Relaxed) < QUARANTINE_LIMIT
        {
            std::ptr::write_bytes(ptr, 0xDD, layout.size());
            QUARANTINED_BYTES.fetch_add(layout.size(), Ordering::Relaxed);
            return; // leaked on purpose
        }
        System.dealloc(ptr, layout)
    }
    unsafe fn realloc(&self, ptr: *mut u8, layout: Layout, new_size: usize) -> *mut u8 {
        if QUARANTINE.load(Ordering::Relaxed) && quarantined(layout.size()) {
            let new_layout = Layout::from_size_align_unchecked(new_size, layout.align());
            let new = System.alloc(new_layout);
            if !new.is_null() {
                std::ptr::copy_nonoverlapping(ptr, new, layout.size().min(new_size));
                self.dealloc(ptr, layout);
            }
            return new;
        }
        System.realloc(ptr, layout, new_size)
    }
}
