//! Sending side: message specs with a dialled encoded length, refused messages, reference
//! encodings, and a model of the write buffer used only to *aim* sizes (never as an oracle).

use std::collections::BTreeMap;

use serde::{ser::SerializeMap, Deserialize, Serialize};
use zlink_core::{
    connection::{socket::WriteHalf, WriteConnection},
    Call, Reply,
};

use crate::types::*;

/// Growth step and initial size of zlink's write buffer (only used for aiming and classification).
pub const STEP: usize = 256;

#[derive(Debug, Clone, Copy, PartialEq, Eq, Hash, Serialize, Deserialize)]
pub enum MsgKind {
    /// `Call<MethodA::Echo>` (borrowed string field).
    CallEcho,
    /// `Call<MethodA::Put>` (owned string with every escape class, vector, Cow).
    CallPut,
    /// `Call<MethodA::Ping>` with flags only (fixed, short).
    CallPing,
    /// `Reply<OptParams>`.
    ReplyOpt,
    /// `Reply<serde_json::Value>`.
    ReplyValue,
    /// `ErrA::Worse`.
    ErrWorse,
    /// `ErrA::Bad` (fixed, short).
    ErrBad,
    /// `Reply<Shapes>`: a derived struct that walks through the serde data model (every variant
    /// kind incl. a struct variant whose fields are all skipped, non-finite floats, 128-bit
    /// integers, chars, integer-keyed maps, unit, tuples, bytes-like sequences), selected by flags.
    ReplyShapes,
}

pub const MSG_KINDS: [MsgKind; 8] = [
    MsgKind::CallEcho,
    MsgKind::CallPut,
    MsgKind::CallPing,
    MsgKind::ReplyOpt,
    MsgKind::ReplyValue,
    MsgKind::ErrWorse,
    MsgKind::ErrBad,
    MsgKind::ReplyShapes,
];

/// Externally tagged enum with every variant kind (names include one that needs escaping).
#[derive(Debug, Clone, PartialEq, Serialize)]
pub enum ShapeVar {
    Unit,
    #[serde(rename = "say \"hi\"\\\n")]
    Quoted,
    Newtype(i64),
    Tuple(u8, String),
    Struct {
        #[serde(skip_serializing_if = "Option::is_none")]
        a: Option<i32>,
        #[serde(skip_serializing_if = "Option::is_none")]
        b: Option<String>,
    },
    Empty {},
}

#[derive(Debug, Clone, PartialEq, Serialize)]
pub struct UnitStruct;

/// Newtype structs used as map keys (a key behind a newtype is still a key).
#[derive(Debug, Clone, PartialEq, Eq, PartialOrd, Ord, Serialize)]
pub struct SlotId(pub u32);
#[derive(Debug, Clone, PartialEq, Eq, PartialOrd, Ord, Serialize)]
pub struct NameKey(pub String);

/// Serialized with `Serializer::collect_str`; its `Display` writes three pieces.
#[derive(Debug, Clone, PartialEq)]
pub struct ScopedId(pub String, pub u32);
impl std::fmt::Display for ScopedId {
    fn fmt(&self, f: &mut std::fmt::Formatter<'_>) -> std::fmt::Result {
        use std::fmt::Write;
        f.write_str(&self.0)?;
        f.write_char('#')?;
        write!(f, "{}", self.1)
    }
}
impl Serialize for ScopedId {
    fn serialize<S: serde::Serializer>(&self, s: S) -> Result<S::Ok, S::Error> {
        s.collect_str(self)
    }
}

/// Serialized with `Serializer::serialize_bytes` (what `serde_bytes` wrappers do).
#[derive(Debug, Clone, PartialEq)]
pub struct Blob(pub Vec<u8>);
impl Serialize for Blob {
    fn serialize<S: serde::Serializer>(&self, s: S) -> Result<S::Ok, S::Error> {
        s.serialize_bytes(&self.0)
    }
}

#[derive(Debug, Clone, PartialEq, Serialize)]
pub struct Shapes {
    pub pad: String,
    pub blob: Blob,
    pub id: ScopedId,
    pub addr: Vec<std::net::IpAddr>,
    pub f: f64,
    pub g: f32,
    pub var: ShapeVar,
    pub vars: Vec<ShapeVar>,
    pub wide: (i128, u128),
    pub c: char,
    pub keys: BTreeMap<i16, bool>,
    pub ckeys: BTreeMap<char, ()>,
    pub nkeys: BTreeMap<SlotId, u8>,
    pub skeys: BTreeMap<NameKey, i8>,
    pub unit: (),
    pub us: UnitStruct,
    pub nested: Option<Option<u8>>,
    pub arr: [u8; 3],
    #[serde(skip_serializing_if = "Vec::is_empty")]
    pub skipped: Vec<u8>,
    /// the last thing in the frame: a byte string of small values (two characters each)
    pub tail: Blob,
}

pub fn shapes(pad: String, flags: u8) -> Shapes {
    let f = [1.5f64, f64::NAN, f64::INFINITY, f64::NEG_INFINITY, -0.0, 1e300, 5e-324, 0.1][(flags & 7) as usize];
    let g = [0.25f32, f32::NAN, f32::NEG_INFINITY, 3.4028235e38][((flags >> 3) & 3) as usize];
    let var = match (flags >> 5) & 7 {
        0 => ShapeVar::Unit,
        1 => ShapeVar::Quoted,
        2 => ShapeVar::Newtype(i64::MIN),
        3 => ShapeVar::Tuple(255, "t\u{7f}\u{0}".into()),
        4 => ShapeVar::Struct { a: None, b: None },
        5 => ShapeVar::Struct { a: Some(-1), b: None },
        6 => ShapeVar::Struct { a: None, b: Some("\u{2028}".into()) },
        _ => ShapeVar::Empty {},
    };
    Shapes {
        blob: Blob((0..[0usize, 5, 33, 200][(flags as usize / 5) % 4]).map(|i| (i as u8).wrapping_mul(flags | 1)).collect()),
        // the first piece is longer than a fresh write buffer in one case of four
        id: ScopedId(if flags & 3 == 3 { "s".repeat(300) } else { format!("scope\"{}", flags) }, flags as u32),
        addr: if flags & 16 != 0 { vec![std::net::IpAddr::from([127, 0, 0, flags]), std::net::IpAddr::from([0u16, 0, 0, 0, 0, 0xffff, 0x7f00, flags as u16])] } else { vec![] },
        pad,
        f,
        g,
        var,
        vars: if flags & 1 != 0 { vec![ShapeVar::Empty {}, ShapeVar::Struct { a: None, b: None }, ShapeVar::Quoted] } else { vec![] },
        wide: (i128::MIN + flags as i128, u128::MAX - flags as u128),
        c: ['a', '"', '\\', '\u{1f}', '\u{e9}', '\u{1F600}', '\u{0}', '/'][(flags as usize * 3) % 8],
        keys: if flags & 2 != 0 { BTreeMap::from([(-32768, true), (0, false), (flags as i16, true)]) } else { BTreeMap::new() },
        ckeys: if flags & 4 != 0 { BTreeMap::from([('"', ()), ('\u{1}', ())]) } else { BTreeMap::new() },
        nkeys: if flags & 8 != 0 { BTreeMap::from([(SlotId(7), 1), (SlotId(u32::MAX), flags)]) } else { BTreeMap::new() },
        skeys: if flags & 32 != 0 { BTreeMap::from([(NameKey("a\"b".into()), -1)]) } else { BTreeMap::new() },
        unit: (),
        us: UnitStruct,
        nested: [None, Some(None), Some(Some(7))][flags as usize % 3],
        arr: [flags, 0, 255],
        skipped: if flags & 16 != 0 { vec![1] } else { vec![] },
        tail: Blob(if flags & 15 == 15 { (0..120u8).map(|i| i % 10).collect() } else { vec![] }),
    }
}

#[derive(Debug, Clone, Copy, PartialEq, Eq, Hash, Serialize, Deserialize)]
pub enum RefusedKind {
    BoolKey,
    FloatKey,
    TupleKey,
    OptionKey,
    CustomError,
    /// Fails only after a long, valid prefix has been written (forces growth first).
    LateBoolKey,
}

pub const REFUSED_KINDS: [RefusedKind; 6] = [
    RefusedKind::BoolKey,
    RefusedKind::FloatKey,
    RefusedKind::TupleKey,
    RefusedKind::OptionKey,
    RefusedKind::CustomError,
    RefusedKind::LateBoolKey,
];

/// A concrete message: kind + padding length + flags. `pad` ASCII characters go into a string
/// member, so the encoded length is `base_len(kind, flags) + pad`.
#[derive(Debug, Clone, PartialEq, Eq, Hash, Serialize, Deserialize)]
pub enum Msg {
    Ok { kind: MsgKind, flags: u8, pad: usize },
    Refused { kind: RefusedKind, pad: usize },
}

fn pad_str(n: usize) -> String {
    let alphabet = b"abcdefghijklmnopqrstuvwxyz0123456789";
    (0..n).map(|i| alphabet[i % alphabet.len()] as char).collect()
}

const ESCAPES: &str = "q\"b\\s/ctl\u{0}\u{1}\u{8}\t\n\u{c}\r\u{1f}\u{7f}\u{e9}\u{2028}\u{ffff}\u{1F600}";

struct FailingSerialize;
impl Serialize for FailingSerialize {
    fn serialize<S: serde::Serializer>(&self, _s: S) -> Result<S::Ok, S::Error> {
        Err(serde::ser::Error::custom("refused by the value"))
    }
}

struct LateBadKey<'a>(&'a str);
impl Serialize for LateBadKey<'_> {
    fn serialize<S: serde::Serializer>(&self, s: S) -> Result<S::Ok, S::Error> {
        let mut m = s.serialize_map(None)?;
        m.serialize_entry("pad", self.0)?;
        m.serialize_entry(&true, &1)?;
        m.end()
    }
}

impl Msg {
    pub fn is_refused(&self) -> bool {
        matches!(self, Msg::Refused { .. })
    }

    /// Reference encoding (`serde_json::to_vec`), or `None` if the message must be refused.
    pub fn expected(&self) -> Option<Vec<u8>> {
        match *self {
            Msg::Refused { .. } => None,
            Msg::Ok { kind, flags, pad } => Some(self.with_value(kind, flags, pad, |v| match v {
                Val::Call(c) => serde_json::to_vec(c).unwrap(),
                Val::ReplyOpt(r) => serde_json::to_vec(r).unwrap(),
                Val::ReplyValue(r) => serde_json::to_vec(r).unwrap(),
                Val::Err(e) => serde_json::to_vec(e).unwrap(),
                Val::ReplyShapes(r) => serde_json::to_vec(r).unwrap(),
            })),
        }
    }

    pub fn encoded_len(&self) -> Option<usize> {
        self.expected().map(|v| v.len())
    }

    fn with_value<R>(&self, kind: MsgKind, flags: u8, pad: usize, f: impl FnOnce(Val<'_>) -> R) -> R {
        let p = pad_str(pad);
        match kind {
            MsgKind::CallEcho => {
                let c = Call::new(MethodA::Echo { s: &p, n: flags as i64 - 7 })
                    .set_oneway(flags & 1 != 0)
                    .set_more(flags & 2 != 0)
                    .set_upgrade(flags & 4 != 0);
                f(Val::Call(&c))
            }
            MsgKind::CallPut => {
                let key = if flags & 8 != 0 {
                    format!("{ESCAPES}{p}")
                } else {
                    p.clone()
                };
                let c = Call::new(MethodA::Put {
                    key,
                    val: if flags & 16 != 0 { Some(vec![1, -2, i64::MAX]) } else { None },
                    tag: std::borrow::Cow::Borrowed("t\u{e9}g"),
                })
                .set_oneway(flags & 1 != 0)
                .set_more(flags & 2 != 0);
                f(Val::Call(&c))
            }
            MsgKind::CallPing => {
                let c = Call::new(MethodA::Ping)
                    .set_oneway(flags & 1 != 0)
                    .set_more(flags & 2 != 0)
                    .set_upgrade(flags & 4 != 0);
                f(Val::Call(&c))
            }
            MsgKind::ReplyOpt => {
                let r = Reply::new(Some(OptParams {
                    name: Some(p),
                    n: if flags & 1 != 0 { Some(flags as i64) } else { None },
                }))
                .set_continues(match flags & 6 {
                    0 => None,
                    2 => Some(true),
                    _ => Some(false),
                });
                f(Val::ReplyOpt(&r))
            }
            MsgKind::ReplyValue => {
                let v = serde_json::json!({"pad": p, "esc": if flags & 8 != 0 { ESCAPES } else { "" }, "list": [1, 2.5, null, true], "nested": {"a": {"b": []}}});
                let r = Reply::new(if flags & 1 != 0 { None } else { Some(v) })
                    .set_continues(if flags & 2 != 0 { Some(true) } else { None });
                f(Val::ReplyValue(&r))
            }
            MsgKind::ErrWorse => {
                let e = ErrA::Worse { code: flags as i64, msg: p };
                f(Val::Err(&e))
            }
            MsgKind::ErrBad => f(Val::Err(&ErrA::Bad)),
            MsgKind::ReplyShapes => {
                let r = Reply::new(Some(shapes(p, flags))).set_continues(if flags & 64 != 0 { Some(true) } else { None });
                f(Val::ReplyShapes(&r))
            }
        }
    }

    /// Can this kind be padded (length = base + pad)?
    pub fn paddable(kind: MsgKind) -> bool {
        !matches!(kind, MsgKind::CallPing | MsgKind::ErrBad)
    }

    /// Submit the message through the connection with operation `op`.
    pub async fn submit<W: WriteHalf>(
        &self,
        conn: &mut WriteConnection<W>,
        op: SendOp,
    ) -> zlink_core::Result<()> {
        match *self {
            Msg::Ok { kind, flags, pad } => {
                let p = pad_str(pad);
                // Values are rebuilt here (not through `with_value`) because the borrow must live
                // across the await.
                match kind {
                    MsgKind::CallEcho | MsgKind::CallPut | MsgKind::CallPing => {
                        let key;
                        let method = match kind {
                            MsgKind::CallEcho => MethodA::Echo { s: &p, n: flags as i64 - 7 },
                            MsgKind::CallPut => {
                                key = if flags & 8 != 0 { format!("{ESCAPES}{p}") } else { p.clone() };
                                MethodA::Put {
                                    key,
                                    val: if flags & 16 != 0 { Some(vec![1, -2, i64::MAX]) } else { None },
                                    tag: std::borrow::Cow::Borrowed("t\u{e9}g"),
                                }
                            }
                            _ => MethodA::Ping,
                        };
                        let upgrade = flags & 4 != 0 && kind != MsgKind::CallPut;
                        let c = Call::new(method)
                            .set_oneway(flags & 1 != 0)
                            .set_more(flags & 2 != 0)
                            .set_upgrade(upgrade);
                        match op {
                            SendOp::Enqueue => conn.enqueue_call(&c),
                            _ => conn.send_call(&c).await,
                        }
                    }
                    MsgKind::ReplyOpt => {
                        let r = Reply::new(Some(OptParams {
                            name: Some(p),
                            n: if flags & 1 != 0 { Some(flags as i64) } else { None },
                        }))
                        .set_continues(match flags & 6 {
                            0 => None,
                            2 => Some(true),
                            _ => Some(false),
                        });
                        conn.send_reply(&r).await
                    }
                    MsgKind::ReplyValue => {
                        let v = serde_json::json!({"pad": p, "esc": if flags & 8 != 0 { ESCAPES } else { "" }, "list": [1, 2.5, null, true], "nested": {"a": {"b": []}}});
                        let r = Reply::new(if flags & 1 != 0 { None } else { Some(v) })
                            .set_continues(if flags & 2 != 0 { Some(true) } else { None });
                        conn.send_reply(&r).await
                    }
                    MsgKind::ErrWorse => {
                        conn.send_error(&ErrA::Worse { code: flags as i64, msg: p }).await
                    }
                    MsgKind::ErrBad => conn.send_error(&ErrA::Bad).await,
                    MsgKind::ReplyShapes => {
                        let r = Reply::new(Some(shapes(p, flags))).set_continues(if flags & 64 != 0 { Some(true) } else { None });
                        conn.send_reply(&r).await
                    }
                }
            }
            Msg::Refused { kind, pad } => {
                let p = pad_str(pad);
                // A refused value travels as the `parameters` of a reply / as an error value / as
                // a call's method type, depending on `op`.
                macro_rules! go {
                    ($v:expr) => {{
                        let v = $v;
                        match op {
                            SendOp::Enqueue => conn.enqueue_call(&Call::new(RefusedMethod(&v))),
                            SendOp::SendCall => conn.send_call(&Call::new(RefusedMethod(&v))).await,
                            SendOp::SendReply => conn.send_reply(&Reply::new(Some(&v))).await,
                            SendOp::SendError => conn.send_error(&v).await,
                        }
                    }};
                }
                match kind {
                    RefusedKind::BoolKey => go!(BTreeMap::from([(true, p)])),
                    RefusedKind::FloatKey => go!(vec![(1.5f64, p)].into_iter().collect::<FloatKeyMap>()),
                    RefusedKind::TupleKey => go!(BTreeMap::from([((1, 2), p)])),
                    RefusedKind::OptionKey => go!(BTreeMap::from([(Some(1), p)])),
                    RefusedKind::CustomError => go!((p, FailingSerialize)),
                    RefusedKind::LateBoolKey => go!(LateBadKey(&p)),
                }
            }
        }
    }
}

/// Where a chain stands: not started yet (the connection itself) or under construction.
pub enum ChainState<'c, S: zlink_core::connection::socket::Socket> {
    Start(&'c mut zlink_core::Connection<S>),
    Going(zlink_core::connection::chain::Chain<'c, S, OptParams, ErrA>),
}

impl<'c, S: zlink_core::connection::socket::Socket> ChainState<'c, S> {
    fn step<M: Serialize + std::fmt::Debug>(
        self,
        call: &Call<M>,
    ) -> zlink_core::Result<zlink_core::connection::chain::Chain<'c, S, OptParams, ErrA>> {
        match self {
            ChainState::Start(c) => c.chain_call::<M, OptParams, ErrA>(call),
            ChainState::Going(ch) => ch.append(call),
        }
    }
}

impl Msg {
    /// Can this message be a member of a chain (a call, or a refused value travelling as a call)?
    pub fn chainable(&self) -> bool {
        match self {
            Msg::Ok { kind, .. } => matches!(kind, MsgKind::CallEcho | MsgKind::CallPut | MsgKind::CallPing),
            Msg::Refused { .. } => true,
        }
    }

    /// Start (`chain_call`) or extend (`append`) a chain with this message.
    pub fn chain_step<'c, S: zlink_core::connection::socket::Socket>(
        &self,
        state: ChainState<'c, S>,
    ) -> zlink_core::Result<zlink_core::connection::chain::Chain<'c, S, OptParams, ErrA>> {
        match *self {
            Msg::Ok { kind, flags, pad } => {
                let p = pad_str(pad);
                let method = match kind {
                    MsgKind::CallEcho => MethodA::Echo { s: &p, n: flags as i64 - 7 },
                    MsgKind::CallPut => MethodA::Put {
                        key: if flags & 8 != 0 { format!("{ESCAPES}{p}") } else { p.clone() },
                        val: if flags & 16 != 0 { Some(vec![1, -2, i64::MAX]) } else { None },
                        tag: std::borrow::Cow::Borrowed("t\u{e9}g"),
                    },
                    MsgKind::CallPing => MethodA::Ping,
                    other => panic!("{other:?} is not a call"),
                };
                let upgrade = flags & 4 != 0 && kind != MsgKind::CallPut;
                let c = Call::new(method).set_oneway(flags & 1 != 0).set_more(flags & 2 != 0).set_upgrade(upgrade);
                state.step(&c)
            }
            Msg::Refused { kind, pad } => {
                let p = pad_str(pad);
                macro_rules! go {
                    ($v:expr) => {{
                        let v = $v;
                        state.step(&Call::new(RefusedMethod(&v)))
                    }};
                }
                match kind {
                    RefusedKind::BoolKey => go!(BTreeMap::from([(true, p)])),
                    RefusedKind::FloatKey => go!(vec![(1.5f64, p)].into_iter().collect::<FloatKeyMap>()),
                    RefusedKind::TupleKey => go!(BTreeMap::from([((1, 2), p)])),
                    RefusedKind::OptionKey => go!(BTreeMap::from([(Some(1), p)])),
                    RefusedKind::CustomError => go!((p, FailingSerialize)),
                    RefusedKind::LateBoolKey => go!(LateBadKey(&p)),
                }
            }
        }
    }
}

/// Wraps a refused value as a call "method": `{"method": "org.example.R", "parameters": <v>}`.
#[derive(Debug)]
struct RefusedMethod<'a, T>(&'a T);
impl<T: Serialize> Serialize for RefusedMethod<'_, T> {
    fn serialize<S: serde::Serializer>(&self, s: S) -> Result<S::Ok, S::Error> {
        let mut m = s.serialize_map(Some(2))?;
        m.serialize_entry("method", "org.example.R")?;
        m.serialize_entry("parameters", self.0)?;
        m.end()
    }
}

impl std::fmt::Debug for FailingSerialize {
    fn fmt(&self, f: &mut std::fmt::Formatter<'_>) -> std::fmt::Result {
        f.write_str("FailingSerialize")
    }
}
impl std::fmt::Debug for LateBadKey<'_> {
    fn fmt(&self, f: &mut std::fmt::Formatter<'_>) -> std::fmt::Result {
        f.write_str("LateBadKey")
    }
}

/// A map with float keys (BTreeMap needs Ord, so a thin Vec wrapper).
#[derive(Debug)]
struct FloatKeyMap(Vec<(f64, String)>);
impl FromIterator<(f64, String)> for FloatKeyMap {
    fn from_iter<I: IntoIterator<Item = (f64, String)>>(i: I) -> Self {
        FloatKeyMap(i.into_iter().collect())
    }
}
impl Serialize for FloatKeyMap {
    fn serialize<S: serde::Serializer>(&self, s: S) -> Result<S::Ok, S::Error> {
        let mut m = s.serialize_map(Some(self.0.len()))?;
        for (k, v) in &self.0 {
            m.serialize_entry(k, v)?;
        }
        m.end()
    }
}

enum Val<'a> {
    Call(&'a Call<MethodA<'a>>),
    ReplyOpt(&'a Reply<OptParams>),
    ReplyValue(&'a Reply<serde_json::Value>),
    Err(&'a ErrA),
    ReplyShapes(&'a Reply<Shapes>),
}

#[derive(Debug, Clone, Copy, PartialEq, Eq, Hash, Serialize, Deserialize)]
pub enum SendOp {
    Enqueue,
    SendCall,
    SendReply,
    SendError,
}

impl MsgKind {
    /// The operations that accept this kind of message.
    pub fn ops(self) -> &'static [SendOp] {
        match self {
            MsgKind::CallEcho | MsgKind::CallPut | MsgKind::CallPing => {
                &[SendOp::Enqueue, SendOp::SendCall]
            }
            MsgKind::ReplyOpt | MsgKind::ReplyValue | MsgKind::ReplyShapes => &[SendOp::SendReply],
            MsgKind::ErrWorse | MsgKind::ErrBad => &[SendOp::SendError],
        }
    }
}

/// Model of zlink's write buffer, used to aim message sizes at interesting free-space values and
/// to classify cases. It is *not* an oracle: the oracle only looks at the bytes the transport got.
#[derive(Debug, Clone)]
pub struct BufModel {
    pub len: usize,
    pub pos: usize,
}

impl Default for BufModel {
    fn default() -> Self {
        BufModel { len: STEP, pos: 0 }
    }
}

impl BufModel {
    pub fn free(&self) -> usize {
        self.len - self.pos
    }
    /// Account for an accepted message of encoded length `n`. Returns (growth steps, exact fit).
    pub fn enqueue(&mut self, n: usize) -> (usize, bool) {
        let mut steps = 0;
        while self.len - self.pos < n {
            self.len += STEP;
            steps += 1;
        }
        let exact = self.pos + n == self.len;
        if exact {
            self.len += STEP;
            steps += 1;
        }
        self.pos += n + 1;
        (steps, exact)
    }
    pub fn flush(&mut self) {
        self.pos = 0;
    }
}
