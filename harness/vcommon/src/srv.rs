//! Deterministic simulation of `zlink_core::Server::run` with scripted connections, a scripted
//! service and harness-controlled reply streams, plus the per-connection sequential reference model.
//!
//! The generated value is a [`Scenario`]: per-connection scripts (frames, cuts, how the connection
//! ends, write failures) and a list of [`Step`]s that fixes the global order of events (connection
//! arrivals, chunk deliveries, stream pushes, polls of the server future). One `Poll` step polls
//! `Server::run()` until nothing makes progress any more, so every observation point is a
//! quiescent state and the model can demand *equality* there, not just a prefix.

use std::{
    cell::RefCell,
    collections::{BTreeMap, VecDeque},
    future::Future,
    pin::Pin,
    rc::Rc,
    task::{Context, Poll},
};

use serde::{Deserialize, Serialize};
use serde_json::{json, Value};
use zlink_core::{
    service::{MethodReply, Service},
    Call, Reply, ReplyError, Server,
};

use crate::{
    exec::poll_once,
    frames::{split_at_cuts, B},
    sim::{ReadEv, SimHandle, SimListener},
};

// ---------------------------------------------------------------------------------------------
// Scenario

#[derive(Debug, Clone, Copy, PartialEq, Eq, Hash, Serialize, Deserialize)]
pub enum CallKind {
    Echo,
    Noop,
    Fail,
    Sub,
}

#[derive(Debug, Clone, Copy, PartialEq, Eq, Hash, Serialize, Deserialize)]
pub enum FaultKind {
    /// `}{` - not JSON
    Garbage,
    /// invalid UTF-8 inside a string
    BadUtf8,
    /// `{"x":1}` - JSON, not a call
    WrongShape,
    /// a method the service does not know
    UnknownMethod,
    /// right method, parameters of the wrong types
    WrongTypes,
    /// right method, a parameter missing
    MissingParam,
    /// a valid call whose `oneway` member is a string
    BadFlag,
    /// a complete, valid call directly followed by more bytes inside the same frame (a second
    /// document or a stray character): the frame as a whole is not a JSON document
    TrailingAfterCall,
    /// a generated undecodable frame of `len` bytes (never a call): depending on `seed` byte soup
    /// that does not start a JSON document, a call cut off inside a long string parameter, or a
    /// JSON array holding one long string; the content mixes ASCII with 2-, 3- and 4-byte UTF-8
    /// sequences (and, for odd seeds of the soup form, invalid bytes), so multi-byte characters
    /// straddle every offset
    Soup { seed: u16, len: u16 },
    /// a frame without a document: nothing at all between two terminators (`ws` = 0) or only
    /// white space (1 = ` `, 2 = ` \n`, 3 = `\t\r\n`)
    Blank { ws: u8 },
    /// a well-formed Echo call that is `over` bytes longer than the compiled-in size limit of the
    /// receive buffer (only generated in the small-limit build: the production limit is 100 MiB)
    Oversized { over: u16 },
}

impl FaultKind {
    /// Is the frame a well-formed call object (a JSON object with a `method` string and no flag
    /// asking for silence) that the service merely cannot decode? Such a call is owed an answer:
    /// a server that neither answers it nor ends the connection shifts every later reply.
    pub fn is_undecodable_call(self) -> bool {
        matches!(self, FaultKind::UnknownMethod | FaultKind::WrongTypes | FaultKind::MissingParam)
    }
}

/// `len` bytes of NUL-free content drawn from a mixed alphabet (deterministic in `seed`).
pub fn soup_content(seed: u16, len: usize, allow_invalid: bool) -> Vec<u8> {
    let mut x = (seed as u64).wrapping_mul(0x9E37_79B9_7F4A_7C15) | 1;
    let mut next = move || {
        x ^= x << 13;
        x ^= x >> 7;
        x ^= x << 17;
        x
    };
    const MULTI: [&str; 8] = ["\u{e9}", "\u{df}", "\u{20ac}", "\u{4e2d}", "\u{2028}", "\u{1f600}", "\u{10348}", "\u{fffd}"];
    let mut out = Vec::with_capacity(len + 4);
    while out.len() < len {
        let r = next();
        match r % 8 {
            0..=2 => out.push(b'a' + ((r >> 8) % 26) as u8),
            3 => out.push(b" {}[]:,0123456789-.eE"[((r >> 8) % 21) as usize]),
            4..=6 => out.extend_from_slice(MULTI[((r >> 8) % 8) as usize].as_bytes()),
            _ if allow_invalid => out.push([0xff, 0xc0, 0x80, 0xed, 0xf8][((r >> 8) % 5) as usize]),
            _ => out.push(b'~'),
        }
    }
    // cut back to `len` on a character boundary when the content has to stay valid UTF-8
    if !allow_invalid {
        while out.len() > len || std::str::from_utf8(&out).is_err() {
            out.pop();
        }
    } else {
        out.truncate(len);
    }
    out
}

pub const FAULT_KINDS: [FaultKind; 12] = [
    FaultKind::Blank { ws: 0 },
    FaultKind::Blank { ws: 1 },
    FaultKind::Blank { ws: 2 },
    FaultKind::Blank { ws: 3 },
    FaultKind::Garbage,
    FaultKind::BadUtf8,
    FaultKind::WrongShape,
    FaultKind::UnknownMethod,
    FaultKind::WrongTypes,
    FaultKind::MissingParam,
    FaultKind::BadFlag,
    FaultKind::TrailingAfterCall,
];

#[derive(Debug, Clone, PartialEq, Eq, Hash, Serialize, Deserialize)]
pub enum FrameSpec {
    Call {
        kind: CallKind,
        id: u32,
        oneway: bool,
        more: bool,
        pad: u16,
        /// flags written before `method` (member order variation)
        flags_first: bool,
    },
    Fault(FaultKind),
}

#[derive(Debug, Clone, Copy, PartialEq, Eq, Hash, Serialize, Deserialize)]
pub enum ConnEnd {
    /// stays open and silent
    Open,
    /// peer closes after its last byte
    Eof,
    /// transport read error after its last byte
    ReadErr,
}

#[derive(Debug, Clone, PartialEq, Eq, Hash, Serialize, Deserialize)]
pub struct ConnScript {
    pub frames: Vec<FrameSpec>,
    /// cut positions into the connection's byte stream (sorted, in 1..len)
    pub cuts: Vec<usize>,
    pub end: ConnEnd,
    /// the last frame is sent without its terminator (only meaningful with `end != Open`)
    pub truncate_last: bool,
    /// write calls with index >= k fail
    pub write_fail_from: Option<usize>,
}

#[derive(Debug, Clone, PartialEq, Eq, Hash, Serialize, Deserialize)]
pub enum Step {
    /// connection `c` reaches the listener
    Arrive(usize),
    /// the next chunk of connection `c` becomes readable (arrives first if it has not yet)
    Chunk(usize),
    /// the service's stream for call `id` of connection `c` produces an item
    Push { c: usize, id: u32, continues: Option<bool> },
    /// ... ends
    End { c: usize, id: u32 },
    /// poll the server until quiescent and compare with the model
    Poll,
}

#[derive(Debug, Clone, PartialEq, Eq, Hash, Serialize, Deserialize)]
pub struct Scenario {
    pub conns: Vec<ConnScript>,
    pub steps: Vec<Step>,
}

pub fn pad_str(n: usize) -> String {
    let alphabet = b"abcdefghijklmnopqrstuvwxyz";
    (0..n).map(|i| alphabet[i % 26] as char).collect()
}

impl FrameSpec {
    pub fn render(&self, c: usize) -> Vec<u8> {
        match *self {
            FrameSpec::Call { kind, id, oneway, more, pad, flags_first } => {
                let (name, params) = match kind {
                    CallKind::Echo => ("Echo", format!(r#"{{"c":{c},"id":{id},"pad":"{}"}}"#, pad_str(pad as usize))),
                    CallKind::Noop => ("Noop", format!(r#"{{"c":{c},"id":{id}}}"#)),
                    CallKind::Fail => ("Fail", format!(r#"{{"c":{c},"id":{id}}}"#)),
                    CallKind::Sub => ("Sub", format!(r#"{{"c":{c},"id":{id}}}"#)),
                };
                let mut flags = String::new();
                // one call in five spells its flag names with a JSON escape (the same member names
                // to any JSON reader)
                let escaped = (pad as u32 + id) % 5 == 2;
                if oneway {
                    flags.push_str(if escaped { r#""onew\u0061y":true,"# } else { r#""oneway":true,"# });
                }
                if more {
                    flags.push_str(if escaped { r#""\u006dore":true,"# } else { r#""more":true,"# });
                }
                let mut body = format!(r#""method":"org.example.{name}","parameters":{params}"#);
                // One call in seven carries an additional top-level member the service does not
                // know (it must be ignored): its name is generated from ASCII and multi-byte
                // characters and every other character is written as a \uXXXX escape.
                if pad % 7 == 3 {
                    let name_bytes = soup_content((id as u16).wrapping_mul(31).wrapping_add(pad), 1 + (pad as usize * 5 + id as usize) % 60, false);
                    let raw = String::from_utf8(name_bytes).unwrap_or_default();
                    let mut spelled = String::new();
                    for (k, ch) in raw.chars().enumerate() {
                        if k % 2 == 0 || ch == '"' || ch == '\\' {
                            let mut units = [0u16; 2];
                            for u in ch.encode_utf16(&mut units) {
                                spelled.push_str(&format!("\\u{:04x}", u));
                            }
                        } else {
                            spelled.push(ch);
                        }
                    }
                    body.push_str(&format!(r#","{spelled}":[{id}]"#));
                }
                if flags_first {
                    format!("{{{flags}{body}}}").into_bytes()
                } else if flags.is_empty() {
                    format!("{{{body}}}").into_bytes()
                } else {
                    format!("{{{body},{}}}", flags.trim_end_matches(',')).into_bytes()
                }
            }
            FrameSpec::Fault(k) => match k {
                FaultKind::Garbage => b"}{".to_vec(),
                FaultKind::Blank { ws } => [&b""[..], b" ", b" \n", b"\t\r\n"][ws as usize % 4].to_vec(),
                FaultKind::BadUtf8 => {
                    let mut v = br#"{"method":"org.example.Echo","parameters":{"c":0,"id":0,"pad":""#.to_vec();
                    v.extend_from_slice(&[0xff, 0xfe]);
                    v.extend_from_slice(br#""}}"#);
                    v
                }
                FaultKind::WrongShape => br#"{"x":1}"#.to_vec(),
                FaultKind::UnknownMethod => format!(r#"{{"method":"org.example.Nope","parameters":{{"c":{c}}}}}"#).into_bytes(),
                FaultKind::WrongTypes => br#"{"method":"org.example.Echo","parameters":{"c":"one","id":[],"pad":3}}"#.to_vec(),
                FaultKind::MissingParam => format!(r#"{{"method":"org.example.Echo","parameters":{{"c":{c}}}}}"#).into_bytes(),
                FaultKind::BadFlag => format!(r#"{{"method":"org.example.Noop","parameters":{{"c":{c},"id":1}},"oneway":"yes"}}"#).into_bytes(),
                FaultKind::TrailingAfterCall => format!(r#"{{"method":"org.example.Echo","parameters":{{"c":{c},"id":77,"pad":"t"}}}}{{"method":"org.example.Noop","parameters":{{"c":{c},"id":78}}}}"#).into_bytes(),
                FaultKind::Oversized { over } => {
                    let head = format!(r#"{{"method":"org.example.Echo","parameters":{{"c":{c},"id":99,"pad":""#);
                    let tail = "\"}}";
                    let total = zlink_core::__verif::MAX_BUFFER_SIZE + over as usize;
                    let mut v = head.into_bytes();
                    let fill = total.saturating_sub(v.len() + tail.len());
                    v.extend(std::iter::repeat(b'o').take(fill));
                    v.extend_from_slice(tail.as_bytes());
                    v
                }
                FaultKind::Soup { seed, len } => {
                    let len = len as usize;
                    match seed % 3 {
                        0 => {
                            // does not start a JSON document
                            let mut v = vec![b"}])x,:"[(seed as usize / 3) % 6]];
                            v.extend(soup_content(seed, len, seed % 2 == 1));
                            v
                        }
                        1 => {
                            // a call cut off inside its string parameter
                            let mut v = format!(r#"{{"method":"org.example.Echo","parameters":{{"c":{c},"id":0,"pad":""#).into_bytes();
                            v.extend(soup_content(seed, len, false));
                            v
                        }
                        _ => {
                            // valid JSON of the wrong shape with one long string
                            let mut v = b"[\"".to_vec();
                            v.extend(soup_content(seed, len, false));
                            v.extend_from_slice(b"\"]");
                            v
                        }
                    }
                }
            },
        }
    }
}

impl ConnScript {
    pub fn stream(&self, c: usize) -> Vec<u8> {
        let mut s = Vec::new();
        let n = self.frames.len();
        for (i, f) in self.frames.iter().enumerate() {
            s.extend(f.render(c));
            if !(self.truncate_last && self.end != ConnEnd::Open && i == n - 1) {
                s.push(0);
            }
        }
        s
    }
    pub fn chunks(&self, c: usize) -> Vec<Vec<u8>> {
        let s = self.stream(c);
        if s.is_empty() {
            vec![]
        } else {
            split_at_cuts(&s, &self.cuts)
        }
    }
    /// Offsets (exclusive end, including the terminator) of each *terminated* frame.
    pub fn frame_ends(&self, c: usize) -> Vec<usize> {
        let mut off = 0;
        let mut v = Vec::new();
        let n = self.frames.len();
        for (i, f) in self.frames.iter().enumerate() {
            off += f.render(c).len();
            if self.truncate_last && self.end != ConnEnd::Open && i == n - 1 {
                break;
            }
            off += 1;
            v.push(off);
        }
        v
    }
    pub fn has_fault(&self) -> bool {
        self.frames.iter().any(|f| matches!(f, FrameSpec::Fault(_)))
            || self.end != ConnEnd::Open
            || self.write_fail_from.is_some()
    }
}

// ---------------------------------------------------------------------------------------------
// The scripted service

#[derive(Debug, Deserialize)]
#[serde(tag = "method", content = "parameters")]
pub enum SvcMethod<'a> {
    #[serde(rename = "org.example.Echo")]
    Echo { c: u32, id: u32, pad: &'a str },
    #[serde(rename = "org.example.Noop")]
    Noop { c: u32, id: u32 },
    #[serde(rename = "org.example.Fail")]
    Fail { c: u32, id: u32 },
    #[serde(rename = "org.example.Sub")]
    Sub { c: u32, id: u32 },
}

#[derive(Debug, Serialize)]
pub struct EchoReply {
    pub c: u32,
    pub id: u32,
    pub pad: String,
}

#[derive(Debug, Clone, Serialize)]
pub struct Item {
    pub c: u32,
    pub id: u32,
    pub seq: u32,
}

#[derive(Debug, ReplyError)]
#[zlink(interface = "org.example", crate = "zlink_core")]
pub enum SvcError {
    Failed { c: u32, id: u32 },
}

#[derive(Debug, Default)]
pub struct StreamQ {
    pub items: VecDeque<Reply<Item>>,
    pub ended: bool,
    pub next_seq: u32,
    pub progress: u64,
    pub polls: u64,
    /// number of calls the service had handled when the server saw the end of this stream
    pub end_seen_at: Option<u64>,
    /// shared count of handled calls
    pub clock: Rc<std::cell::Cell<u64>>,
    /// the most recent poll found the queue empty and not ended (returned Pending)
    pub armed: bool,
    /// a producer that always has the next item ready (never Pending, never ends)
    pub endless: Option<(u32, u32)>,
}

#[derive(Debug, Default)]
pub struct SvcState {
    /// (connection tag, call id, kind, oneway) in handling order
    pub log: Vec<(u32, u32, CallKind, bool)>,
    pub streams: BTreeMap<(u32, u32), Rc<RefCell<StreamQ>>>,
    pub clock: Rc<std::cell::Cell<u64>>,
}

impl SvcState {
    pub fn stream(&mut self, c: u32, id: u32) -> Rc<RefCell<StreamQ>> {
        let clock = self.clock.clone();
        self.streams
            .entry((c, id))
            .or_insert_with(|| Rc::new(RefCell::new(StreamQ { clock, ..Default::default() })))
            .clone()
    }
}

#[derive(Debug, Clone)]
pub struct SimService(pub Rc<RefCell<SvcState>>);

#[derive(Debug)]
pub struct SimStream(pub Rc<RefCell<StreamQ>>);

impl futures_util::Stream for SimStream {
    type Item = Reply<Item>;
    fn poll_next(self: Pin<&mut Self>, _cx: &mut Context<'_>) -> Poll<Option<Reply<Item>>> {
        let mut q = self.0.borrow_mut();
        q.polls += 1;
        q.armed = q.items.is_empty() && !q.ended;
        if let Some(r) = q.items.pop_front() {
            q.progress += 1;
            return Poll::Ready(Some(r));
        }
        if let Some((c, id)) = q.endless {
            q.progress += 1;
            let seq = q.next_seq;
            q.next_seq += 1;
            q.armed = false;
            return Poll::Ready(Some(Reply::new(Some(Item { c, id, seq })).set_continues(Some(true))));
        }
        if q.ended {
            q.progress += 1;
            if q.end_seen_at.is_none() {
                q.end_seen_at = Some(q.clock.get());
            }
            return Poll::Ready(None);
        }
        Poll::Pending
    }
}

impl Service for SimService {
    type MethodCall<'de> = SvcMethod<'de>;
    type ReplyParams<'ser> = EchoReply;
    type ReplyStreamParams = Item;
    type ReplyStream = SimStream;
    type ReplyError<'ser> = SvcError;

    async fn handle<'ser>(
        &'ser mut self,
        call: Call<Self::MethodCall<'_>>,
    ) -> MethodReply<Self::ReplyParams<'ser>, Self::ReplyStream, Self::ReplyError<'ser>> {
        let oneway = call.oneway();
        let mut st = self.0.borrow_mut();
        st.clock.set(st.clock.get() + 1);
        match *call.method() {
            SvcMethod::Echo { c, id, pad } => {
                st.log.push((c, id, CallKind::Echo, oneway));
                MethodReply::Single(Some(EchoReply { c, id, pad: pad.to_string() }))
            }
            SvcMethod::Noop { c, id } => {
                st.log.push((c, id, CallKind::Noop, oneway));
                MethodReply::Single(None)
            }
            SvcMethod::Fail { c, id } => {
                st.log.push((c, id, CallKind::Fail, oneway));
                MethodReply::Error(SvcError::Failed { c, id })
            }
            SvcMethod::Sub { c, id } => {
                st.log.push((c, id, CallKind::Sub, oneway));
                MethodReply::Multi(SimStream(st.stream(c, id)))
            }
        }
    }
}

// ---------------------------------------------------------------------------------------------
// Running a scenario

/// What was observed at one `Poll` step.
#[derive(Debug, Clone)]
pub struct Observation {
    /// index of the Poll step in `steps` (usize::MAX for the final implicit poll)
    pub step: usize,
    /// per connection: the frames written so far (split at NUL), and whether the bytes ended with NUL
    pub out: Vec<Vec<Vec<u8>>>,
    pub out_well_framed: Vec<bool>,
    /// per connection: number of transport writes so far
    pub writes: Vec<usize>,
    /// service log length
    pub log_len: usize,
    /// per connection: bytes delivered to the transport so far
    pub delivered: Vec<usize>,
    /// per connection: whether its end event (EOF / read error) has been delivered
    pub ended: Vec<bool>,
    /// stream events applied so far: (c, id) -> (pushed items with flags, ended)
    pub streams: BTreeMap<(u32, u32), (Vec<Option<bool>>, bool)>,
    /// connections that have reached the listener
    pub arrived: Vec<bool>,
    /// per connection: the last read poll on its transport returned Pending with nothing to deliver
    pub read_armed: Vec<bool>,
    /// the last poll of accept returned Pending
    pub accept_armed: bool,
    /// per stream handed to the server: the last poll of it returned Pending (queue empty, not ended)
    pub stream_armed: BTreeMap<(u32, u32), bool>,
}

#[derive(Debug, Default)]
pub struct Trace {
    pub observations: Vec<Observation>,
    pub log: Vec<(u32, u32, CallKind, bool)>,
    /// for each log entry: index of the observation (poll) during which it was handled
    pub log_obs: Vec<usize>,
    pub server_ended: Option<String>,
    /// (c, id) of a Sub call -> number of calls handled when the server saw its stream end
    pub stream_end_seen: BTreeMap<(u32, u32), u64>,
    /// for C18: per connection, per terminated frame: index of the observation before which it had
    /// been delivered completely
    pub polls: u64,
}

/// Execute the steps. Steps that refer to connections that do not exist are ignored. After the last
/// step every connection arrives, every remaining chunk (and end event) is delivered and the server
/// is polled once more, so the final observation is determined by the scripts alone.
pub fn run_scenario(sc: &Scenario) -> Trace {
    run_scenario_without(sc, &[])
}

/// Like [`run_scenario`], but the connections marked in `absent` never exist: all their steps are
/// skipped (the connection indexes, and hence the tags inside the calls, stay the same).
pub fn run_scenario_without(sc: &Scenario, absent: &[bool]) -> Trace {
    let is_absent = |c: usize| absent.get(c).copied().unwrap_or(false);
    let listener = SimListener::new();
    let state = Rc::new(RefCell::new(SvcState::default()));
    let server = Server::new(listener.clone(), SimService(state.clone()));
    let mut fut: Pin<Box<dyn Future<Output = zlink_core::Result<()>>>> = Box::pin(server.run());

    let n = sc.conns.len();
    let mut handles: Vec<Option<SimHandle>> = vec![None; n];
    let mut chunks: Vec<VecDeque<Vec<u8>>> = sc.conns.iter().enumerate().map(|(c, s)| s.chunks(c).into()).collect();
    let mut delivered = vec![0usize; n];
    let mut ended = vec![false; n];
    let mut streams: BTreeMap<(u32, u32), (Vec<Option<bool>>, bool)> = BTreeMap::new();
    let mut trace = Trace::default();

    fn arrive(c: usize, sc: &Scenario, listener: &SimListener, handles: &mut [Option<SimHandle>]) {
        if handles[c].is_none() {
            let h = listener.connect();
            h.write.borrow_mut().fail_from = sc.conns[c].write_fail_from;
            handles[c] = Some(h);
        }
    }

    let deliver = |c: usize,
                       handles: &mut Vec<Option<SimHandle>>,
                       chunks: &mut Vec<VecDeque<Vec<u8>>>,
                       delivered: &mut Vec<usize>,
                       ended: &mut Vec<bool>| {
        arrive(c, sc, &listener, handles);
        let h = handles[c].as_ref().unwrap();
        if let Some(ch) = chunks[c].pop_front() {
            delivered[c] += ch.len();
            h.push_data(&ch);
        }
        if chunks[c].is_empty() && !ended[c] {
            match sc.conns[c].end {
                ConnEnd::Open => {}
                ConnEnd::Eof => {
                    h.push(ReadEv::Eof);
                    ended[c] = true;
                }
                ConnEnd::ReadErr => {
                    h.push(ReadEv::Err);
                    ended[c] = true;
                }
            }
        }
    };

    let mut steps: Vec<(usize, Step)> = sc.steps.iter().cloned().enumerate().collect();
    // closing sequence
    for c in 0..n {
        steps.push((usize::MAX, Step::Arrive(c)));
    }
    let max_chunks = chunks.iter().map(|q| q.len()).max().unwrap_or(0);
    for _ in 0..max_chunks.max(1) {
        for c in 0..n {
            steps.push((usize::MAX, Step::Chunk(c)));
        }
    }
    steps.push((usize::MAX, Step::Poll));

    for (idx, step) in steps {
        match step {
            Step::Arrive(c) | Step::Chunk(c) | Step::Push { c, .. } | Step::End { c, .. } if is_absent(c) => {}
            Step::Arrive(c) if c < n => arrive(c, sc, &listener, &mut handles),
            Step::Chunk(c) if c < n => deliver(c, &mut handles, &mut chunks, &mut delivered, &mut ended),
            Step::Push { c, id, continues } if c < n => {
                let e = streams.entry((c as u32, id)).or_default();
                if !e.1 {
                    e.0.push(continues);
                    let q = state.borrow_mut().stream(c as u32, id);
                    let mut q = q.borrow_mut();
                    let seq = q.next_seq;
                    q.next_seq += 1;
                    q.items.push_back(Reply::new(Some(Item { c: c as u32, id, seq })).set_continues(continues));
                }
            }
            Step::End { c, id } if c < n => {
                let e = streams.entry((c as u32, id)).or_default();
                e.1 = true;
                let q = state.borrow_mut().stream(c as u32, id);
                q.borrow_mut().ended = true;
            }
            Step::Poll => {
                if trace.server_ended.is_none() {
                    // poll until nothing makes progress
                    let progress = |handles: &Vec<Option<SimHandle>>| -> u64 {
                        let mut p = listener.progress();
                        for h in handles.iter().flatten() {
                            p += h.progress();
                        }
                        for q in state.borrow().streams.values() {
                            p += q.borrow().progress;
                        }
                        p + state.borrow().log.len() as u64
                    };
                    for _ in 0..64 {
                        let before = progress(&handles);
                        trace.polls += 1;
                        match poll_once(fut.as_mut()) {
                            Poll::Ready(r) => {
                                trace.server_ended = Some(format!("{r:?}"));
                                break;
                            }
                            Poll::Pending => {}
                        }
                        if progress(&handles) == before {
                            break;
                        }
                    }
                }
                let mut out = Vec::new();
                let mut framed = Vec::new();
                let mut writes = Vec::new();
                for h in &handles {
                    match h {
                        Some(h) => {
                            let bytes = h.written();
                            framed.push(bytes.is_empty() || *bytes.last().unwrap() == 0);
                            let mut fr: Vec<Vec<u8>> = bytes.split(|&b| b == 0).map(|s| s.to_vec()).collect();
                            fr.pop(); // the piece after the last NUL (empty when well framed)
                            out.push(fr);
                            writes.push(h.write.borrow().writes.len());
                        }
                        None => {
                            out.push(vec![]);
                            framed.push(true);
                            writes.push(0);
                        }
                    }
                }
                let log_len = state.borrow().log.len();
                while trace.log_obs.len() < log_len {
                    trace.log_obs.push(trace.observations.len());
                }
                trace.observations.push(Observation {
                    step: idx,
                    out,
                    out_well_framed: framed,
                    writes,
                    log_len,
                    delivered: delivered.clone(),
                    ended: ended.clone(),
                    streams: streams.clone(),
                    arrived: handles.iter().map(|h| h.is_some()).collect(),
                    read_armed: handles.iter().map(|h| h.as_ref().is_some_and(|h| h.read.borrow().armed)).collect(),
                    accept_armed: listener.0.borrow().armed,
                    stream_armed: state.borrow().streams.iter().map(|(k, q)| (*k, q.borrow().armed)).collect(),
                });
            }
            _ => {}
        }
    }
    trace.log = state.borrow().log.clone();
    for (k, q) in &state.borrow().streams {
        if let Some(t) = q.borrow().end_seen_at {
            trace.stream_end_seen.insert(*k, t);
        }
    }
    trace
}

// ---------------------------------------------------------------------------------------------
// Reference model (per connection, sequential)

#[derive(Debug, Clone, PartialEq)]
pub struct ConnModel {
    /// expected reply documents, in order
    pub out: Vec<Value>,
    /// calls the service must have handled, in order: (id, kind)
    pub handled: Vec<(u32, CallKind)>,
    /// the connection hit a fault (bad frame, write failure, end of input): what comes after the
    /// listed output is not constrained
    pub dead: bool,
    /// parked in streaming mode with the stream still open
    pub streaming: bool,
    /// the undecodable frame that ended the modelled part: (index in the script, kind)
    pub fault: Option<(usize, FaultKind)>,
}

pub fn normalize(mut v: Value) -> Value {
    if let Some(o) = v.as_object_mut() {
        o.retain(|_, v| !v.is_null());
    }
    v
}

/// Expected state of connection `c` given what had happened when observation `obs` was taken.
/// `oneway_answered`: model the pre-fix behaviour (a reply for oneway calls) - only used to
/// attribute a failure, never to accept it.
pub fn model_conn(sc: &Scenario, c: usize, obs: &Observation) -> ConnModel {
    let script = &sc.conns[c];
    let ends = script.frame_ends(c);
    let complete = ends.iter().filter(|&&e| e <= obs.delivered[c]).count();
    let mut m = ConnModel { out: vec![], handled: vec![], dead: false, streaming: false, fault: None };
    if !obs.arrived[c] {
        return m;
    }
    let mut writes = 0usize;
    let mut write = |m: &mut ConnModel, v: Value| -> bool {
        if script.write_fail_from.is_some_and(|k| writes >= k) {
            m.dead = true;
            return false;
        }
        writes += 1;
        m.out.push(v);
        true
    };
    for (fi, f) in script.frames[..complete].iter().enumerate() {
        match *f {
            FrameSpec::Fault(k) => {
                m.dead = true;
                m.fault = Some((fi, k));
                return m;
            }
            FrameSpec::Call { kind, id, oneway, pad, .. } => {
                m.handled.push((id, kind));
                match kind {
                    CallKind::Echo | CallKind::Noop | CallKind::Fail => {
                        if oneway {
                            continue;
                        }
                        let v = match kind {
                            CallKind::Echo => json!({"parameters": {"c": c, "id": id, "pad": pad_str(pad as usize)}, "continues": false}),
                            CallKind::Noop => json!({"continues": false}),
                            _ => json!({"error": "org.example.Failed", "parameters": {"c": c, "id": id}}),
                        };
                        if !write(&mut m, v) {
                            return m;
                        }
                    }
                    // a oneway call gets nothing, whatever the service answers it with: the stream
                    // is discarded and the connection keeps taking calls
                    CallKind::Sub if oneway => continue,
                    CallKind::Sub => {
                        let (items, ended) = obs.streams.get(&(c as u32, id)).cloned().unwrap_or_default();
                        for (seq, cont) in items.iter().enumerate() {
                            let mut v = json!({"parameters": {"c": c, "id": id, "seq": seq}});
                            if let Some(b) = cont {
                                v["continues"] = json!(b);
                            }
                            if !write(&mut m, v) {
                                return m;
                            }
                        }
                        if !ended {
                            m.streaming = true;
                            return m;
                        }
                    }
                }
            }
        }
    }
    // all complete frames consumed; has the input ended?
    if obs.ended[c] && complete == ends.len() {
        m.dead = true;
    }
    m
}

/// Parse the frames a connection received into JSON documents.
pub fn parse_out(frames: &[Vec<u8>]) -> Result<Vec<Value>, String> {
    frames
        .iter()
        .map(|f| serde_json::from_slice::<Value>(f).map(normalize).map_err(|e| format!("{e}: {}", String::from_utf8_lossy(f))))
        .collect()
}

pub fn show_frames(frames: &[Vec<u8>]) -> String {
    frames.iter().map(|f| String::from_utf8_lossy(f).to_string()).collect::<Vec<_>>().join(" | ")
}

pub type Bytes = B;

// ---------------------------------------------------------------------------------------------
// Judging a trace against the model

use crate::drv::Fail;

/// A copy of the scenario in which oneway flags are cleared on connection `c` (to recognise the
/// "oneway call was answered" failure by its effect).
fn without_oneway(sc: &Scenario, c: usize) -> Scenario {
    let mut s = sc.clone();
    for f in &mut s.conns[c].frames {
        if let FrameSpec::Call { oneway, .. } = f {
            *oneway = false;
        }
    }
    s
}

/// Compare every observation with the model.
///
/// For a connection without faults the frames it received must *equal* the model's at every
/// quiescent point and the service log restricted to it must equal the calls the model says were
/// handled. For a connection that has hit a fault (`dead`) the frames must start with the model's
/// output; what follows is not constrained by the properties, except that nothing may be written
/// that belongs to another connection. The server future must still be pending.
pub fn judge_trace(sc: &Scenario, trace: &Trace) -> Result<(), Fail> {
    if let Some(e) = &trace.server_ended {
        return Err(Fail::new("server-stopped", format!("Server::run() returned {e}")));
    }
    for obs in &trace.observations {
        let at = if obs.step == usize::MAX { "the final poll".to_string() } else { format!("poll step {}", obs.step) };
        for c in 0..sc.conns.len() {
            let m = model_conn(sc, c, obs);
            if !obs.out_well_framed[c] {
                return Err(Fail::new("reply-not-terminated", format!("connection {c} at {at}: written bytes do not end with NUL")));
            }
            let got = match parse_out(&obs.out[c]) {
                Ok(v) => v,
                Err(e) => return Err(Fail::new("reply-not-json", format!("connection {c} at {at}: {e}"))),
            };
            // nothing that belongs to another connection
            for v in &got {
                if let Some(tag) = v.get("parameters").and_then(|p| p.get("c")).and_then(|x| x.as_u64()) {
                    if tag as usize != c {
                        return Err(Fail::new(
                            "reply-on-wrong-connection",
                            format!("connection {c} at {at} received a reply that belongs to connection {tag}: {v}"),
                        ));
                    }
                }
            }
            // zlink keeps reading until a read ends with a terminator, so while the delivered bytes
            // stop in the middle of a frame the complete frames in front of it may not have been
            // served yet: only a prefix can be demanded there. Whenever the delivered bytes end at a
            // frame boundary everything must have been served (equality).
            let at_boundary = obs.delivered[c] == 0 || sc.conns[c].frame_ends(c).contains(&obs.delivered[c]);
            // A peer that closes (or whose transport fails) in the middle of a frame: zlink reports the
            // end of the stream without serving the complete frames that were read together with the
            // partial one. No listed property demands those replies, so only consistency is checked.
            // An oversized frame ends the connection as soon as the buffer is full, i.e. before the
            // frame is complete: like a mid-frame close, complete calls read together with its
            // beginning are not served. Only consistency is demanded of such a connection.
            let oversized = sc.conns[c].frames.iter().any(|f| matches!(f, FrameSpec::Fault(FaultKind::Oversized { .. })));
            let ok = if m.dead && (!at_boundary || oversized) {
                let k = got.len().min(m.out.len());
                got[..k] == m.out[..k]
            } else if m.dead {
                got.len() >= m.out.len() && got[..m.out.len()] == m.out[..]
            } else if at_boundary {
                got == m.out
            } else {
                got.len() <= m.out.len() && got[..] == m.out[..got.len()]
            };
            if !ok {
                let alt = model_conn(&without_oneway(sc, c), c, obs);
                let sig = if alt.out != m.out && (got == alt.out || (got.len() <= alt.out.len() && got[..] == alt.out[..got.len()] && got.len() > m.out.len())) {
                    "oneway-call-answered"
                } else if got.len() < m.out.len() && got[..] == m.out[..got.len()] {
                    "reply-missing"
                } else if got.len() > m.out.len() && got[..m.out.len()] == m.out[..] {
                    "reply-unexpected"
                } else {
                    "replies-differ"
                };
                return Err(Fail::new(
                    sig,
                    format!(
                        "connection {c} at {at}: expected {} frame(s) [{}], got {} [{}]",
                        m.out.len(),
                        m.out.iter().map(|v| v.to_string()).collect::<Vec<_>>().join(" | "),
                        got.len(),
                        show_frames(&obs.out[c])
                    ),
                ));
            }
            // exactly-once, in order
            let handled: Vec<(u32, CallKind)> = trace.log[..obs.log_len]
                .iter()
                .filter(|e| e.0 as usize == c)
                .map(|e| (e.1, e.2))
                .collect();
            let is_prefix = handled.len() <= m.handled.len() && handled[..] == m.handled[..handled.len()];
            let mut ok = if m.dead || !at_boundary { is_prefix } else { handled == m.handled };
            // The model ends a connection at its first undecodable frame, which is what zlink does.
            // The listed properties do not demand that ("end *at most* that connection"): a server
            // may also skip a frame that is not a call and carry on, or answer a well-formed call it
            // cannot decode with an error and carry on. What they do exclude is handling a call
            // twice or out of order, and carrying on behind a well-formed, reply-expecting call
            // without having answered it (every later reply would be taken for the wrong call).
            if !ok && m.dead {
                if let Some((fi, kind)) = m.fault {
                    let complete = sc.conns[c].frame_ends(c).iter().filter(|&&e| e <= obs.delivered[c]).count();
                    let later: Vec<(u32, CallKind)> = sc.conns[c].frames[fi + 1..complete.max(fi + 1)]
                        .iter()
                        .filter_map(|f| match f {
                            FrameSpec::Call { kind, id, .. } => Some((*id, *kind)),
                            _ => None,
                        })
                        .collect();
                    let pre = m.handled.len();
                    let carried_on = handled.len() > pre && handled[..pre] == m.handled[..] && {
                        // a subsequence of the later calls: none twice, none out of order
                        let mut it = later.iter();
                        handled[pre..].iter().all(|h| it.any(|l| l == h))
                    };
                    if carried_on && kind.is_undecodable_call() {
                        let answered = got.len() > m.out.len() && got[m.out.len()].get("error").is_some();
                        if !answered {
                            return Err(Fail::new(
                                "undecodable-call-skipped-without-answer",
                                format!(
                                    "connection {c} at {at}: frame {fi} is a well-formed call the service cannot decode ({kind:?}); the server neither answered it nor ended the connection but went on to handle {:?}: every later reply is taken for the wrong call",
                                    &handled[pre..]
                                ),
                            ));
                        }
                    }
                    ok = carried_on;
                }
            }
            if !ok {
                return Err(Fail::new(
                    "calls-not-handled-once-in-order",
                    format!("connection {c} at {at}: the service should have handled {:?}, it handled {:?}", m.handled, handled),
                ));
            }
        }
        // Wake discipline. The simulation polls with a no-op waker until nothing moves, so a server
        // that returned Pending without waiting on one of its event sources would go unnoticed here
        // and hang under a real runtime. At every quiescent point the last poll of accept must have
        // returned Pending, and for every live, fault-free connection either the last poll of a
        // read on its transport returned Pending (it is being read) or a stream of one of its
        // calls was polled and found empty (it is parked in streaming mode).
        if trace.server_ended.is_none() {
            if !obs.accept_armed {
                return Err(Fail::new("server-not-waiting-for-connections", format!("at {at} the server returned Pending although its last poll of accept() did not (no waker would be registered with the listener)")));
            }
            for c in 0..sc.conns.len() {
                let script = &sc.conns[c];
                let clean = script.write_fail_from.is_none() && script.frames.iter().all(|f| matches!(f, FrameSpec::Call { .. })) && !script.truncate_last;
                if !clean || !obs.arrived[c] || obs.ended[c] || model_conn(sc, c, obs).dead {
                    continue;
                }
                let parked = obs.stream_armed.iter().any(|((sc_c, _), armed)| *sc_c as usize == c && *armed);
                if !obs.read_armed[c] && !parked {
                    return Err(Fail::new(
                        "server-not-waiting-on-connection",
                        format!("at {at} the server returned Pending without waiting on connection {c}: the last read polled on its transport did not return Pending and none of its streams was polled and found empty (under a real runtime nothing would wake the server for this client)"),
                    ));
                }
            }
        }
        // every log entry belongs to an existing connection
        for e in &trace.log[..obs.log_len] {
            if e.0 as usize >= sc.conns.len() {
                return Err(Fail::new("phantom-call", format!("the service handled a call tagged with connection {}", e.0)));
            }
        }
    }
    Ok(())
}
