//! The harness's own Varlink IDL machinery: AST, generator, renderer with random legal layout,
//! token-level mutator, an independent recogniser (strict / lenient), tokenizer, and conversion from
//! `zlink_core::idl::Interface` through its public accessors for deep comparison (zlink's own
//! `PartialEq` ignores comments on most nodes).

use proptest::prelude::*;
use serde::{Deserialize, Serialize};

// ---------------------------------------------------------------------------------------------
// AST

#[derive(Debug, Clone, PartialEq, Eq, Hash, Serialize, Deserialize)]
pub enum Ty {
    Bool,
    Int,
    Float,
    Str,
    Object,
    Custom(String),
    Opt(Box<Ty>),
    Arr(Box<Ty>),
    Map(Box<Ty>),
    Struct(Vec<Fld>),
    Enum(Vec<Var>),
}

#[derive(Debug, Clone, PartialEq, Eq, Hash, Serialize, Deserialize)]
pub struct Fld {
    pub name: String,
    pub ty: Ty,
    pub comments: Vec<String>,
}

#[derive(Debug, Clone, PartialEq, Eq, Hash, Serialize, Deserialize)]
pub struct Var {
    pub name: String,
    pub comments: Vec<String>,
}

#[derive(Debug, Clone, PartialEq, Eq, Hash, Serialize, Deserialize)]
pub enum Body {
    Struct(Vec<Fld>),
    Enum(Vec<Var>),
}

#[derive(Debug, Clone, PartialEq, Eq, Hash, Serialize, Deserialize)]
pub enum Member {
    Type { name: String, body: Body, comments: Vec<String> },
    Method { name: String, inputs: Vec<Fld>, outputs: Vec<Fld>, comments: Vec<String> },
    Error { name: String, fields: Vec<Fld>, comments: Vec<String> },
}

#[derive(Debug, Clone, PartialEq, Eq, Hash, Serialize, Deserialize)]
pub struct Iface {
    pub name: String,
    pub members: Vec<Member>,
    pub comments: Vec<String>,
}

impl Member {
    pub fn kind(&self) -> u8 {
        match self {
            Member::Type { .. } => 0,
            Member::Method { .. } => 1,
            Member::Error { .. } => 2,
        }
    }
    pub fn name(&self) -> &str {
        match self {
            Member::Type { name, .. } | Member::Method { name, .. } | Member::Error { name, .. } => name,
        }
    }
}

impl Iface {
    /// Members grouped per kind (types, methods, errors), each in source order: what a description
    /// that keeps one ordered list per kind can represent.
    pub fn grouped(&self) -> Iface {
        let mut members = Vec::new();
        for k in 0..3 {
            members.extend(self.members.iter().filter(|m| m.kind() == k).cloned());
        }
        Iface { name: self.name.clone(), members, comments: self.comments.clone() }
    }
    pub fn depth(&self) -> usize {
        fn d(t: &Ty) -> usize {
            match t {
                Ty::Opt(t) | Ty::Arr(t) | Ty::Map(t) => 1 + d(t),
                Ty::Struct(f) => 1 + f.iter().map(|f| d(&f.ty)).max().unwrap_or(0),
                Ty::Enum(_) => 1,
                _ => 0,
            }
        }
        let fl = |f: &Vec<Fld>| f.iter().map(|f| d(&f.ty)).max().unwrap_or(0);
        self.members
            .iter()
            .map(|m| match m {
                Member::Type { body: Body::Struct(f), .. } => fl(f),
                Member::Type { .. } => 0,
                Member::Method { inputs, outputs, .. } => fl(inputs).max(fl(outputs)),
                Member::Error { fields, .. } => fl(fields),
            })
            .max()
            .unwrap_or(0)
    }
    pub fn has_comment_below_interface(&self) -> bool {
        fn fc(f: &[Fld]) -> bool {
            f.iter().any(|f| !f.comments.is_empty() || tc(&f.ty))
        }
        fn tc(t: &Ty) -> bool {
            match t {
                Ty::Opt(t) | Ty::Arr(t) | Ty::Map(t) => tc(t),
                Ty::Struct(f) => fc(f),
                Ty::Enum(v) => v.iter().any(|v| !v.comments.is_empty()),
                _ => false,
            }
        }
        self.members.iter().any(|m| match m {
            Member::Type { body, comments, .. } => {
                !comments.is_empty()
                    || match body {
                        Body::Struct(f) => fc(f),
                        Body::Enum(v) => v.iter().any(|v| !v.comments.is_empty()),
                    }
            }
            Member::Method { inputs, outputs, comments, .. } => !comments.is_empty() || fc(inputs) || fc(outputs),
            Member::Error { fields, comments, .. } => !comments.is_empty() || fc(fields),
        })
    }
    /// Remove every comment below member level that sits inside an inline type.
    pub fn strip_variant_comments(&self) -> Iface {
        let mut i = self.clone();
        for m in &mut i.members {
            if let Member::Type { body: Body::Enum(v), .. } = m {
                for v in v {
                    v.comments.clear();
                }
            }
        }
        i
    }
}

// ---------------------------------------------------------------------------------------------
// Generator

#[derive(Debug, Clone, Copy)]
pub struct GenCfg {
    pub max_members: usize,
    pub max_depth: u32,
    pub comments: bool,
    /// comments on fields / variants of *inline* types (outside the positions the properties list)
    pub inline_comments: bool,
    /// allow `()` (empty inline struct) as a type
    pub empty_inline_struct: bool,
}

pub const KEYWORDS: [&str; 9] = ["type", "method", "error", "interface", "bool", "int", "float", "string", "object"];

pub fn type_name_strategy() -> impl Strategy<Value = String> {
    prop_oneof![
        6 => "[A-Z][A-Za-z0-9]{0,8}",
        1 => "[A-Z]",
        1 => Just("GetURL".to_string()),
        1 => Just("Type2".to_string()),
        1 => "[A-Z][a-z]{1,4}[A-Z][a-z]{1,4}[0-9]{0,2}",
    ]
}

pub fn field_name_strategy() -> impl Strategy<Value = String> {
    prop_oneof![
        6 => "[a-z][a-z0-9]{0,6}(_[a-z0-9]{1,4}){0,2}",
        2 => "[A-Za-z][A-Za-z0-9]{0,6}",
        1 => prop::sample::select(vec!["type", "method", "error", "interface", "int", "string", "bool", "float", "object", "self", "fn"]).prop_map(String::from),
        1 => "[a-z][A-Z][a-z0-9]{0,3}(_[A-Z0-9]){0,2}",
    ]
}

pub fn interface_name_strategy() -> impl Strategy<Value = String> {
    let first = "[A-Za-z](-{0,2}[A-Za-z0-9]){0,5}";
    let rest = "[A-Za-z0-9](-{0,2}[A-Za-z0-9]){0,5}";
    (first, prop::collection::vec(rest, 1..4)).prop_map(|(f, r)| format!("{f}.{}", r.join(".")))
}

pub fn comment_strategy() -> impl Strategy<Value = String> {
    prop_oneof![
        5 => "[A-Za-z0-9][ -~]{0,30}",
        1 => Just(String::new()),
        1 => "[(),:#?\\[\\]>-][ -~]{0,12}",
        1 => "[A-Za-z]{1,5} \u{e9}\u{4e16} [a-z]{0,5}",
        1 => "[a-z]{1,6}[ \t]{1,3}",
        // non-ASCII text in the middle of a comment: Latin-1 letters, general punctuation (dashes,
        // curly quotes, bullet, ellipsis, per mille ...), arrows, CJK, an emoji, U+FFFD - but no
        // Unicode white space, line / paragraph separators or format characters, whose status as
        // "text" is debatable
        2 => "([a-z]{1,4} ?)?[\u{c0}-\u{ff}\u{2010}-\u{2027}\u{2030}-\u{205e}\u{2190}-\u{21ff}\u{4e00}-\u{4e2f}\u{1F600}\u{fffd}]{1,3}[ -~]{0,8}",
    ]
}

fn comments_strategy(on: bool) -> BoxedStrategy<Vec<String>> {
    if on {
        prop_oneof![3 => Just(vec![]), 1 => prop::collection::vec(comment_strategy(), 1..3)].boxed()
    } else {
        Just(vec![]).boxed()
    }
}

fn dedup_names<T>(items: Vec<T>, name: impl Fn(&T) -> String, rename: impl Fn(&mut T, String)) -> Vec<T> {
    let mut seen = std::collections::HashSet::new();
    let mut out = Vec::new();
    for mut it in items {
        let mut n = name(&it);
        let mut k = 0;
        while !seen.insert(n.clone()) {
            k += 1;
            n = format!("{}{k}", name(&it));
        }
        rename(&mut it, n);
        out.push(it);
    }
    out
}

pub fn ty_strategy(cfg: GenCfg) -> BoxedStrategy<Ty> {
    let leaf = prop_oneof![
        Just(Ty::Bool),
        Just(Ty::Int),
        Just(Ty::Float),
        Just(Ty::Str),
        Just(Ty::Object),
        type_name_strategy().prop_map(Ty::Custom),
    ];
    let inline_comments = cfg.comments && cfg.inline_comments;
    let empty = cfg.empty_inline_struct;
    leaf.prop_recursive(cfg.max_depth, 24, 4, move |inner| {
        let non_opt = inner.clone().prop_filter("no ??", |t| !matches!(t, Ty::Opt(_)));
        prop_oneof![
            2 => non_opt.prop_map(|t| Ty::Opt(Box::new(t))),
            2 => inner.clone().prop_map(|t| Ty::Arr(Box::new(t))),
            2 => inner.clone().prop_map(|t| Ty::Map(Box::new(t))),
            2 => prop::collection::vec((field_name_strategy(), inner.clone(), comments_strategy(inline_comments)), if empty { 0..4 } else { 1..4 })
                .prop_map(|fs| Ty::Struct(dedup_names(
                    fs.into_iter().map(|(name, ty, comments)| Fld { name, ty, comments }).collect(),
                    |f| f.name.clone(), |f, n| f.name = n))),
            1 => prop::collection::vec((field_name_strategy(), comments_strategy(inline_comments)), 1..4)
                .prop_map(|vs| Ty::Enum(dedup_names(
                    vs.into_iter().map(|(name, comments)| Var { name, comments }).collect(),
                    |v| v.name.clone(), |v, n| v.name = n))),
        ]
    })
    .boxed()
}

pub fn fields_strategy(cfg: GenCfg, max: usize) -> impl Strategy<Value = Vec<Fld>> {
    let one = move || (field_name_strategy(), ty_strategy(cfg), comments_strategy(cfg.comments));
    // mostly short lists; one in seven is long (renderers may lay long lists out differently)
    prop_oneof![
        6 => prop::collection::vec(one(), 0..=max),
        1 => prop::collection::vec(one(), max + 1..=max + 6),
    ]
    .prop_map(|fs| {
        dedup_names(fs.into_iter().map(|(name, ty, comments)| Fld { name, ty, comments }).collect(), |f| f.name.clone(), |f, n| f.name = n)
    })
}

pub fn member_strategy(cfg: GenCfg) -> impl Strategy<Value = Member> {
    prop_oneof![
        3 => (type_name_strategy(), fields_strategy(cfg, 4), comments_strategy(cfg.comments))
            .prop_map(|(name, f, comments)| Member::Type { name, body: Body::Struct(f), comments }),
        2 => (type_name_strategy(), prop_oneof![
                6 => prop::collection::vec((field_name_strategy(), comments_strategy(cfg.comments)), 1..5),
                1 => prop::collection::vec((field_name_strategy(), comments_strategy(cfg.comments)), 5..11),
            ], comments_strategy(cfg.comments))
            .prop_map(|(name, vs, comments)| Member::Type { name, body: Body::Enum(dedup_names(
                vs.into_iter().map(|(name, comments)| Var { name, comments }).collect(), |v| v.name.clone(), |v, n| v.name = n)), comments }),
        4 => (type_name_strategy(), fields_strategy(cfg, 3), fields_strategy(cfg, 3), comments_strategy(cfg.comments))
            .prop_map(|(name, inputs, outputs, comments)| Member::Method { name, inputs, outputs, comments }),
        2 => (type_name_strategy(), fields_strategy(cfg, 3), comments_strategy(cfg.comments))
            .prop_map(|(name, fields, comments)| Member::Error { name, fields, comments }),
    ]
}

pub fn iface_strategy(cfg: GenCfg) -> impl Strategy<Value = Iface> {
    (interface_name_strategy(), prop::collection::vec(member_strategy(cfg), 0..=cfg.max_members), comments_strategy(cfg.comments)).prop_map(|(name, members, comments)| {
        // member names unique per kind (types and errors share the type namespace in practice)
        let members = dedup_names(
            members,
            |m| m.name().to_string(),
            |m, n| match m {
                Member::Type { name, .. } | Member::Method { name, .. } | Member::Error { name, .. } => *name = n,
            },
        );
        Iface { name, members, comments }
    })
}

// ---------------------------------------------------------------------------------------------
// Rendering with a layout

/// Layout choices, cycled. `Layout(vec![])` is the canonical layout (single spaces, `\n\n` between
/// members), which is also what the token comparison uses.
#[derive(Debug, Clone, PartialEq, Eq, Hash, Serialize, Deserialize)]
pub struct Layout(pub Vec<u8>);

pub fn layout_strategy() -> impl Strategy<Value = Layout> {
    prop_oneof![1 => Just(Layout(vec![])), 4 => prop::collection::vec(any::<u8>(), 1..24).prop_map(Layout)]
}

struct R<'a> {
    out: String,
    lay: &'a [u8],
    k: usize,
    crlf: bool,
}

impl R<'_> {
    fn pick(&mut self) -> u8 {
        if self.lay.is_empty() {
            return 0;
        }
        let c = self.lay[self.k % self.lay.len()];
        self.k += 1;
        c
    }
    fn nl(&mut self) {
        if self.crlf {
            self.out.push_str("\r\n");
        } else {
            self.out.push('\n');
        }
    }
    /// optional white space (possibly none)
    fn ows(&mut self) {
        match self.pick() % 12 {
            0..=6 => {}
            7 => self.out.push(' '),
            8 => self.out.push_str("  "),
            9 => self.out.push('\t'),
            10 => self.nl(),
            _ => {
                self.nl();
                self.out.push_str("  ");
            }
        }
    }
    /// mandatory white space
    fn mws(&mut self) {
        match self.pick() % 8 {
            0..=4 => self.out.push(' '),
            5 => self.out.push_str("   "),
            6 => self.out.push('\t'),
            _ => {
                self.nl();
                self.out.push(' ');
            }
        }
    }
    /// canonical single space where the canonical form has one, else optional ws
    fn sp(&mut self) {
        if self.lay.is_empty() {
            self.out.push(' ');
        } else {
            self.ows();
        }
    }
    fn comments(&mut self, comments: &[String], indent: &str) {
        for c in comments {
            self.out.push_str(indent);
            self.out.push('#');
            // a single blank (or none, for an empty comment / by choice)
            let lead = if self.lay.is_empty() { 1 } else { self.pick() % 3 };
            for _ in 0..lead {
                self.out.push(' ');
            }
            self.out.push_str(c);
            self.nl();
        }
    }
    fn ty(&mut self, t: &Ty) {
        match t {
            Ty::Bool => self.out.push_str("bool"),
            Ty::Int => self.out.push_str("int"),
            Ty::Float => self.out.push_str("float"),
            Ty::Str => self.out.push_str("string"),
            Ty::Object => self.out.push_str("object"),
            Ty::Custom(n) => self.out.push_str(n),
            Ty::Opt(t) => {
                self.out.push('?');
                self.ty(t);
            }
            Ty::Arr(t) => {
                self.out.push_str("[]");
                self.ty(t);
            }
            Ty::Map(t) => {
                self.out.push_str("[string]");
                self.ty(t);
            }
            Ty::Struct(f) => self.fields(f),
            Ty::Enum(v) => self.variants(v),
        }
    }
    fn fields(&mut self, fs: &[Fld]) {
        self.out.push('(');
        for (i, f) in fs.iter().enumerate() {
            if i > 0 {
                if !self.lay.is_empty() {
                    self.ows();
                }
                self.out.push(',');
                if self.lay.is_empty() && f.comments.is_empty() {
                    self.out.push(' ');
                }
            }
            if !f.comments.is_empty() {
                self.nl();
                self.comments(&f.comments, "  ");
                self.out.push_str("  ");
            } else if !self.lay.is_empty() {
                self.ows();
            }
            self.out.push_str(&f.name);
            if !self.lay.is_empty() {
                self.ows();
            }
            self.out.push(':');
            self.sp();
            self.ty(&f.ty);
        }
        if !self.lay.is_empty() {
            self.ows();
        }
        self.out.push(')');
    }
    fn variants(&mut self, vs: &[Var]) {
        self.out.push('(');
        for (i, v) in vs.iter().enumerate() {
            if i > 0 {
                if !self.lay.is_empty() {
                    self.ows();
                }
                self.out.push(',');
                if self.lay.is_empty() && v.comments.is_empty() {
                    self.out.push(' ');
                }
            }
            if !v.comments.is_empty() {
                self.nl();
                self.comments(&v.comments, "  ");
                self.out.push_str("  ");
            } else if !self.lay.is_empty() {
                self.ows();
            }
            self.out.push_str(&v.name);
        }
        if !self.lay.is_empty() {
            self.ows();
        }
        self.out.push(')');
    }
}

pub fn render(i: &Iface, layout: &Layout) -> String {
    let crlf = !layout.0.is_empty() && layout.0[0] % 5 == 0;
    let mut r = R { out: String::new(), lay: &layout.0, k: 1, crlf };
    if !r.lay.is_empty() {
        match r.pick() % 4 {
            0 => r.nl(),
            1 => r.out.push_str("  "),
            _ => {}
        }
    }
    r.comments(&i.comments, "");
    r.out.push_str("interface");
    r.mws();
    r.out.push_str(&i.name);
    for m in &i.members {
        // at least one line break between members
        r.nl();
        if r.lay.is_empty() || r.pick() % 2 == 0 {
            r.nl();
        }
        let (kw, name, comments) = match m {
            Member::Type { name, comments, .. } => ("type", name, comments),
            Member::Method { name, comments, .. } => ("method", name, comments),
            Member::Error { name, comments, .. } => ("error", name, comments),
        };
        r.comments(comments, "");
        if !r.lay.is_empty() && r.pick() % 4 == 0 {
            r.out.push_str("  ");
        }
        r.out.push_str(kw);
        r.mws();
        r.out.push_str(name);
        match m {
            Member::Type { body, .. } => {
                r.sp();
                match body {
                    Body::Struct(f) => r.fields(f),
                    Body::Enum(v) => r.variants(v),
                }
            }
            Member::Method { inputs, outputs, .. } => {
                if !r.lay.is_empty() {
                    r.ows();
                }
                r.fields(inputs);
                r.sp();
                r.out.push_str("->");
                r.sp();
                r.fields(outputs);
            }
            Member::Error { fields, .. } => {
                r.sp();
                r.fields(fields);
            }
        }
    }
    if !r.lay.is_empty() {
        match r.pick() % 4 {
            0 => r.nl(),
            1 => r.out.push_str(" \t"),
            _ => {}
        }
    }
    r.out
}

// ---------------------------------------------------------------------------------------------
// From zlink's description (public accessors only)

use zlink_core::idl as z;

pub fn ty_of(t: &z::Type<'_>) -> Ty {
    match t {
        z::Type::Bool => Ty::Bool,
        z::Type::Int => Ty::Int,
        z::Type::Float => Ty::Float,
        z::Type::String => Ty::Str,
        z::Type::ForeignObject => Ty::Object,
        z::Type::Custom(n) => Ty::Custom(n.to_string()),
        z::Type::Optional(r) => Ty::Opt(Box::new(ty_of(r.inner()))),
        z::Type::Array(r) => Ty::Arr(Box::new(ty_of(r.inner()))),
        z::Type::Map(r) => Ty::Map(Box::new(ty_of(r.inner()))),
        z::Type::Object(fs) => Ty::Struct(fs.iter().map(fld_of).collect()),
        z::Type::Enum(vs) => Ty::Enum(vs.iter().map(var_of).collect()),
    }
}

pub fn fld_of(f: &z::Field<'_>) -> Fld {
    Fld { name: f.name().to_string(), ty: ty_of(f.ty()), comments: f.comments().map(|c| c.content().to_string()).collect() }
}

pub fn var_of(v: &z::EnumVariant<'_>) -> Var {
    Var { name: v.name().to_string(), comments: v.comments().map(|c| c.content().to_string()).collect() }
}

/// The description as the harness's tree, members grouped per kind (types, methods, errors).
pub fn iface_of(i: &z::Interface<'_>) -> Iface {
    let mut members = Vec::new();
    for t in i.custom_types() {
        match t {
            z::CustomType::Object(o) => members.push(Member::Type {
                name: o.name().to_string(),
                body: Body::Struct(o.fields().map(fld_of).collect()),
                comments: o.comments().map(|c| c.content().to_string()).collect(),
            }),
            z::CustomType::Enum(e) => members.push(Member::Type {
                name: e.name().to_string(),
                body: Body::Enum(e.variants().map(var_of).collect()),
                comments: e.comments().map(|c| c.content().to_string()).collect(),
            }),
        }
    }
    for m in i.methods() {
        members.push(Member::Method {
            name: m.name().to_string(),
            inputs: m.inputs().map(fld_of).collect(),
            outputs: m.outputs().map(fld_of).collect(),
            comments: m.comments().map(|c| c.content().to_string()).collect(),
        });
    }
    for e in i.errors() {
        members.push(Member::Error {
            name: e.name().to_string(),
            fields: e.fields().map(fld_of).collect(),
            comments: e.comments().map(|c| c.content().to_string()).collect(),
        });
    }
    Iface { name: i.name().to_string(), members, comments: i.comments().map(|c| c.content().to_string()).collect() }
}

/// First difference between two trees, as a path (for messages).
pub fn first_diff(a: &Iface, b: &Iface) -> Option<String> {
    if a.name != b.name {
        return Some(format!("interface name {:?} vs {:?}", a.name, b.name));
    }
    if a.comments != b.comments {
        return Some(format!("interface comments {:?} vs {:?}", a.comments, b.comments));
    }
    if a.members.len() != b.members.len() {
        return Some(format!(
            "{} members ({}) vs {} members ({})",
            a.members.len(),
            a.members.iter().map(|m| m.name()).collect::<Vec<_>>().join(","),
            b.members.len(),
            b.members.iter().map(|m| m.name()).collect::<Vec<_>>().join(",")
        ));
    }
    for (x, y) in a.members.iter().zip(&b.members) {
        if x != y {
            return Some(format!("member {}: {x:?} vs {y:?}", x.name()));
        }
    }
    None
}

// ---------------------------------------------------------------------------------------------
// Tokens (comments removed)

#[derive(Debug, Clone, PartialEq, Eq, Hash)]
pub enum Tok {
    Word(String),
    P(&'static str),
    /// a byte that is neither white space, a word character nor known punctuation
    Other(u8),
}

pub fn tokenize(text: &str) -> Vec<Tok> {
    let b = text.as_bytes();
    let mut i = 0;
    let mut out = Vec::new();
    while i < b.len() {
        let c = b[i];
        if c == b'#' {
            // a comment runs to the line feed (a lone carriage return inside a comment is one of the
            // carve-outs: not judged)
            while i < b.len() && b[i] != b'\n' {
                i += 1;
            }
            continue;
        }
        if c.is_ascii_whitespace() {
            i += 1;
            continue;
        }
        if c.is_ascii_alphanumeric() || c == b'_' {
            let s = i;
            while i < b.len() && (b[i].is_ascii_alphanumeric() || b[i] == b'_' || b[i] == b'.' || (b[i] == b'-' && b.get(i + 1) != Some(&b'>'))) {
                i += 1;
            }
            out.push(Tok::Word(text[s..i].to_string()));
            continue;
        }
        let rest = &b[i..];
        let p: Option<&'static str> = if rest.starts_with(b"[string]") {
            Some("[string]")
        } else if rest.starts_with(b"[]") {
            Some("[]")
        } else if rest.starts_with(b"->") {
            Some("->")
        } else {
            match c {
                b'(' => Some("("),
                b')' => Some(")"),
                b':' => Some(":"),
                b',' => Some(","),
                b'?' => Some("?"),
                _ => None,
            }
        };
        match p {
            Some(p) => {
                out.push(Tok::P(p));
                i += p.len();
            }
            None => {
                out.push(Tok::Other(c));
                i += 1;
            }
        }
    }
    out
}

/// Token sequence of a tree in canonical form, grouped per kind.
pub fn tokens_of(i: &Iface) -> Vec<Tok> {
    let mut stripped = i.grouped();
    fn strip_f(f: &mut Vec<Fld>) {
        for f in f {
            f.comments.clear();
            strip_t(&mut f.ty);
        }
    }
    fn strip_t(t: &mut Ty) {
        match t {
            Ty::Opt(t) | Ty::Arr(t) | Ty::Map(t) => strip_t(t),
            Ty::Struct(f) => strip_f(f),
            Ty::Enum(v) => v.iter_mut().for_each(|v| v.comments.clear()),
            _ => {}
        }
    }
    stripped.comments.clear();
    for m in &mut stripped.members {
        match m {
            Member::Type { body, comments, .. } => {
                comments.clear();
                match body {
                    Body::Struct(f) => strip_f(f),
                    Body::Enum(v) => v.iter_mut().for_each(|v| v.comments.clear()),
                }
            }
            Member::Method { inputs, outputs, comments, .. } => {
                comments.clear();
                strip_f(inputs);
                strip_f(outputs);
            }
            Member::Error { fields, comments, .. } => {
                comments.clear();
                strip_f(fields);
            }
        }
    }
    tokenize(&render(&stripped, &Layout(vec![])))
}

/// Tokens of a text regrouped per member kind: the header (`interface <name>`), then all `type`
/// members in order, all `method` members, all `error` members. A member starts at a keyword that
/// stands at parenthesis depth 0.
pub fn grouped_tokens(text: &str) -> Vec<Tok> {
    let toks = tokenize(text);
    let mut depth = 0i32;
    let mut starts = Vec::new();
    for (i, t) in toks.iter().enumerate() {
        match t {
            Tok::P("(") => depth += 1,
            Tok::P(")") => depth -= 1,
            Tok::Word(w) if depth == 0 && i >= 2 && (w == "type" || w == "method" || w == "error") => {
                // not a field name: at depth 0 a keyword can only start a member
                starts.push(i);
            }
            _ => {}
        }
    }
    let header_end = starts.first().copied().unwrap_or(toks.len());
    let mut out: Vec<Tok> = toks[..header_end].to_vec();
    for kw in ["type", "method", "error"] {
        for (k, &s) in starts.iter().enumerate() {
            let e = starts.get(k + 1).copied().unwrap_or(toks.len());
            if toks[s] == Tok::Word(kw.to_string()) {
                out.extend_from_slice(&toks[s..e]);
            }
        }
    }
    out
}

// ---------------------------------------------------------------------------------------------
// Independent recogniser

#[derive(Debug, Clone, PartialEq)]
pub enum Verdict {
    /// follows the grammar (strict reading): the tree it denotes, members in source order
    Valid(Iface),
    /// follows only a lenient reading (wider name classes, comments in unlisted positions, members
    /// sharing a line): neither acceptance nor rejection is demanded
    Unsure,
    /// does not follow even the lenient reading
    Invalid(String),
}

/// The readings of a text whose comments contain carriage returns that are not part of a CRLF
/// pair: each such CR either belongs to the comment or ends its line (zlink reads it one way in
/// documented positions and the other way inside white space). First the text as it is, then the
/// variants in which some of those CRs are replaced by line feeds (all subsets up to 10 of them;
/// texts with more are not judged at all, see `too_many_lone_crs`).
pub fn lone_cr_readings(text: &str) -> Vec<String> {
    let b = text.as_bytes();
    let mut cands = Vec::new();
    let mut in_comment = false;
    for i in 0..b.len() {
        match b[i] {
            b'#' => in_comment = true,
            b'\n' => in_comment = false,
            b'\r' if in_comment && b.get(i + 1) != Some(&b'\n') => cands.push(i),
            _ => {}
        }
    }
    let mut out = vec![text.to_string()];
    if cands.is_empty() {
        return out;
    }
    let masks: Vec<u64> = if cands.len() <= 10 {
        (1..(1u64 << cands.len())).collect()
    } else {
        let mut m: Vec<u64> = vec![u64::MAX];
        m.extend((0..cands.len().min(60)).map(|k| 1u64 << k));
        m
    };
    for mask in masks {
        let mut v = b.to_vec();
        for (k, &i) in cands.iter().enumerate() {
            if k < 64 && mask & (1 << k) != 0 {
                v[i] = b'\n';
            }
        }
        out.push(String::from_utf8(v).unwrap_or_default());
    }
    out
}

/// More lone carriage returns inside comments than `lone_cr_readings` enumerates the readings of:
/// such a text (only a fuzzer writes one) is outside what is judged.
pub fn too_many_lone_crs(text: &str) -> bool {
    let b = text.as_bytes();
    let (mut n, mut in_comment) = (0, false);
    for i in 0..b.len() {
        match b[i] {
            b'#' => in_comment = true,
            b'\n' => in_comment = false,
            b'\r' if in_comment && b.get(i + 1) != Some(&b'\n') => n += 1,
            _ => {}
        }
    }
    n > 10
}

pub fn recognise(text: &str) -> Verdict {
    // White space other than space / tab / CR / LF at the very ends of the text (form feed, vertical
    // tab, NEL, ...) is tolerated by zlink's trimming; whether that is right is not judged.
    let ascii_ws: &[char] = &[' ', '\t', '\r', '\n'];
    if text.trim() != text.trim_matches(ascii_ws) {
        return match recognise(text.trim()) {
            Verdict::Invalid(e) => Verdict::Invalid(e),
            _ => Verdict::Unsure,
        };
    }
    match P::new(text, true).interface() {
        Ok(i) => Verdict::Valid(i),
        Err(_) => match P::new(text, false).interface() {
            Ok(_) => Verdict::Unsure,
            Err(e) => {
                // A carriage return that is not part of a CRLF pair: whether it ends a comment line
                // (zlink's reading, and that of grammars that list CR among the line ends) or is part
                // of the comment's text is not judged. If the text is acceptable under the reading
                // "a lone CR is a line break", rejection is not demanded.
                if too_many_lone_crs(text) {
                    return Verdict::Unsure;
                }
                for alt in lone_cr_readings(text).iter().skip(1) {
                    if P::new(alt, false).interface().is_ok() {
                        return Verdict::Unsure;
                    }
                }
                Verdict::Invalid(e)
            }
        },
    }
}

struct P<'a> {
    b: &'a [u8],
    s: &'a str,
    i: usize,
    strict: bool,
}

type PR<T> = Result<T, String>;

impl<'a> P<'a> {
    fn new(s: &'a str, strict: bool) -> Self {
        P { b: s.as_bytes(), s, i: 0, strict }
    }
    fn err<T>(&self, what: &str) -> PR<T> {
        Err(format!("{what} at byte {}", self.i))
    }
    fn peek(&self) -> Option<u8> {
        self.b.get(self.i).copied()
    }
    fn eat(&mut self, lit: &str) -> bool {
        if self.b[self.i..].starts_with(lit.as_bytes()) {
            self.i += lit.len();
            true
        } else {
            false
        }
    }
    fn is_ws(&self, c: u8) -> bool {
        // the lenient reading also takes form feed for white space
        matches!(c, b' ' | b'\t' | b'\n' | b'\r') || (!self.strict && c == 0x0c)
    }
    /// plain white space; returns (count, saw a line break)
    fn ws(&mut self) -> (usize, bool) {
        let s = self.i;
        let mut nl = false;
        while let Some(c) = self.peek() {
            if self.is_ws(c) {
                nl |= c == b'\n' || c == b'\r';
                self.i += 1;
            } else {
                break;
            }
        }
        (self.i - s, nl)
    }
    /// White space, and - in the lenient reading - comments.
    fn wsc(&mut self) -> PR<usize> {
        let s = self.i;
        loop {
            self.ws();
            if !self.strict && self.peek() == Some(b'#') {
                self.skip_line();
                continue;
            }
            break;
        }
        Ok(self.i - s)
    }
    fn skip_line(&mut self) {
        while let Some(c) = self.peek() {
            if c == b'\n' {
                break;
            }
            self.i += 1;
        }
    }
    /// Comments on their own lines, attached to what follows. Precondition: at the start of a line
    /// or after white space. Leaves the position at the first non-blank after the comments.
    fn own_line_comments(&mut self, at_line_start: bool) -> PR<Vec<String>> {
        let mut out = Vec::new();
        let mut line_start = at_line_start;
        loop {
            let (_, nl) = self.ws();
            line_start |= nl;
            if self.peek() != Some(b'#') {
                break;
            }
            if self.strict && !line_start {
                return self.err("comment that does not start on its own line");
            }
            self.i += 1;
            while matches!(self.peek(), Some(b' ') | Some(b'\t')) {
                self.i += 1;
            }
            let s = self.i;
            self.skip_line();
            let mut text = &self.s[s..self.i];
            // a CR before the LF belongs to the line break
            if let Some(t) = text.strip_suffix('\r') {
                text = t;
            }
            if text.contains('\r') && self.strict {
                return self.err("carriage return inside a comment");
            }
            out.push(text.to_string());
            line_start = false;
        }
        Ok(out)
    }
    fn word(&mut self, first: impl Fn(u8) -> bool, rest: impl Fn(u8) -> bool) -> Option<&'a str> {
        let s = self.i;
        match self.peek() {
            Some(c) if first(c) => self.i += 1,
            _ => return None,
        }
        while let Some(c) = self.peek() {
            if rest(c) {
                self.i += 1;
            } else {
                break;
            }
        }
        Some(&self.s[s..self.i])
    }
    fn type_name(&mut self) -> PR<String> {
        match self.word(|c| c.is_ascii_uppercase(), |c| c.is_ascii_alphanumeric()) {
            Some(w) => Ok(w.to_string()),
            None => self.err("expected a name starting with an upper-case letter"),
        }
    }
    fn field_name(&mut self) -> PR<String> {
        let w = match self.word(|c| c.is_ascii_alphabetic(), |c| c.is_ascii_alphanumeric() || c == b'_') {
            Some(w) => w,
            None => return self.err("expected a field name"),
        };
        if self.strict && (w.contains("__") || w.ends_with('_')) {
            return self.err("field name with doubled or trailing underscore");
        }
        Ok(w.to_string())
    }
    fn interface_name(&mut self) -> PR<String> {
        let s = self.i;
        let w = match self.word(|c| c.is_ascii_alphabetic(), |c| c.is_ascii_alphanumeric() || c == b'-' || c == b'.') {
            Some(w) => w,
            None => return self.err("expected an interface name"),
        };
        let segs: Vec<&str> = w.split('.').collect();
        if segs.len() < 2 {
            self.i = s;
            return self.err("interface name without a dot");
        }
        for (k, seg) in segs.iter().enumerate() {
            let ok_first = seg.bytes().next().is_some_and(|c| if k == 0 { c.is_ascii_alphabetic() } else { c.is_ascii_alphanumeric() });
            if !ok_first {
                self.i = s;
                return self.err("interface name segment that is empty or starts with '-'");
            }
            if self.strict && seg.ends_with('-') {
                self.i = s;
                return self.err("interface name segment ending in '-'");
            }
        }
        Ok(w.to_string())
    }
    fn ty(&mut self) -> PR<Ty> {
        if self.eat("?") {
            if self.peek() == Some(b'?') {
                return self.err("??");
            }
            let t = self.ty()?;
            return Ok(Ty::Opt(Box::new(t)));
        }
        if self.eat("[]") {
            return Ok(Ty::Arr(Box::new(self.ty()?)));
        }
        if self.eat("[string]") {
            return Ok(Ty::Map(Box::new(self.ty()?)));
        }
        if self.peek() == Some(b'(') {
            return self.list(false).map(|b| match b {
                Body::Struct(f) => Ty::Struct(f),
                Body::Enum(v) => Ty::Enum(v),
            });
        }
        // word: primitive or custom
        let s = self.i;
        match self.word(|c| c.is_ascii_alphabetic(), |c| c.is_ascii_alphanumeric()) {
            Some("bool") => Ok(Ty::Bool),
            Some("int") => Ok(Ty::Int),
            Some("float") => Ok(Ty::Float),
            Some("string") => Ok(Ty::Str),
            Some("object") => Ok(Ty::Object),
            Some(w) if w.as_bytes()[0].is_ascii_uppercase() => Ok(Ty::Custom(w.to_string())),
            _ => {
                self.i = s;
                self.err("expected a type")
            }
        }
    }
    /// A parenthesised list: typed fields (struct) or bare names (enum); `()` is the empty struct.
    /// `direct`: a member's own list, where own-line comments before items are a listed position.
    fn list(&mut self, direct: bool) -> PR<Body> {
        if !self.eat("(") {
            return self.err("expected '('");
        }
        let mut fields = Vec::new();
        let mut variants = Vec::new();
        let mut first = true;
        loop {
            let comments = if direct || !self.strict { self.own_line_comments(false)? } else { self.ws(); vec![] };
            if first && self.eat(")") {
                if !comments.is_empty() && self.strict {
                    return self.err("comment before ')'");
                }
                return Ok(Body::Struct(vec![]));
            }
            first = false;
            let name = self.field_name()?;
            self.wsc()?;
            if self.eat(":") {
                self.wsc()?;
                let ty = self.ty()?;
                fields.push(Fld { name, ty, comments });
            } else {
                variants.push(Var { name, comments });
            }
            self.wsc()?;
            if self.eat(",") {
                continue;
            }
            if self.eat(")") {
                break;
            }
            return self.err("expected ',' or ')'");
        }
        if !fields.is_empty() && !variants.is_empty() {
            return self.err("list mixes typed fields and bare names");
        }
        if !fields.is_empty() {
            Ok(Body::Struct(fields))
        } else {
            Ok(Body::Enum(variants))
        }
    }
    fn struct_list(&mut self) -> PR<Vec<Fld>> {
        match self.list(true)? {
            Body::Struct(f) => Ok(f),
            Body::Enum(_) => self.err("expected typed fields"),
        }
    }
    fn interface(&mut self) -> PR<Iface> {
        let comments = self.own_line_comments(true)?;
        if !self.eat("interface") {
            return self.err("expected 'interface'");
        }
        if self.ws().0 == 0 {
            return self.err("no white space after 'interface'");
        }
        let name = self.interface_name()?;
        let mut members = Vec::new();
        // the rest of the header line
        let mut after = self.ws();
        loop {
            if self.i >= self.b.len() {
                break;
            }
            // In the strict reading a member (or its comments) starts on a new line.
            if self.strict && !after.1 {
                return self.err("member on the same line as the previous one");
            }
            let mcomments = self.own_line_comments(after.1)?;
            if self.i >= self.b.len() {
                if mcomments.is_empty() {
                    break;
                }
                // trailing comments at the end of the text attach to nothing
                if self.strict {
                    return self.err("comment after the last member");
                }
                break;
            }
            let kw = if self.eat("type") {
                0
            } else if self.eat("method") {
                1
            } else if self.eat("error") {
                2
            } else {
                return self.err("expected 'type', 'method' or 'error'");
            };
            if self.ws().0 == 0 {
                return self.err("no white space after the keyword");
            }
            let mname = self.type_name()?;
            self.wsc()?;
            let m = match kw {
                0 => Member::Type { name: mname, body: self.list(true)?, comments: mcomments },
                1 => {
                    let inputs = self.struct_list()?;
                    self.wsc()?;
                    if !self.eat("->") {
                        return self.err("expected '->'");
                    }
                    self.wsc()?;
                    let outputs = self.struct_list()?;
                    Member::Method { name: mname, inputs, outputs, comments: mcomments }
                }
                _ => Member::Error { name: mname, fields: self.struct_list()?, comments: mcomments },
            };
            members.push(m);
            after = self.ws();
            // a trailing comment on the member's line: lenient only
            if self.peek() == Some(b'#') && !after.1 {
                if self.strict {
                    return self.err("comment on the same line as a member");
                }
                self.skip_line();
                after = self.ws();
                after.1 = true;
            }
        }
        Ok(Iface { name, members, comments })
    }
}

// ---------------------------------------------------------------------------------------------
// Mutation of texts

#[derive(Debug, Clone, Serialize, Deserialize)]
pub enum Mutation {
    /// delete token k
    DelTok(u16),
    /// duplicate token k
    DupTok(u16),
    /// swap tokens k and k+1
    SwapTok(u16),
    /// insert a byte at position p
    InsByte(u16, u8),
    /// replace the byte at position p
    SetByte(u16, u8),
    /// delete the byte at position p
    DelByte(u16),
    /// cut the text at byte p
    Truncate(u16),
}

pub fn mutation_strategy() -> impl Strategy<Value = Mutation> {
    let byte = prop_oneof![
        4 => prop::sample::select(b"(),:?[]->#_. \n\t-0aZ".to_vec()),
        1 => any::<u8>(),
    ];
    prop_oneof![
        3 => any::<u16>().prop_map(Mutation::DelTok),
        2 => any::<u16>().prop_map(Mutation::DupTok),
        2 => any::<u16>().prop_map(Mutation::SwapTok),
        2 => (any::<u16>(), byte.clone()).prop_map(|(p, b)| Mutation::InsByte(p, b)),
        2 => (any::<u16>(), byte).prop_map(|(p, b)| Mutation::SetByte(p, b)),
        2 => any::<u16>().prop_map(Mutation::DelByte),
        2 => any::<u16>().prop_map(Mutation::Truncate),
    ]
}

/// Byte spans of the tokens of `text` (comments are skipped).
fn token_spans(text: &str) -> Vec<(usize, usize)> {
    let b = text.as_bytes();
    let mut i = 0;
    let mut out = Vec::new();
    while i < b.len() {
        let c = b[i];
        if c == b'#' {
            while i < b.len() && b[i] != b'\n' {
                i += 1;
            }
            continue;
        }
        if c.is_ascii_whitespace() {
            i += 1;
            continue;
        }
        let s = i;
        if c.is_ascii_alphanumeric() || c == b'_' {
            while i < b.len() && (b[i].is_ascii_alphanumeric() || b[i] == b'_' || b[i] == b'.') {
                i += 1;
            }
        } else if b[i..].starts_with(b"[string]") {
            i += 8;
        } else if b[i..].starts_with(b"[]") || b[i..].starts_with(b"->") {
            i += 2;
        } else {
            i += 1;
            while i < b.len() && (b[i] & 0xC0) == 0x80 {
                i += 1;
            }
        }
        out.push((s, i));
    }
    out
}

fn scale(raw: u16, len: usize) -> usize {
    if len == 0 {
        0
    } else {
        (raw as usize * len) >> 16
    }
}

/// Apply a mutation; the result is always valid UTF-8 (bytes >= 0x80 are inserted as the
/// corresponding Latin-1 character). Returns None if it does not apply.
pub fn mutate(text: &str, m: &Mutation) -> Option<String> {
    let spans = token_spans(text);
    let ch = |b: u8| -> String {
        if b < 0x80 {
            (b as char).to_string()
        } else {
            char::from_u32(b as u32).unwrap().to_string()
        }
    };
    let floor = |mut p: usize| {
        while p > 0 && !text.is_char_boundary(p) {
            p -= 1;
        }
        p
    };
    match *m {
        Mutation::DelTok(k) => {
            let (s, e) = *spans.get(scale(k, spans.len()))?;
            Some(format!("{}{}", &text[..s], &text[e..]))
        }
        Mutation::DupTok(k) => {
            let (s, e) = *spans.get(scale(k, spans.len()))?;
            Some(format!("{}{} {}", &text[..e], &text[s..e], &text[e..]))
        }
        Mutation::SwapTok(k) => {
            if spans.len() < 2 {
                return None;
            }
            let i = scale(k, spans.len() - 1);
            let (s1, e1) = spans[i];
            let (s2, e2) = spans[i + 1];
            Some(format!("{}{}{}{}{}", &text[..s1], &text[s2..e2], &text[e1..s2], &text[s1..e1], &text[e2..]))
        }
        Mutation::InsByte(p, b) => {
            let p = floor(scale(p, text.len() + 1));
            Some(format!("{}{}{}", &text[..p], ch(b), &text[p..]))
        }
        Mutation::SetByte(p, b) => {
            if text.is_empty() {
                return None;
            }
            let p = floor(scale(p, text.len()));
            let n = text[p..].chars().next()?.len_utf8();
            Some(format!("{}{}{}", &text[..p], ch(b), &text[p + n..]))
        }
        Mutation::DelByte(p) => {
            if text.is_empty() {
                return None;
            }
            let p = floor(scale(p, text.len()));
            let n = text[p..].chars().next()?.len_utf8();
            Some(format!("{}{}", &text[..p], &text[p + n..]))
        }
        Mutation::Truncate(p) => {
            let p = floor(scale(p, text.len() + 1));
            Some(text[..p].to_string())
        }
    }
}
