//! Runner of the generated corpus of introspection derives (C16). Generated modules in `gen-out/`
//! only dump what the derives produced; vcheck compares with expectations computed from the
//! declarations.
#![allow(unused, clippy::all)]

mod prelude;
#[path = "../gen-out/mod.rs"]
mod gen;

fn main() {
    let mut out = Vec::new();
    prelude::witnesses(&mut out);
    gen::run_all(&mut out);
    let stdout = std::io::stdout();
    let mut lock = stdout.lock();
    for r in &out {
        use std::io::Write;
        let _ = writeln!(lock, "{}", serde_json::to_string(r).unwrap());
    }
}
