//! Hand-written support code for the generated corpus.

pub use std::{
    borrow::Cow,
    cell::{Cell, RefCell},
    collections::{BTreeMap, BTreeSet, HashMap, HashSet},
    rc::Rc,
    sync::Arc,
};

use serde::Serialize;
use serde_json::{json, Value};
use vcommon::idl::{fld_of, iface_of, ty_of, var_of, Body, Member};
pub use zlink_core::{idl, introspect};

#[derive(Debug, Serialize)]
pub struct Record {
    pub key: String,
    pub desc: Value,
}

pub fn rec(key: &str, desc: Value) -> Record {
    Record { key: key.to_string(), desc }
}

pub fn dump_type<T: introspect::Type>() -> Value {
    serde_json::to_value(ty_of(T::TYPE)).unwrap()
}

pub fn custom_member(t: &idl::CustomType<'_>) -> Member {
    match t {
        idl::CustomType::Object(o) => Member::Type {
            name: o.name().to_string(),
            body: Body::Struct(o.fields().map(fld_of).collect()),
            comments: o.comments().map(|c| c.content().to_string()).collect(),
        },
        idl::CustomType::Enum(e) => Member::Type {
            name: e.name().to_string(),
            body: Body::Enum(e.variants().map(var_of).collect()),
            comments: e.comments().map(|c| c.content().to_string()).collect(),
        },
    }
}

pub fn dump_custom<T: introspect::CustomType>() -> Value {
    serde_json::to_value(custom_member(T::CUSTOM_TYPE)).unwrap()
}

pub fn dump_errors<T: introspect::ReplyError>() -> Value {
    let v: Vec<Member> = T::VARIANTS
        .iter()
        .map(|e| Member::Error {
            name: e.name().to_string(),
            fields: e.fields().map(fld_of).collect(),
            comments: e.comments().map(|c| c.content().to_string()).collect(),
        })
        .collect();
    serde_json::to_value(v).unwrap()
}

fn leak<T>(v: T) -> &'static T {
    Box::leak(Box::new(v))
}

/// Assemble an interface from derived descriptions, render it, parse it back and compare.
pub fn round_trip(
    name: &'static str,
    customs: &[&'static idl::CustomType<'static>],
    errors: &'static [&'static idl::Error<'static>],
    inline: &[(&'static str, &'static idl::Type<'static>)],
) -> Value {
    let mut methods: Vec<&'static idl::Method<'static>> = Vec::new();
    for (mname, ty) in inline {
        if let Some(fields) = ty.as_object().and_then(|l| l.as_borrowed()) {
            // the struct's fields as the method's (direct) parameters
            methods.push(leak(idl::Method::new(mname, fields, &[], &[])));
        } else {
            let f = leak(idl::Field::new("value", ty, &[]));
            let ins: &'static [&'static idl::Field<'static>] = Box::leak(vec![f].into_boxed_slice());
            methods.push(leak(idl::Method::new(mname, ins, &[], &[])));
        }
    }
    let methods: &'static [&'static idl::Method<'static>] = Box::leak(methods.into_boxed_slice());
    let customs: &'static [&'static idl::CustomType<'static>] = Box::leak(customs.to_vec().into_boxed_slice());
    let iface = idl::Interface::new(name, methods, customs, errors, &[]);
    let text = iface.to_string();
    match idl::Interface::try_from(text.as_str()) {
        Ok(parsed) => {
            // comments on fields / variants *inside inline types* are outside what the property lists
            // (the parser treats them as white space): compare without them
            let a = strip_inline_comments(iface_of(&parsed));
            let b = strip_inline_comments(iface_of(&iface));
            json!({"text": text, "parsed": true, "lib_eq": parsed == iface, "deep_eq": a == b,
                   "diff": vcommon::idl::first_diff(&a, &b), "refixed": idl::Interface::try_from(parsed.to_string().as_str()).map(|p2| strip_inline_comments(iface_of(&p2)) == a).unwrap_or(false)})
        }
        Err(e) => json!({"text": text, "parsed": false, "error": e.to_string()}),
    }
}

fn strip_inline_comments(mut i: vcommon::idl::Iface) -> vcommon::idl::Iface {
    use vcommon::idl::{Fld, Ty};
    fn ty(t: &mut Ty) {
        match t {
            Ty::Opt(t) | Ty::Arr(t) | Ty::Map(t) => ty(t),
            Ty::Struct(f) => f.iter_mut().for_each(|f| {
                f.comments.clear();
                ty(&mut f.ty)
            }),
            Ty::Enum(v) => v.iter_mut().for_each(|v| v.comments.clear()),
            _ => {}
        }
    }
    fn direct(f: &mut Vec<Fld>) {
        f.iter_mut().for_each(|f| ty(&mut f.ty));
    }
    for m in &mut i.members {
        match m {
            Member::Type { body: Body::Struct(f), .. } => direct(f),
            Member::Type { .. } => {}
            Member::Method { inputs, outputs, .. } => {
                direct(inputs);
                direct(outputs);
            }
            Member::Error { fields, .. } => direct(fields),
        }
    }
    i
}

// ---- fixed witnesses of the known findings ----

#[derive(introspect::Type)]
#[zlink(crate = "zlink_core")]
pub struct WNested {
    pub v: Option<Option<i64>>,
}

/// Witness of enum-variant-comment-render: a derived unit enum with two variants, one documented.
#[derive(introspect::CustomType)]
#[zlink(crate = "zlink_core")]
#[allow(dead_code)]
pub enum WColor {
    /// warm
    Red,
    Blue,
}

pub fn witnesses(out: &mut Vec<Record>) {
    use introspect::{CustomType, Type};
    out.push(rec("witness.enum-comment.roundtrip", round_trip("org.gen.witness2", &[WColor::CUSTOM_TYPE], &[], &[])));
    out.push(rec("witness.nested-option.type", dump_type::<WNested>()));
    out.push(rec("witness.nested-option.roundtrip", round_trip("org.gen.witness", &[], &[], &[("UseNested", WNested::TYPE)])));
}
