//! Hand-written support code for the generated corpus.

pub use std::collections::BTreeMap;

pub use serde::{Deserialize, Serialize};
pub use serde_json::{json, Value};
pub use vsim::{
    exec::run_until_ready,
    sim::{ReadEv, SimSocket},
};
pub use zlink_core::{Connection, ReplyError};

#[derive(Debug, Serialize)]
pub struct Record {
    pub key: String,
    pub desc: Value,
}

/// A nested parameter type.
#[derive(Debug, Clone, PartialEq, Serialize, Deserialize)]
pub struct Inner {
    pub a: i64,
    pub b: String,
}

/// serde_json encoding of the value.
pub fn enc<T: Serialize>(key: &str, v: &T) -> Record {
    let desc = match serde_json::to_value(v) {
        Ok(j) => json!({ "ok": true, "json": j }),
        Err(e) => json!({ "ok": false, "dbg": e.to_string() }),
    };
    Record { key: key.to_string(), desc }
}

/// What zlink's own serializer puts on the wire for `send_error`.
pub fn wire<T: Serialize + std::fmt::Debug>(key: &str, v: &T) -> Record {
    let (sock, h) = SimSocket::new();
    let mut conn = Connection::new(sock);
    let desc = match run_until_ready(conn.send_error(v), 8) {
        Some(Ok(())) => {
            let bytes = h.written();
            match bytes.split_last() {
                Some((0, doc)) => match serde_json::from_slice::<Value>(doc) {
                    Ok(j) => json!({ "ok": true, "json": j }),
                    Err(e) => json!({ "ok": false, "dbg": format!("not JSON: {e}") }),
                },
                _ => json!({ "ok": false, "dbg": "frame not NUL-terminated" }),
            }
        }
        other => json!({ "ok": false, "dbg": format!("{other:?}") }),
    };
    Record { key: key.to_string(), desc }
}

/// Decode `text` as `$ty` with serde_json and compare with the value it was written from.
macro_rules! dec {
    ($ty:ty, $key:expr, $text:expr, $want:expr) => {{
        let desc = match serde_json::from_str::<$ty>($text) {
            Ok(v) => json!({ "ok": true, "eq": v == *$want, "dbg": format!("{v:?}") }),
            Err(e) => json!({ "ok": false, "dbg": e.to_string() }),
        };
        Record { key: $key.to_string(), desc }
    }};
}

/// Receive `text` as a reply through a connection (`receive_reply::<(), $ty>`): it must come back
/// as the method's error, equal to the value it was written from.
macro_rules! recv {
    ($ty:ty, $key:expr, $text:expr, $want:expr) => {{
        let mut data = $text.as_bytes().to_vec();
        data.push(0);
        let (sock, _h) = SimSocket::with_script([ReadEv::Data(data), ReadEv::Eof]);
        let mut conn = Connection::new(sock);
        let desc = match run_until_ready(conn.receive_reply::<(), $ty>(), 16) {
            Some(Ok(Err(e))) => json!({ "ok": true, "eq": e == *$want, "dbg": format!("{e:?}") }),
            Some(Ok(Ok(_))) => json!({ "ok": false, "dbg": "reported as a success" }),
            Some(Err(e)) => json!({ "ok": false, "dbg": format!("{e:?}") }),
            None => json!({ "ok": false, "dbg": "pending" }),
        };
        Record { key: $key.to_string(), desc }
    }};
}
