//! Runner of the generated corpus of `ReplyError` derives (C05). Generated modules in `gen-out/`
//! declare error enums and dump what encoding / decoding them gives; vcheck compares with the
//! expectations computed from the declarations.
#![allow(unused, clippy::all)]

#[macro_use]
mod prelude;
#[path = "../gen-out/mod.rs"]
mod gen;

fn main() {
    let mut out = Vec::new();
    gen::run_all(&mut out);
    let stdout = std::io::stdout();
    let mut lock = stdout.lock();
    for r in &out {
        use std::io::Write;
        let _ = writeln!(lock, "{}", serde_json::to_string(r).unwrap());
    }
}
