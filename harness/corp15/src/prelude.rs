//! Hand-written support code for the generated corpus.

pub use std::collections::HashMap;

use serde::Serialize;
pub use serde_json::{json, Value};
pub use vsim::{
    exec::run_until_ready,
    sim::{ReadEv, SimHandle, SimSocket},
};
pub use zlink::Connection;

#[derive(Debug, Serialize)]
pub struct Record {
    pub key: String,
    /// frames written to the transport (parsed), or a marker string
    pub frames: Vec<Value>,
    /// {"ok": value} | {"err": value} | {"fail": text} | {"pending": true}
    pub result: Value,
}

pub fn new_conn(replies: &[&str]) -> (Connection<SimSocket>, SimHandle) {
    let mut data = Vec::new();
    for r in replies {
        data.extend_from_slice(r.as_bytes());
        data.push(0);
    }
    let (sock, h) = if data.is_empty() { SimSocket::new() } else { SimSocket::with_script([ReadEv::Data(data)]) };
    (Connection::new(sock), h)
}

pub fn frames_of(h: &SimHandle) -> Vec<Value> {
    let bytes = h.written();
    if bytes.is_empty() {
        return vec![];
    }
    if *bytes.last().unwrap() != 0 {
        return vec![json!("<no terminator>")];
    }
    bytes[..bytes.len() - 1]
        .split(|&b| b == 0)
        .map(|f| serde_json::from_slice(f).unwrap_or_else(|_| json!({"<not json>": String::from_utf8_lossy(f)})))
        .collect()
}

pub fn block<F: std::future::Future>(f: F) -> Option<F::Output> {
    run_until_ready(f, 64)
}

pub fn fmt_result<T: Serialize, E: Serialize>(r: Option<zlink::Result<Result<T, E>>>) -> Value {
    match r {
        None => json!({"pending": true}),
        Some(Ok(Ok(v))) => json!({"ok": serde_json::to_value(&v).unwrap_or(json!("<unserializable>"))}),
        Some(Ok(Err(e))) => json!({"err": serde_json::to_value(&e).unwrap_or(json!("<unserializable>"))}),
        Some(Err(e)) => json!({"fail": format!("{e:?}")}),
    }
}

/// Decode a custom type from its IDL-spelled JSON and encode it again.
pub fn round<T: serde::de::DeserializeOwned + Serialize>(v: Value) -> Value {
    match serde_json::from_value::<T>(v) {
        Ok(t) => json!({"ok": serde_json::to_value(&t).unwrap_or(json!("<unserializable>"))}),
        Err(e) => json!({"fail": e.to_string()}),
    }
}

pub fn from_json<T: serde::de::DeserializeOwned>(v: Value) -> T {
    serde_json::from_value(v).expect("harness value decodes as the generated type")
}
