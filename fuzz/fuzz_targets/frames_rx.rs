//! Coverage-guided target: decodes the input and runs the property's own oracle (see
//! harness/vcheck/src/fuzzdec.rs); a violated oracle is a panic, i.e. a libFuzzer crash.
#![no_main]
use libfuzzer_sys::fuzz_target;

fuzz_target!(|data: &[u8]| {
    if let Err(f) = vcheck::fuzzdec::frames_rx(data) {
        panic!("VIOLATION sig={} {}", f.sig, f.message);
    }
});
