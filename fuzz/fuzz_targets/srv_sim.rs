//! Coverage-guided target: the input is decoded into the same raw values the property's proptest
//! strategy draws (harness/vcheck/src/fuzzdec.rs) and the case runs through the same oracle as the
//! check; a violated oracle is a panic, i.e. a libFuzzer crash.
#![no_main]
use libfuzzer_sys::fuzz_target;

fuzz_target!(|data: &[u8]| {
    if let Err(f) = vcheck::fuzzdec::srv_sim(data) {
        panic!("VIOLATION sig={} {}", f.sig, f.message);
    }
});
