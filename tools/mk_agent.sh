#!/bin/bash
# tools/mk_agent.sh <Cnn>... : create scratch worktree /tmp/mut/wt-<Cnn> at /repo HEAD and the agent prompt /tmp/mut/prompt-<Cnn>.md
mkdir -p /tmp/mut
for id in "$@"; do
  git -C /repo worktree remove --force /tmp/mut/wt-$id 2>/dev/null
  git -C /repo worktree add --detach /tmp/mut/wt-$id HEAD -q && mkdir -p /tmp/mut/out-$id && python3 - $id <<'PY'
import json,sys
pid=sys.argv[1]
for l in open('/verif/properties.jsonl'):
    d=json.loads(l)
    if d['id']==pid:
        t=open('/verif/tools/mutant_prompt.md').read()
        import glob,os
        done=[]
        for m in sorted(glob.glob('/verif/seeded/'+pid+'-m*/meta.json')):
            try: done.append('  - '+json.load(open(m))['summary'][:200].replace('\n',' ')+' ...')
            except Exception: pass
        avoid=('\nEarlier rounds already produced the following changes for this property; yours must have DIFFERENT root causes,\nin different functions (preferably different files among the anchors), and different trigger conditions:\n'+'\n'.join(done)+'\n') if done else ''
        t=t.replace('{AVOID}',avoid)
        nums=[int(os.path.basename(os.path.dirname(m)).split('-m')[1]) for m in glob.glob('/verif/seeded/'+pid+'-m*/meta.json')]
        n=max(nums+[0])
        t=t.replace('{M1}','m%d'%(n+1)).replace('{M2}','m%d'%(n+2)).replace('("m1" and "m2")','("m%d" and "m%d")'%(n+1,n+2))
        t=t.replace('{WT}','/tmp/mut/wt-'+pid).replace('{OUT}','/tmp/mut/out-'+pid).replace('{PROPERTY}',json.dumps(d,indent=1))
        open('/tmp/mut/prompt-'+pid+'.md','w').write(t)
PY
done
