#!/bin/bash
# tools/mk_agent.sh <Cnn>... : create scratch worktree /tmp/mut/wt-<Cnn> at /repo HEAD and the agent prompt /tmp/mut/prompt-<Cnn>.md
mkdir -p /tmp/mut
for id in "$@"; do
  git -C /repo worktree remove --force /tmp/mut/wt-$id 2>/dev/null
  git -C /repo worktree add --detach /tmp/mut/wt-$id HEAD -q && mkdir -p /tmp/mut/out-$id && python3 - $id <<'PY'
import json,sys
pid=sys.argv[1]
for l in open('/verif/properties.jsonl'):
    d=json.loads(l)
    if d['id']==pid:
        t=open('/verif/tools/mutant_prompt.md').read()
        t=t.replace('{WT}','/tmp/mut/wt-'+pid).replace('{OUT}','/tmp/mut/out-'+pid).replace('{PROPERTY}',json.dumps(d,indent=1))
        open('/tmp/mut/prompt-'+pid+'.md','w').write(t)
PY
done
