#!/bin/bash
# tools/confirm_mutant.sh <ID> <mN>   — confirm a seeded change produced by a sub-agent in its scratch worktree:
#   demo passes without the patch, patch applies, workspace builds, the 185 baseline tests pass, demo fails with it.
# On success copies it to /verif/seeded/<ID>-<mN>/ (patch.diff, demo.rs, meta.json + confirm.log).
set -u
ID="$1"; M="$2"
WT=/tmp/mut/wt-$ID; OUT=/tmp/mut/out-$ID/$M
[ -f "$OUT/patch.diff" ] || { echo "no patch in $OUT"; exit 2; }
crate=$(python3 -c "import json;print((json.load(open('$OUT/meta.json')).get('demo_crate','zlink-core').split() or ['zlink-core'])[0].strip('/').split('/')[0])")
cmd=$(python3 -c "import json;print(json.load(open('$OUT/meta.json')).get('demo_cmd',''))")
cd "$WT" || exit 2
git checkout -q -- . ; git clean -fdq
# sync the scratch worktree with /repo's HEAD (fix commits may have landed since it was created)
git checkout -q --detach "$(git -C /repo rev-parse HEAD)" 2>/dev/null
mkdir -p "$crate/tests"; cp "$OUT/demo.rs" "$crate/tests/demo.rs"
log=$(mktemp)
run_demo() { ( cd "$WT" && if [ -n "$cmd" ]; then eval "$cmd"; else cargo test -p "$crate" --test demo --offline -j 8; fi ) >>"$log" 2>&1; }
echo "== demo without patch" >>"$log"; run_demo; a=$?
if ! git apply "$OUT/patch.diff" >>"$log" 2>&1; then echo "$ID $M: patch does not apply to current HEAD"; tail -5 "$log"; exit 1; fi
echo "== baseline with patch" >>"$log"
mv "$crate/tests/demo.rs" /tmp/mut/demo-$ID-$M.rs
( cargo nextest run --workspace --no-fail-fast --tool-config-file pb:/w/lib/nextest.toml --profile pb --test-threads 8 --offline ) >>"$log" 2>&1; b=$?
summary=$(grep -E "Summary|tests run" "$log" | tail -1)
mv /tmp/mut/demo-$ID-$M.rs "$crate/tests/demo.rs"
echo "== demo with patch" >>"$log"; run_demo; c=$?
git checkout -q -- . ; git clean -fdq
echo "$ID $M: demo_without_patch_exit=$a baseline_with_patch_exit=$b [$summary] demo_with_patch_exit=$c"
if [ $a -eq 0 ] && [ $b -eq 0 ] && [ $c -ne 0 ]; then
  dst=/verif/seeded/$ID-$M; mkdir -p "$dst"
  cp "$OUT/patch.diff" "$OUT/demo.rs" "$dst/"; cp "$OUT/meta.json" "$dst/agent_meta.json"
  { echo "confirmed $(date -u +%FT%TZ) at repo commit $(git -C /repo rev-parse --short HEAD)"; echo "demo without patch: exit $a; baseline with patch: exit $b $summary; demo with patch: exit $c"; echo "demo command: (copy demo.rs to $crate/tests/demo.rs) $cmd"; } > "$dst/confirm.log"
  echo "CONFIRMED -> $dst"
else
  echo "NOT CONFIRMED (see $log)"; tail -20 "$log"
fi
