#!/bin/bash
# Runs the repository's pinned baseline suite with the verification hooks OFF; prints the summary line.
cd /repo && cargo nextest run --workspace --no-fail-fast --tool-config-file pb:/w/lib/nextest.toml --profile pb --test-threads 8 --offline 2>&1 | grep -E "Summary|FAIL|error" | head -20
