#!/bin/bash
# tools/probe.sh <patch.diff> <Cnn> [<Cnn>...]  — apply a mutation to /repo, run the quick checks, undo.
# Prints one line per check: "<Cnn> exit=<code>"; never leaves /repo modified.
set -u
patch="$(realpath "$1")"; shift
cd /verif
exec 9>/tmp/verif-repo.lock; flock 9
if ! git -C /repo diff --quiet; then echo "probe: /repo has uncommitted changes" >&2; exit 2; fi
if ! git -C /repo apply "$patch"; then echo "probe: patch does not apply" >&2; exit 2; fi
trap 'git -C /repo checkout -- . ; git -C /repo clean -fdq -- zlink* 2>/dev/null' EXIT
for c in "$@"; do
  out=$(VERIF_PROBE=1 ./check "$c" ${TIER:-quick} 2>&1); rc=$?
  echo "$c exit=$rc $(echo "$out" | grep -c '^VIOLATION') violation line(s)"
  echo "$out" | grep -E "violation sig|KNOWN-FINDING" | head -5 | cut -c1-300
done
