#!/bin/bash
# tools/seeded_run.sh <seeded-dir-name> [<Cnn> ...]
# Applies seeded/<name>/patch.diff to /repo, runs the quick checks named (default: the property in the name),
# undoes it, and (re)writes seeded/<name>/meta.json from agent_meta.json + confirm.log + the detection results.
set -u
name="$1"; shift
dir=/verif/seeded/$name
checks=("$@"); [ ${#checks[@]} -eq 0 ] && checks=("${name%%-*}")
out=$(cd /verif && tools/probe.sh "$dir/patch.diff" "${checks[@]}" 2>&1)
echo "$out" | cut -c1-220
echo "$out" > "$dir/detect.log"
python3 - "$dir" "$name" <<'PY'
import json, sys, re, os
d, name = sys.argv[1], sys.argv[2]
am = json.load(open(os.path.join(d, "agent_meta.json")))
confirm = open(os.path.join(d, "confirm.log")).read().strip().splitlines()
det = open(os.path.join(d, "detect.log")).read()
results = {}
for m in re.finditer(r"^(C\d+) exit=(\d+) (\d+) violation", det, re.M):
    results[m.group(1)] = {"exit": int(m.group(2)), "violation_lines": int(m.group(3))}
sigs = re.findall(r"violation sig=([^:]+):", det)
meta = {
  "property": name.split("-")[0],
  "source": "independent sub-agent given only the property text and a scratch worktree",
  "summary": am.get("summary"),
  "needs_to_manifest": am.get("needs_to_manifest"),
  "demo": {"file": "demo.rs", "crate": am.get("demo_crate"), "cmd": am.get("demo_cmd")},
  "confirmed_by_me": confirm,
  "checks_run": results,
  "detected": any(r["exit"] == 1 for r in results.values()),
  "violation_signatures": sorted(set(sigs)),
}
dp = os.path.join(d, "disposition.txt")
if os.path.exists(dp):
    meta["disposition"] = open(dp).read().strip()
json.dump(meta, open(os.path.join(d, "meta.json"), "w"), indent=1)
print("meta.json:", "DETECTED" if meta["detected"] else "MISSED", results)
PY
