#!/bin/bash
# tools/thorough_bg.sh <Cnn>...   (meant for: vp run --with-repo -- tools/thorough_bg.sh C01 C02 ...)
# Runs the thorough tiers from a snapshot of /verif against the snapshot of /repo ($VP_RUN_REPO), so that
# mutation probes applied to /repo meanwhile cannot disturb it. The snapshot's Cargo manifests are pointed
# at the repo snapshot; nothing of this is evidence (evidence comes from /verif against /repo itself).
set -u
R="${VP_RUN_REPO:-/repo}"
if [ "$R" != /repo ]; then
  sed -i "s#\"/repo/#\"$R/#g" harness/*/Cargo.toml fuzz/Cargo.toml
fi
export VERIF_REPO="$R"
for c in "$@"; do
  s=$(date +%s)
  out=$(./check "$c" thorough 2>&1); rc=$?
  e=$(( $(date +%s) - s ))
  echo "== $c thorough rc=$rc ${e}s"
  echo "$out" | grep -E "^VIOLATION|violation sig|KNOWN-FINDING|inconclusive|evaluations|OK property" | cut -c1-400 | head -20
done
