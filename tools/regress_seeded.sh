#!/bin/bash
# tools/regress_seeded.sh [pattern]  — re-run every seeded change against the quick checks that caught it before;
# prints one line per change, "REGRESSION" if a check that used to catch it is now silent.
cd /verif
for d in seeded/${1:-C*}/; do
  name=$(basename "$d")
  [ -f "$d/meta.json" ] || continue
  checks=$(python3 -c "
import json,sys
m=json.load(open('$d/meta.json'))
print(' '.join(sorted(k for k,v in m.get('checks_run',{}).items() if v.get('exit')==1)))")
  [ -z "$checks" ] && { echo "$name: no detecting check recorded"; continue; }
  cp "$d/meta.json" "$d/meta.json.bak"
  out=$(tools/seeded_run.sh "$name" $checks 2>&1 | tail -1)
  python3 - "$d" "$name" "$checks" <<'PY'
import json,sys
d,name,checks=sys.argv[1],sys.argv[2],sys.argv[3].split()
new=json.load(open(d+'/meta.json')); old=json.load(open(d+'/meta.json.bak'))
bad=[c for c in checks if new.get('checks_run',{}).get(c,{}).get('exit')!=1]
# keep the union of what was run
cr=old.get('checks_run',{}); cr.update(new.get('checks_run',{})); new['checks_run']=cr
new['detected']=any(v.get('exit')==1 for v in cr.values())
json.dump(new,open(d+'/meta.json','w'),indent=1)
print(name, 'REGRESSION '+','.join(bad) if bad else 'ok', {c:new['checks_run'][c].get('exit') for c in checks})
PY
  rm -f "$d/meta.json.bak"
done
