#!/usr/bin/env python3
import json, sys, glob
try:
    import jsonschema
except ImportError:
    import os
    os.execvp("python3-vt", ["python3-vt"] + sys.argv)
schema = json.load(open("/root/.vp/EVIDENCE.schema.json"))
ok = True
for p in sorted(glob.glob("/verif/evidence/*.json")):
    try:
        jsonschema.validate(json.load(open(p)), schema)
        print("valid", p)
    except Exception as e:
        ok = False
        print("INVALID", p, str(e)[:300])
sys.exit(0 if ok else 1)
