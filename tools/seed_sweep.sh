#!/bin/bash
# tools/seed_sweep.sh "<seeds>" <Cnn>...  — run quick checks under several seeds on the unchanged tree; report any alarm.
# Each run takes /tmp/verif-repo.lock (shared with probe.sh) so that a mutation probe never overlaps a sweep run.
seeds="$1"; shift
cd /verif
for s in $seeds; do
  for c in "$@"; do
    out=$(flock /tmp/verif-repo.lock env VERIF_SEED=$s ./check $c quick 2>&1); rc=$?
    if [ $rc -ne 0 ] || echo "$out" | grep -q '^VIOLATION'; then
      echo "ALARM seed=$s $c rc=$rc"; echo "$out" | grep -E "violation sig|VIOLATION|inconclusive|crashed" | head -5 | cut -c1-400
    else
      echo "ok seed=$s $c"
    fi
  done
done
