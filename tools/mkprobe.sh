#!/bin/bash
# tools/mkprobe.sh <out.diff> <file-in-repo> <python-expr-transforming-s>
# Creates a mutation patch by applying a Python string transformation to a file of /repo (restored afterwards).
set -eu
out="$(realpath -m "$1")"; file="$2"; expr="$3"
mkdir -p "$(dirname "$out")"
cd /repo
python3 - "$file" "$expr" <<'PY'
import sys
p, expr = sys.argv[1], sys.argv[2]
s = open(p).read()
t = eval(expr, {"s": s})
assert t != s, "transformation changed nothing"
open(p, "w").write(t)
PY
git diff > "$out"
git checkout -- .
echo "wrote $out ($(wc -l < "$out") lines)"
