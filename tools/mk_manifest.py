#!/usr/bin/env python3
"""Regenerates /verif/MANIFEST.json from the table below (kept in one place so that it stays valid)."""
import json, os, subprocess, sys

ROOT = os.path.dirname(os.path.dirname(os.path.abspath(__file__)))

BASELINE = ("cd /repo && cargo nextest run --workspace --no-fail-fast --tool-config-file "
            "pb:/w/lib/nextest.toml --profile pb --test-threads 8 --offline")

# id -> (category, engine, technique, level text, level note, design ref)
CHECKS = {
 "C01": ("exploration", "vcheck",
   "property-based testing (proptest, seed-sharded, shrinking) + exhaustive enumeration of cuts of short streams; reference-model oracle (serde_json on exactly one frame)",
   "Generated frame sequences (valid, wrong-shape, malformed, padded with JSON white space or with bytes other definitions of white space accept - VT, FF, NEL, NBSP, LS, BOM; sizes dialled around the 256-byte growth steps) x chunkings x Pending schedules x 8 target types are received through a scripted transport and compared result-by-result with the reference decode of each frame; every single cut and pair of cuts of 100+ short streams is enumerated; a lane of large bursts mixes frames of 4..90 KiB (hundreds of growth steps) with small ones; thorough adds a libFuzzer campaign (frames_rx) with the same oracle. Exploration: it finds counterexamples with high probability in the generated domain, it does not prove absence.",
   "Trusted: serde_json::from_slice as the definition of 'decodes', the C04 rules for classifying replies, the simulated transport (never over-fills the offered buffer, EOF = 0-byte read).",
   "§3 C01"),
 "C04": ("exploration", "vcheck",
   "exhaustive enumeration of a reply-frame grammar x parameter types x error types; rule-based oracle from the statement (differential: direct serde decode of the caller's types vs zlink's receive path)",
   "The complete cross product of a reply grammar (18 error spellings x 16 parameter shapes x continues x unknown member x every member order) is received as 9 (P,E) type combinations through receive_reply and call_method, and answered to the methods of a generated proxy (unit output with a declared / empty error enum, struct output, first item of a streaming method); a frame with an `error` member must never come back as success and must be classified exactly as the statement's rules say - under two definitions of 'the caller's error type recognises it' that both have to agree with zlink: the serde decode of the type, and a hand-written description of the declared variants (qualified name, field names and JSON types, unknown members ignored).",
   "Trusted: the hand-written description of the three error enums and of org.varlink.service's errors used here (field-less variants with parameters that are neither absent, null nor an object are not judged); the grammar is finite and enumerated completely, frames outside it are not covered.",
   "§3 C04"),

 "C02": ("exploration", "vcheck",
   "model-based property testing of operation histories (proptest, shrinking; thorough: libFuzzer target tx_hist decoding the same raw operation specs) with a model-directed size generator + exhaustive directed sweep of free-space values 0..=600; oracle = model of the wire built from serde_json encodings",
   "Histories of enqueue_call/send_call/send_reply/send_error/flush (and flushes that are started while the transport does not accept the write and abandoned after 1..3 polls) with message sizes aimed (by a model of the 256-byte-step write buffer) at every free-space value 0..=600, the exact-fit branch and multi-step spans, with refused messages injected anywhere and payloads that walk the serde data model (every variant kind incl. struct variants whose fields are all skipped, non-finite floats, 128-bit integers, escaped variant names and chars, integer / char keys); the transport's record (one entry per write call) must equal the model's list of writes byte for byte. Histories also contain chains (chain_call / append, ended by a refused call, sent or dropped unsent, in front of and behind other enqueued messages) and messages of 3..40 KB (a queue of tens of kilobytes is still one write); payloads also carry newtype-struct keys, values written with collect_str (pieces through write_str / write_char / the formatting machinery) and std network addresses.",
   "Trusted: serde_json::to_vec as the reference encoding of a message (C03 checks the serializer itself); the capturing write half. The buffer model is used for aiming only.",
   "§3 C02"),
 "C03": ("exploration", "vcheck",
   "differential testing against serde_json::to_vec: exhaustive enumeration of scalar sub-domains (all Unicode scalars, escape pairs/triples, 8/16-bit integers, all f32 in thorough) + proptest trees over the whole serde data model + exhaustive buffer-length sweeps",
   "Through the cfg(zlink_verif) hook every encode is compared byte for byte with serde_json; finite sub-domains are enumerated completely, the tree space is sampled with shrinking; refused key kinds must give an error; every buffer length 0..=L+2 is tried for sampled values and sampled trees also travel the public send path at dialled fill positions. The tree also calls the provided Serializer methods (collect_str with multi-piece Display values, collect_seq with and without size hint, collect_map), asks is_human_readable and contains std network addresses, as values and as keys.",
   "Trusted: serde_json's compact output as the specification; the hook is a plain re-export of the private to_slice.",
   "§3 C03"),
 "C07": ("exploration", "vcheck",
   "property-based testing over (frames, chunking, Pending schedule, cancellation set) with a hand-rolled executor that owns every poll; exhaustive subsets of suspension points for small streams and every-k-th-poll cancellation; oracle = no-cancellation reference model",
   "The harness polls receive futures by hand and drops them at generated suspension points; the sequence of results must equal the reference decode of each frame. All subsets of <= 12 suspension points of 30 small streams and every k for byte-at-a-time delivery are enumerated. Two further lanes: (mixed forms) reply frames are received through a generated alternation of receive_reply and chain reply streams, each abandoned after 0..2 Pending polls, so the receive that follows an abandoned one is of another kind; (through the server) C08 scenarios with a poll of Server::run after every delivery, where the server itself drops all pending receives whenever another select branch wins, judged by the sequential model. In one case in four the connection halves are put together with Connection::join and split again after every abandoned receive and before some receives.",
   "Trusted: the simulated read half is itself cancel safe; reference as in C01. Abandonment close to the buffer limit is exercised by C17 (lowered limit).",
   "§3 C07"),
 "C05": ("exploration", "vcheck",
   "exhaustive enumeration of call objects (10 method templates x 8 flag sets x explicit false x 0..2 unknown members x every member permutation) + proptest lanes for re-spelled texts (escapes in member names / values, white space), encodings through serde_json and through zlink's own serializer, derived error enums x member orders x {absent, null, {}}, Reply<T>, unit-output proxy methods; oracles: reference decode of the method type alone (differential), hand-written expected encodings, round trip, permutation invariance",
   "Every permutation of every envelope in the grammar is decoded as Call<M> and compared with the decode of M from the same object without the flags (flags as written, hidden from M, other members passed through); encodings are compared with hand-written expectations via serde_json and via the send path; unknown members also get generated names (1..60 bytes of ASCII and 2-4-byte characters, raw or \\u-escaped); every value of 4 derived error enums and the standard service errors round-trips from every member order and, when field-less, from absent / null / {} parameters (also through receive_reply); every variant of every enum of a generated corpus (unit / struct variants, renamed and raw-identifier fields, options, borrowed fields, lists, maps, nested structs, interface names with dashes and digits) encodes - through serde_json and through send_error - to the document its declaration denotes and decodes from 4..8 spellings to the value it was written from, also through receive_reply; unit-output proxy methods accept all three spellings. Method types also include plain structs with 1, 3 and 5 own members.",
   "Trusted: serde's derive for user-defined method types as the reference for what the method type accepts; hand-written expected encodings next to each generated value. Error-enum shapes: 4 compiled-in enums plus a generated corpus (100 enums quick, 400 thorough) compiled with the ReplyError derive, whose expected wire names / parameter names / values come from the generator's own table.",
   "§3 C05"),
 "C08": ("exploration", "vcheck",
   "model-based property testing of server schedules (proptest, shrinking; thorough: libFuzzer target srv_sim decoding the same raw scenario values): deterministic simulation of Server::run (scripted listener / sockets / service, hand-rolled executor, one Poll = run to quiescence) with generated connection scripts and global event orders; exhaustive enumeration of all interleavings of chunk deliveries for 2 connections x 4 chunks and 3 connections x 2 chunks; oracle = per-connection sequential reference model + service-log monitor",
   "1..4 scripted clients with 0..5 calls each (plain / oneway / error-producing, pipelined or split at arbitrary bytes) are delivered in a generated global order; at every quiescent point each client's received frames must equal (at frame boundaries) or be a prefix of (mid-frame) the sequential model of its own calls, carry only its own tag, and the service log per connection must equal its calls exactly once in order; the server future must stay pending.",
   "Trusted: the simulated transports (a read returns Pending only when nothing was delivered), the scripted service as the definition of 'as decided by the service'. The simulation polls with a no-op waker; that a real runtime would wake the server is checked separately (wake discipline: at every quiescent point accept, every live connection's read or one of its parked streams must have been polled to Pending with nothing to deliver). zlink serves a complete frame that is followed by a partial one only when the partial one completes; the statement does not speak about latency, so only a prefix is demanded at such points.",
   "§3 C08"),
 "C09": ("fault_enumeration", "vcheck",
   "fault injection into the deterministic server simulation: property-based generation of scenarios with faulty connections + exhaustive placement of every fault kind at every script position / every k for EOF, read error and write failure; relational oracle (same scenario re-run with the faulty connections absent, healthy outputs byte-identical at every observation) + reference model + liveness probe connection",
   "Faults (oversized messages - a well-formed call 0..2000 bytes beyond the receive limit, injected in a second build whose limit the cfg(zlink_verif_small_buf) hook lowers to 83*256 bytes - and 8 fixed kinds of bad frame - garbage, invalid UTF-8, wrong shape, unknown method, wrong types, missing parameter, ill-typed flag, a valid call followed by more bytes in the same frame - and generated undecodable frames of 0..900 bytes with multi-byte characters at every offset, at any position, truncated frame then EOF, EOF / transport read error anywhere, write failure from the k-th write) are placed in one or two of 1..4 connections under generated global event orders; every healthy connection must receive byte-identical frames at every quiescent point compared with a second run in which the faulty connections do not exist, must equal the sequential model, and a connection that arrives after all faults must be served; Server::run() must stay pending. Blank frames (a lone terminator, white space only) are a fault kind too. A connection that carries on behind an undecodable frame is accepted (the statement says 'at most that connection') as long as no call is handled twice or out of order and a well-formed reply-expecting call is not skipped without an answer.",
   "Trusted: as C08. A peer that closes in the middle of a frame makes zlink drop the complete frames read together with the partial one; no listed property demands those replies, so a faulty connection is only checked for consistency (a prefix relation with its model, nothing foreign). The oversized-message fault is covered by C17, not here.",
   "§3 C09"),
 "C10": ("exploration", "vcheck",
   "model-based property testing of streaming through the server simulation (proptest, shrinking): Sub calls answered with a harness-controlled stream, Push/End events placed anywhere in the global order, pipelined calls behind the Sub, write failures; exhaustive interleavings of one connection's stream events with another connection's deliveries x write failure at every k; oracle = sequential model extended with streams",
   "Streaming calls may also be flagged oneway (the service still answers with a stream, which must be discarded: nothing is sent and the connection keeps taking calls). At every quiescent point each client has received, for its calls in order, the reply or - for a streaming call - every item pushed so far in push order with exactly the pushed continues flag, nothing of the calls behind an open stream, and after the stream's end the pipelined calls in order; the other clients equal their own model while a stream is open; after a write failure at any item only that connection stops.",
   "Trusted: as C08; the stream is a harness-controlled queue (item exists from its Push step on).",
   "§3 C10"),
 "C11": ("exploration", "vcheck",
   "property-based testing of chains / streaming calls whose items are held while later ones are obtained (proptest, shrinking) + directed sweep of every batch length 200..=1100 bytes; oracle = content snapshot + mutual address consistency of the held slices, run under a harness allocator that poisons and quarantines freed buffer-sized blocks and always moves on realloc; known-finding lane with a fixed witness",
   "2..6 replies with borrowed string fields (success and error parameters, lengths dialled around the 256-byte steps) are received through Connection::chain_call / a `more` call; every yielded &str is kept and re-read after each later item: its bytes must equal the snapshot and all held slices must lie in one buffer at the offsets of their frames. One reply in ten is a top-level failure of the exchange (service-error reply, undecodable frame, peer close): the stream must report it and end with the held items intact. The class is a function of the input alone: class B = a transport read ends exactly at the end of a non-final reply (a chunk ends there or the reply ends at a multiple of 256) - the known finding replystream-item-across-read (witness replayed on every run, cases excluded by construction and counted); every other input is class A and is judged, whenever the implementation chooses to read. The exchange may also end with a transport read error while items are held.",
   "Trusted: native execution - stale memory is made observable by the poisoning / quarantining allocator and the address check rather than by a memory-model tool. Only values borrowed through the reply stream are covered: for the plain receive methods the borrow checker already forbids a second receive while a borrow lives.",
   "§3 C11"),
 "C12": ("exploration", "corpus12",
   "generated-program testing: a seeded generator emits a corpus of proxy traits (names, renames, parameter types, lifetimes, generics, more / oneway, outputs) plus argument tuples and scripted replies; the corpus is compiled against /repo with the proxy macro (diagnostics mapped back to the generated trait) and run against a scripted socket; oracle = call object computed from the declaration (per form: plain, chain_, chain extension), metamorphic equality of the three forms, differential reply classification against the low-level receive_reply",
   "80 (thorough 600) generated traits with 1..5 methods are expanded by the real macro and compiled; every method is called in every available form with 3 argument tuples and the captured frames must equal, as JSON, the call denoted by the declaration; 5-7 scripted replies per method must be mapped exactly as Connection::receive_reply classifies the same frames, streams item by item. A trait the macro accepts but that does not compile is a violation.",
   "Trusted: the generator's own declaration -> expected-call function (independent snake->Pascal conversion, fixed literal tables). Program generation is not shrunk by proptest; the reported unit is one method of one trait with its full module source (replayable).",
   "§3 C12"),
 "C13": ("exploration", "vcheck",
   "grammar-based property testing (proptest, shrinking): interface trees rendered with random legal layout, token / byte mutants, every prefix of generated texts, IDL-flavoured and arbitrary strings; oracles: deep comparison of the parsed description (public accessors) with the generating tree, an independent three-valued recogniser (valid / definitely invalid / not judged) as differential, token preservation for every accepted text, panic = violation",
   "Valid texts (every type constructor to depth 4, every legal name class, keywords as field names, own-line comments in the listed positions, LF / CRLF and arbitrary inter-token white space) must parse to exactly the generating tree; mutants, truncations at every byte and soup are classified by an independent recursive-descent recogniser: definitely invalid texts must be rejected, valid ones must yield the recogniser's tree, texts only a lenient reading accepts are not judged; every accepted text must keep all its tokens (nothing ignored); no input may panic the parser.",
   "Trusted: the harness author's reading of the Varlink grammar in the recogniser (strict and lenient variants; the carve-outs are listed in DESIGN.md §3 C13); termination is only observed (a hang surfaces as the caller's time-out = inconclusive).",
   "§3 C13"),
 "C14": ("exploration", "vcheck",
   "round-trip property testing (proptest, shrinking) over generated interface trees built through the public constructors in owned and borrowed form and over the parser's own outputs: parse(render(x)) deep-equal x (own comparison incl. comments, and library ==), render fixpoint, and the GetInterfaceDescription exchange over a loop-back transport; known-finding lane with witness",
   "Every generated description (all type constructors to depth 4, empty and non-empty lists, comments at interface / member / direct field / parameter / variant level) is rendered by zlink, parsed back and compared through the public accessors with the generating tree, re-rendered (must reproduce the text), and sent as an InterfaceDescription reply that the client side receives and parses to the same tree; the library's org.varlink.service description is included. Cases matching the known finding enum-variant-comment-render are attributed to it only if they pass once the variant comments are removed.",
   "Trusted: the harness's own tree / conversion through public accessors (shared with C13). Legal comment text = no line break, no leading blank, no carriage return. Comments inside inline types are not generated (not listed by the statement).",
   "§3 C14"),
 "C15": ("exploration", "corpus15",
   "generated-program testing through the whole tool chain: a seeded generator emits IDL trees (names with acronyms, digits, camelCase / snake_case / kebab spellings, Rust keywords; every type constructor; non-recursive, collision-free), zlink parses the rendered text, zlink_codegen (as a library) generates a Rust module, which is compiled against /repo together with a harness-written driver and run against a scripted socket; oracle = call frames, reply / error / custom-type round trips computed from the IDL tree; known-finding lane with witness",
   "40 (thorough 300) generated interfaces: each generated module must compile; for every method the frame on the wire must equal {method: '<interface>.<IDL name>', parameters: {IDL names: values of the declared shapes}}, a reply spelled with the IDL output names must decode and re-encode identically, every IDL error must come back as the method error and re-encode identically, every custom struct / enum value spelled as in the IDL must round-trip. Name pools include a digit followed by a lower-case letter (Sha256sum, Get2fa); types nest up to three levels (five systematic three-level wrappers, one random field in five).",
   "Trusted: the driver's coupling to codegen's Rust identifiers (heck snake / Pascal of the IDL names, r# for keywords, trailing underscore for self / super / crate) - identifiers are not part of the property, JSON spellings are. Values in scripted replies are escape-free strings. Comparisons are modulo null members.",
   "§3 C15"),
 "C16": ("exploration", "corpus16",
   "generated-program testing: a seeded generator emits modules of structs / unit enums / error enums with the introspection derives (every entry of the Rust->Varlink mapping table, wrappers, collections, nested custom and inline types, lifetimes, raw-identifier fields, doc comments in both forms) plus the expected description; the corpus is compiled against /repo (diagnostics mapped to the generated module) and a runner dumps TYPE / CUSTOM_TYPE / VARIANTS through the public accessors and the render -> parse round trip of an interface assembled from them; oracle = expectation computed from the declaration by the harness's own mapping table; known-finding lanes with witness",
   "60 (thorough 500) generated modules, 5-6 derived items each: the derived descriptions must list exactly the declared fields / variants in order under their Rust names with the expected Varlink types and the doc texts as comments; the interface assembled from a module's descriptions must render to text that parses back equal (library == and deep compare) and re-renders to an equal description. Modules with a directly nested Option or a documented variant in a multi-variant unit enum are attributed to the two known findings for the round-trip part only. Doc texts include general punctuation, arrows and other non-ASCII text; documented Type structs are used inline as field types.",
   "Trusted: the harness's own Rust-type -> Varlink-type table (written from the statement). External-crate impls (uuid, chrono, url, ...) are not in the cargo cache and not covered. Comments inside inline types are ignored in the round trip (not listed by the property).",
   "§3 C16"),
 "C06": ("exploration", "vcheck",
   "model-based property testing of chains (proptest, shrinking; thorough: libFuzzer target chain_rx decoding the same raw values): generated flag sequences + conforming server scripts + trailing frames + chunkings, stream polled by hand; exhaustive enumeration of all flag sequences up to length 4 x 3 script families x 3 trailing counts x 6 chunkings; oracle = owed-reply model + reference decode + transport poll counter",
   "Chains of 1..6 calls over {plain, oneway, more} (call sizes dialled so that the enqueued calls end before / at / after the 256-byte steps of the write buffer; success replies with or without a `parameters` member; one final reply in twenty is a top-level failure - undeclared error, standard service error, not a reply - after which the stream may stop or go on, but must not treat the failed reply as if it had not been its call's final one) are sent through Connection::chain_call/append/send against a scripted transport that then stays silent; the single transport write must equal the calls' reference encodings, the stream must yield exactly the owed replies (as the reference classifies each frame) and then None without polling the transport, and a later receive_reply must still find every trailing frame. One call in twenty is 6..40 KB, so that some chains exceed any plausible internal chunk size and must still be one write.",
   "Trusted: conforming server scripts only (non-conforming servers are outside the statement); reply classification reference as in C04; hand polling with a no-op waker (a Pending with an exhausted script is 'waits forever').",
   "§3 C06"),
 "C17": ("exploration", "vcheck",
   "exhaustive size sweep (every inbound frame size 1..=limit+512 x chunk sizes, outbound sizes around every 256-byte step and the limit from several fill positions) under a hook-lowered limit of 83*256 bytes + production-limit inbound cases (100 MiB -257/-256/-2/-1/+0/+1/+300, unterminated over/under); threshold oracle from the statement + byte-exact delivery",
   "Every inbound frame size up to limit+512 is received under 4-6 chunk sizes (terminated, unterminated+EOF, unterminated+waiting, behind pipelined prefixes) and every relevant outbound size is sent from an empty queue and behind an enqueued message: below the limit => intact, above => BufferOverflow with nothing of the refused message written, the queued message and a later message intact; the receive buffer (inferred from the slices offered to the read half) never exceeds the limit and no transport write is longer than it; a refused send has written nothing at the moment of refusal, also when it is a send_* behind enqueued messages; frames within 700 bytes of the limit are also received with the pending receive abandoned once mid-frame. The production build confirms the inbound thresholds at 100 MiB. A further lane fills the queue to within two growth steps of the limit and then enqueues / sends every total around it.",
   "Trusted: the small-limit build differs from production only in the constant (cfg zlink_verif_small_buf; 83*256 so that doubling strategies do not land on it); size == limit is recorded but not judged; outbound near 100 MiB is unreachable (quadratic re-serialisation) and covered under the lowered limit only.",
   "§3 C17"),
 "C18": ("exploration", "vcheck",
   "history monitor over the service order recorded in the deterministic server simulation: proptest-generated role assignments (flooder with none / all / alternating oneway calls, single caller whose calls arrive whole or in two pieces, idle, closer, streamer at any list position) and event orders + exhaustive enumeration of flooder x single-caller positions among 2..5 connections under 4 schedules; oracle = round-robin monitor (strict within a run with unchanged connection set; counting bound across transitions) + the C08 reply model",
   "Within one run of the server to quiescence, between two consecutive services of one connection every other connection that had a complete call waiting the whole time must have been served; across closures and streaming transitions the number of foreign calls served while an eligible call waits must not exceed connections x (transitions + 1).",
   "Trusted: a call is 'waiting' from the delivery of its last byte (deliveries end at frame boundaries or inside a connection's only outstanding call); a call queued behind its own connection's open stream counts as eligible only once the server has seen the stream end. Not claimed: that reply streams make progress while some client keeps calls buffered (the biased select polls streams last; see DESIGN.md §4 notes).",
   "§3 C18"),
 "C19": ("exploration", "vcheck",
   "generated end-to-end scenarios over real Unix sockets under tokio (current-thread, multi-thread) and smol: socketpairs and bound / inherited-descriptor listeners with 1..8 concurrent connections, message sizes 1 B..1 MiB in both directions at once with generated reader pacing; deterministic cancellation recipe (send polled by hand until Pending with the peer reading a generated number of bytes, dropped, second send) and cancellation histories (2..6 sends on one connection, any of them abandoned after 1..4 polls); zlink's own Server on a real listener in its own thread serving 1..6 real clients of either runtime (calls, declared errors, oneway calls, pipelined chains, streaming calls); oracle = sent sequence == received sequence byte for byte (position-dependent pattern), distinct connection ids, peer byte stream == whole frames, each at most once, in order, completed sends exactly once; served clients get exactly the service's replies",
   "Each scenario moves generated call and reply sequences through two zlink connections joined by a real socket and compares index, length and every byte; the cancellation scenarios compare the peer's raw byte stream with frame(A) NUL frame(B) NUL, the cancellation histories demand a subsequence of the sent frames that contains every completed send; the served scenarios run Server::run over a bound or inherited listener under tokio or smol against clients under tokio (current / multi-thread) or smol and compare every reply (ids, item sequence numbers, pattern bytes, continues flags). Sizes beyond the kernel socket buffer force partial writes; the schedule itself is not owned, so this is the weakest claim of the set: one kernel schedule per scenario. In cancellation histories the peer may leave what an abandoned send wrote in the kernel, so that the next attempt finds the socket full and makes no progress (directed double-abandon histories on both runtimes).",
   "Trusted: the kernel and the two runtimes; each scenario runs under a deadline whose expiry is reported as inconclusive (exit 2). Violations are re-run 5 times on replay.",
   "§3 C19"),
 "C20": ("exploration", "vcheck",
   "model-based property testing of operation lists (proptest, shrinking) over {set, set the value that is already current, set through a clone, subscribe, poll subscriber i, clone, drop original} + exhaustive enumeration of every list up to length 7 over {set, set-same, subscribe, poll 0, poll 1} (thorough: libFuzzer target notified, one byte per operation), executed against both zlink_tokio::notified and zlink_smol::notified with hand polling; oracle = subscriber model (increasing subsequence of the values set after subscribing, up to date at every Pending, no end while a state exists, end after all states dropped) + one-shot cases",
   "Every generated and enumerated interleaving of writers and (lagging) readers is run on both runtimes: each subscriber must see a subsequence of the values set after it subscribed, marked continues = true, be up to date whenever a poll returns Pending (last value = last value set, and something received since the last time it was up to date if anything was set), have been woken (its own counting waker) by the next set or by the end of the state if its last poll returned Pending, never see the end while a state or clone exists and see it (with the latest value delivered) once all are dropped; set must never fail or panic; one-shot notification yields exactly one item marked continues = false, then the end (just the end if the notifier was dropped). A subscriber may drop its stream at any point; the others and later subscribers must not notice.",
   "Trusted: hand polling - a Pending is read as 'queue empty' (true for both channel implementations); every subscriber is polled with its own counting waker, so that a parked subscriber that is not woken by a set / by the end of the state is reported, but multi-threaded use is outside this check.",
   "§3 C20"),
}

REASONS_PENDING = "check not built yet in this session; planned with property-based testing as described in DESIGN.md §3"

def main():
    props = [json.loads(l)["id"] for l in open(os.path.join(ROOT, "properties.jsonl"))]
    checks = []
    for pid in props:
        if pid not in CHECKS:
            continue
        cat, engine, technique, text, note, ref = CHECKS[pid]
        checks.append({
            "property_id": pid,
            "quick_cmd": f"./check {pid} quick",
            "thorough_cmd": f"./check {pid} thorough",
            "evidence_file": f"/verif/evidence/{pid}.json",
            "replay_cmd_template": "./check --replay {path}",
            "engine": engine,
            "level_claimed": {"category": cat, "text": text, "design_ref": ref},
            "level_note": note,
            "technique": technique,
        })
    hooks_commits = subprocess.run(
        ["git", "-C", "/repo", "log", "--format=%h %s", "--grep=^verif hooks"],
        capture_output=True, text=True).stdout.strip().splitlines()
    manifest = {
        "version": 1,
        "setup_cmd": "./check --setup",
        "hooks": {
            "guard": "rustc cfg `zlink_verif` (exposes zlink_core::__verif::json_to_slice) and `zlink_verif_small_buf` (MAX_BUFFER_SIZE = 83*256 bytes, used only by the second (small-limit) build of C17 and of the oversized-message lane of C09; with zlink_verif also exposes the compiled-in limit)",
            "enable": "RUSTFLAGS=\"--cfg zlink_verif\" (plus \"--cfg zlink_verif_small_buf\" into a separate target dir for C17 and C09); set by ./check for every harness build",
            "baseline_off_cmd": BASELINE,
            "source_commits": [c.split()[0] for c in hooks_commits],
            "add_only": True,
        },
        "engines": [
            {"name": "corpus05", "path": "harness/corp05",
             "serves_properties": ["C05"],
             "kind_free_text": "generated program corpus of ReplyError derives: generator and judge in vcheck (c05gen.rs), runner crate harness/corp05 built with cargo against /repo; one lane of the C05 check (the other lanes run in vcheck itself)"},
            {"name": "corpus12", "path": "harness/corp12",
             "serves_properties": ["C12"],
             "kind_free_text": "generated program corpus: vcheck's C12 generator writes proxy traits + a reporting runner into harness/corp12/gen-out, builds the crate with cargo (release profile, opt-level 0, shared target dir) against /repo and runs it; judging happens in vcheck"},
            {"name": "corpus15", "path": "harness/corp15",
             "serves_properties": ["C15"],
             "kind_free_text": "generated program corpus for the code generator: IDL generator + driver generator in vcheck (c15.rs), zlink_codegen used as a library, runner crate harness/corp15 built with cargo against /repo, judged in vcheck"},
            {"name": "corpus16", "path": "harness/corp16",
             "serves_properties": ["C16"],
             "kind_free_text": "generated program corpus of introspection derives: generator in vcheck (c16.rs), runner crate harness/corp16 built with cargo against /repo, judged in vcheck"},
            {"name": "vcheck", "path": "harness/vcheck",
             "serves_properties": sorted(k for k, v in CHECKS.items() if v[1] == "vcheck"),
             "kind_free_text": "Rust binary: proptest 1.11 strategies run through TestRunner (fixed seeds, shrinking, no persistence) in seed shards, plus exhaustive enumerators for bounded sub-domains; deterministic simulated transport / listener / executor (vcommon)"},
        ],
        "checks": checks,
        "notes": "All checks: ./check <id> [quick|thorough]; VERIF_SEED selects the seed. Exit 2 = inconclusive (build failure, watchdog), never a violation. Known findings / repaired defects: KNOWN_FINDINGS.txt.",
        "not_applicable": [
            {"property_id": pid, "reason": REASONS_PENDING} for pid in props if pid not in CHECKS
        ],
    }
    with open(os.path.join(ROOT, "MANIFEST.json"), "w") as f:
        json.dump(manifest, f, indent=1)
        f.write("\n")
    # validate
    try:
        import jsonschema
        schema = json.load(open("/root/.vp/MANIFEST.schema.json"))
        jsonschema.validate(manifest, schema)
        print("MANIFEST.json valid;", len(checks), "checks")
    except ImportError:
        print("MANIFEST.json written (jsonschema not importable here)")

if __name__ == "__main__":
    main()
